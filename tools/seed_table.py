#!/usr/bin/python3
"""Print the markdown table of seeded changes (DESIGN.md 9.6) from seeded/*/meta.json."""
import json, os, re
root = os.path.join(os.path.dirname(os.path.abspath(__file__)), "..", "seeded")
def sk(n):
    m = re.match(r"C(\d+)-(\d+)", n)
    return (int(m.group(1)), int(m.group(2)))
rows = []
for n in sorted((x for x in os.listdir(root) if os.path.isdir(os.path.join(root, x))), key=sk):
    m = json.load(open(os.path.join(root, n, "meta.json")))
    keys = m["check_result"]["violation_keys"]
    k0 = keys[0] if keys else "NOT REPORTED"
    fp = m.get("first_pass", {}).get("detected")
    what = (m.get("what") or "").replace("|", "/").replace("\n", " ")
    if len(what) > 150:
        what = what[:147] + "..."
    rows.append((n, m.get("batch", "?"), what, k0 if len(k0) < 110 else k0[:107] + "...", "yes" if fp else ("no" if fp is not None else "?")))
if __name__ == "__main__":
    print("| seed | batch | change | reported as | reported by the rules as they stood when it arrived |")
    print("|------|-------|--------|-------------|------------------------------------------------------|")
    for r in rows:
        print("| %s | %s | %s | `%s` | %s |" % r)
    import collections
    c = collections.Counter((r[1], r[4]) for r in rows)
    tot = collections.Counter(r[1] for r in rows)
    print()
    print("First-pass totals: " + "; ".join("batch %s: %d of %d" % (b, c[(b, "yes")], tot[b]) for b in sorted(tot)) + "; now reported: %d of %d." % (sum(1 for r in rows if r[3] != "NOT REPORTED"), len(rows)))
