#!/usr/bin/python3
"""Print the markdown table of seeded changes (DESIGN.md 9.6) from seeded/*/meta.json."""
import json, os, re
# rule (key prefix) -> batch after which it was written or repaired in response to a miss
RESPONSE = [
    ("R-FFI-N5", 1), ("R-LOCK:K5", 1), ("R-LOCK-K5", 1), ("R-LOOP:<haystack::filter::nodes::WildcardEq", 1), ("R-LOOP:haystack::defs::namespace::Namespace::has_relationship", 1),
    ("R-WRITEALL", 2), ("T-NEST:element", 2), ("T-CELL", 2), ("T-TZGUARD", 2), ("T-OFFSET", 2), ("T-KEEP:member-loop", 2),
    ("T-ORDER:member-loop", 2), ("R-CAST:intcast", 2), ("R-EQ:Coord:Q1b", 2), ("R-EQ:DateTime:Q2b", 2), ("R-EQ:Dict:Q4", 2),
    ("R-REC:depth-counter-balanced", 2), ("T-SEP:display-separator", 2), ("T-SPELL:whitespace", 2), ("T-SPEC:scanner-class", 2),
    ("T-SPEC:class", 2), ("T-RESOLVE", 2), ("T-COLUMNS", 2), ("T-VERBATIM", 2), ("R-FLAG", 2), ("R-ERR:haystack_value_set_list_entry_at:index-guard", 2),
    ("R-ERR:haystack_value_make_number_with_unit:swallows", 2),
]
root = os.path.join(os.path.dirname(os.path.abspath(__file__)), "..", "seeded")
def sk(n):
    m = re.match(r"C(\d+)-(\d+)", n)
    return (int(m.group(1)), int(m.group(2)))
print("| seed | change | reported as | rule existed when the change was written |")
print("|------|--------|-------------|------------------------------------------|")
for n in sorted(os.listdir(root), key=sk):
    m = json.load(open(os.path.join(root, n, "meta.json")))
    keys = m["check_result"]["violation_keys"]
    k0 = keys[0] if keys else "MISSED"
    first = "yes"
    for pre, b in RESPONSE:
        if k0.startswith(pre):
            first = "no (written after batch %d)" % b
    batch = m.get("batch")
    what = (m.get("what") or "").replace("|", "/").replace("\n", " ")
    if len(what) > 150:
        what = what[:147] + "..."
    print("| %s | %s | `%s` | %s |" % (n, what, k0 if len(k0) < 110 else k0[:107] + "...", first))
