#!/usr/bin/python3
"""Refresh seeded/<id>/meta.json `check_result` from a log of tools/refcheck.py run over /verif/seeded (each seed applied to a
scratch copy of /repo, all 20 checks run). `detected` is judged by the seed's own property; alarms of other properties' checks are
recorded next to it.  usage: update_seed_meta.py <log>"""
import json, os, sys

root = os.path.join(os.path.dirname(os.path.abspath(__file__)), "..", "seeded")
n = det = 0
for l in open(sys.argv[1]):
    try:
        d = json.loads(l)
    except Exception:
        continue
    name = d["probe"]
    mp = os.path.join(root, name, "meta.json")
    if not os.path.exists(mp):
        continue
    m = json.load(open(mp))
    prop = m["property"]
    al = d.get("alarms", {})
    own = [k for k in al.get(prop, []) if not k.startswith("exit ")]
    m["check_result"] = {
        "cmd": "./check %s (patch applied to a scratch copy of /repo's working tree; tools/refcheck.py seeded/)" % prop,
        "exit": 1 if own else 0,
        "detected": bool(own),
        "violation_keys": own[:8],
        "other_checks_alarming": {k: v[:3] for k, v in sorted(al.items()) if k != prop},
    }
    if not d.get("applies", True):
        m["check_result"]["applies"] = False
    json.dump(m, open(mp, "w"), indent=1)
    n += 1
    det += bool(own)
print("updated %d seeds, %d reported by their own property's check" % (n, det))
