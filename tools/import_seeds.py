#!/usr/bin/python3
"""Import confirmed seeded changes into /verif/seeded/<id>/ and record what the checks say about them.
usage: import_seeds.py <property> <dir containing seeded/> <confirm log> [batch [first-pass log]]"""
import json
import os
import shutil
import subprocess
import sys

prop, wt, log = sys.argv[1:4]
batch = int(sys.argv[4]) if len(sys.argv) > 4 else None
firstpass = {}
if len(sys.argv) > 5:
    for l in open(sys.argv[5]):
        try:
            d = json.loads(l)
            firstpass[d["seed"]] = d
        except Exception:
            pass
conf = {}
for l in open(log):
    try:
        d = json.loads(l)
        conf[d["seed"]] = d
    except Exception:
        pass
for name in sorted(os.listdir(os.path.join(wt, "seeded"))):
    src = os.path.join(wt, "seeded", name)
    c = conf.get(name)
    if not c or not (c.get("suite_ok") and c.get("demo_with_patch_fails") and c.get("demo_without_patch_passes")):
        print("skip (not confirmed):", name)
        continue
    dst = os.path.join("/verif/seeded", name)
    os.makedirs(dst, exist_ok=True)
    for f in ("patch.diff", "demo.rs"):
        shutil.copy(os.path.join(src, f), os.path.join(dst, f))
    meta = json.load(open(os.path.join(src, "meta.json")))
    subprocess.run("git -C /repo apply %s/patch.diff" % dst, shell=True, check=True)
    p = subprocess.run("./check %s" % prop, cwd="/verif", shell=True, capture_output=True, text=True)
    subprocess.run("git -C /repo checkout -- .", shell=True, check=True)
    keys = [l.strip()[len("rule-key: "):] for l in p.stdout.splitlines() if l.strip().startswith("rule-key:")]
    out = {
        "property": prop,
        "what": meta.get("what"),
        "needs": meta.get("needs"),
        "author": "independent sub-agent given only the property text and a scratch worktree",
        "confirmed_by_me": {
            "how": "tools/seedcheck.py confirm in the scratch worktree: patch applied, `cargo test --workspace --no-fail-fast --offline` (365 tests + doctests) passes, demo.rs as integration test fails with the patch and passes without it",
            "suite_with_patch": c.get("suite_with_patch"),
            "demo_with_patch_fails": True,
            "demo_without_patch_passes": True,
        },
        "agent_ran": meta.get("ran"),
        "check_result": {"cmd": "./check %s (patch applied to /repo, reverted afterwards)" % prop, "exit": p.returncode, "detected": p.returncode == 1 and bool(keys), "violation_keys": keys[:8]},
    }
    if batch is not None:
        out["batch"] = batch
    fp = firstpass.get(name)
    if fp is not None:
        out["first_pass"] = {"detected": fp.get("check_rc") == 1 and bool(fp.get("violations")), "keys": [k.replace("rule-key: ", "") for k in fp.get("violations", [])][:4], "note": "verdict of the checks as they stood when the change arrived (seeded/batch%s_firstpass.log)" % (batch or 3) + ""}
    json.dump(out, open(os.path.join(dst, "meta.json"), "w"), indent=1)
    print(name, "detected" if out["check_result"]["detected"] else "MISSED", keys[:2])
