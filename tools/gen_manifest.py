#!/usr/bin/python3
"""Regenerates MANIFEST.json from the per-property metadata in props/*.py (MANIFEST dict) -- one source of truth."""
import importlib
import json
import os
import sys

HERE = os.path.dirname(os.path.dirname(os.path.abspath(__file__)))
sys.path.insert(0, HERE)

ALL = ["C%02d" % i for i in range(1, 21)]
NOT_APPLICABLE = {
}


def main():
    checks = []
    na = []
    for pid in ALL:
        if pid in NOT_APPLICABLE:
            na.append({"property_id": pid, "reason": NOT_APPLICABLE[pid]})
            continue
        try:
            mod = importlib.import_module("props." + pid)
            meta = mod.MANIFEST
        except (ModuleNotFoundError, AttributeError):
            na.append({"property_id": pid, "reason": "check under construction in this session (static rules designed in DESIGN.md section 3; not yet registered)"})
            continue
        checks.append(
            {
                "property_id": pid,
                "quick_cmd": "./check %s --tier quick" % pid,
                "thorough_cmd": "./check %s --tier thorough" % pid,
                "evidence_file": "evidence/%s.json" % pid,
                "replay_cmd_template": "cat {path}",
                "engine": "mirfacts+rules",
                "technique": meta["technique"],
                "level_claimed": {"category": "other", "text": meta["level"], "design_ref": meta.get("design_ref", "DESIGN.md section 3 " + pid)},
                "level_note": meta["note"],
            }
        )
    man = {
        "version": 1,
        "setup_cmd": "./setup.sh",
        "hooks": {
            "guard": "j2inn_libhaystack_verif",
            "enable": "none needed: the checks analyse the unmodified build (cargo +nightly check --lib with engine/mirfacts as RUSTC_WORKSPACE_WRAPPER); the cfg name is reserved and unused",
            "baseline_off_cmd": "cd /repo && cargo test --workspace --no-fail-fast --offline",
            "source_commits": [],
            "add_only": True,
        },
        "engines": [
            {"name": "mirfacts", "path": "engine/mirfacts", "serves_properties": [c["property_id"] for c in checks], "kind_free_text": "rustc_private driver (nightly) exporting MIR bodies, resolved callees, ADT/impl tables of /repo as JSON facts"},
            {"name": "rxtool", "path": "engine/rxtool", "serves_properties": ["C20", "C10"], "kind_free_text": "regex-syntax / regex-automata analysis of regex literals found in MIR constants (parse, capture structure, first-byte set, DFA language inclusion)"},
            {"name": "rules", "path": "rules", "serves_properties": [c["property_id"] for c in checks], "kind_free_text": "python3 (stdlib) rule families over the facts: dominance-checked guards, dataflow, call-graph reachability, table checks"},
        ],
        "checks": checks,
        "not_applicable": na,
        "notes": "Static analysis only: every verdict is computed from /repo's current source (type-checked MIR) without running libhaystack. See DESIGN.md.",
    }
    with open(os.path.join(HERE, "MANIFEST.json"), "w") as fh:
        json.dump(man, fh, indent=1)
    print("MANIFEST.json: %d checks, %d not applicable" % (len(checks), len(na)))


if __name__ == "__main__":
    main()
