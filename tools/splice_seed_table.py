#!/usr/bin/python3
"""Regenerate the seed table of DESIGN.md 9.6 in place."""
import os, subprocess
here = os.path.dirname(os.path.abspath(__file__))
p = os.path.join(here, "..", "DESIGN.md")
s = open(p).read()
a, b = "<!-- seed-table-begin -->", "<!-- seed-table-end -->"
t = subprocess.run(["/usr/bin/python3", os.path.join(here, "seed_table.py")], capture_output=True, text=True, check=True).stdout
i, j = s.index(a), s.index(b)
s = s[: i + len(a)] + "\n" + t + s[j:]
open(p, "w").write(s)
