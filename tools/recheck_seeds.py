#!/usr/bin/python3
"""Re-run the property's check against every recorded seeded change (applied to /repo, reverted afterwards) and refresh
check_result in seeded/<id>/meta.json; first_pass is left untouched. usage: recheck_seeds.py [seed-id-prefix ...]"""
import json, os, subprocess, sys
root = os.path.join(os.path.dirname(os.path.abspath(__file__)), "..", "seeded")
sel = sys.argv[1:]
st = subprocess.run("git -C /repo status --porcelain", shell=True, capture_output=True, text=True).stdout.strip()
if st:
    sys.exit("refusing: /repo has local changes\n" + st)
for n in sorted(os.listdir(root)):
    d = os.path.join(root, n)
    if not os.path.isfile(os.path.join(d, "meta.json")) or (sel and not any(n.startswith(s) for s in sel)):
        continue
    meta = json.load(open(os.path.join(d, "meta.json")))
    prop = meta["property"]
    a = subprocess.run("git -C /repo apply %s/patch.diff 2>&1 || (git -C /repo reset -q --hard HEAD ; patch -d /repo -p1 --no-backup-if-mismatch -s -i %s/patch.diff)" % (d, d), shell=True, capture_output=True, text=True)
    if a.returncode != 0:
        subprocess.run("git -C /repo reset -q --hard HEAD && git -C /repo clean -fdq src", shell=True)
        print(n, "NOAPPLY")
        continue
    p = subprocess.run("./check %s" % prop, cwd=os.path.join(root, ".."), shell=True, capture_output=True, text=True)
    subprocess.run("git -C /repo reset -q --hard HEAD && git -C /repo clean -fdq src", shell=True, check=True)
    keys = [l.strip()[len("rule-key: "):] for l in p.stdout.splitlines() if l.strip().startswith("rule-key:")]
    meta["check_result"] = {"cmd": "./check %s (patch applied to /repo, reverted afterwards)" % prop, "exit": p.returncode, "detected": p.returncode == 1 and bool(keys), "violation_keys": keys[:8]}
    json.dump(meta, open(os.path.join(d, "meta.json"), "w"), indent=1)
    print(n, "detected" if meta["check_result"]["detected"] else "MISSED", keys[:1])
    sys.stdout.flush()
