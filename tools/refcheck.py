#!/usr/bin/python3
"""False-alarm probes: apply each behaviour-preserving refactoring (refactors/<id>/patch.diff) to a scratch copy of /repo and
run every check against the copy; any VIOLATION is a false alarm of the rules (the refactoring is argued behaviour-preserving
in its meta.json and passes the test suite).
usage: refcheck.py <dir containing <id>/patch.diff> [id-prefix ...]   -> one JSON line per probe"""
import json, os, shutil, subprocess, sys, tempfile
from concurrent.futures import ThreadPoolExecutor

HERE = os.path.dirname(os.path.dirname(os.path.abspath(__file__)))
sys.path.insert(0, HERE)
from vlib import seeds  # noqa: E402

PROPS = ["C%02d" % i for i in range(1, 21)]
root = sys.argv[1]
sel = sys.argv[2:]
for n in sorted(os.listdir(root)):
    d = os.path.join(root, n)
    if not os.path.isfile(os.path.join(d, "patch.diff")) or (sel and not any(n.startswith(s) for s in sel)):
        continue
    tmp, copy = seeds.scratch_copy("/repo")
    ev = tempfile.mkdtemp(prefix="verif-ev-")
    try:
        p = subprocess.run(["patch", "-p1", "--no-backup-if-mismatch", "-s", "-i", os.path.join(d, "patch.diff")], cwd=copy, capture_output=True, text=True)
        if p.returncode != 0:
            print(json.dumps({"probe": n, "applies": False, "err": (p.stdout + p.stderr)[-200:]}))
            continue
        env = dict(os.environ, VERIF_REPO=copy, VERIF_EVIDENCE_DIR=ev, CARGO_NET_OFFLINE="true")
        # first check extracts the facts, the others reuse them
        first = subprocess.run(["./check", PROPS[0]], cwd=HERE, env=env, capture_output=True, text=True)
        outs = {PROPS[0]: first}

        def run(pid):
            return pid, subprocess.run(["./check", pid], cwd=HERE, env=env, capture_output=True, text=True)

        with ThreadPoolExecutor(8) as ex:
            for pid, r in ex.map(run, PROPS[1:]):
                outs[pid] = r
        alarms = {}
        for pid, r in outs.items():
            keys = [l.strip()[len("rule-key: "):] for l in r.stdout.splitlines() if l.strip().startswith("rule-key:")]
            if r.returncode != 0 or keys:
                alarms[pid] = keys[:5] or ["exit %d: %s" % (r.returncode, (r.stdout + r.stderr)[-200:])]
        print(json.dumps({"probe": n, "applies": True, "alarms": alarms}))
        sys.stdout.flush()
    finally:
        shutil.rmtree(tmp, ignore_errors=True)
        shutil.rmtree(ev, ignore_errors=True)
