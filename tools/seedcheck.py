#!/usr/bin/python3
"""Confirm seeded breaking changes in their scratch worktree and try the checks against them.
usage: seedcheck.py confirm <worktree> <seed dir>...   (build, full test suite with patch, demo fails with / passes without)
       seedcheck.py detect <property> <seed dir>...    (apply to /repo, run ./check, revert)"""
import json
import os
import shutil
import subprocess
import sys

ENV = dict(os.environ, CARGO_NET_OFFLINE="true")


def sh(cmd, cwd, timeout=1800):
    try:
        p = subprocess.run(cmd, cwd=cwd, shell=True, capture_output=True, text=True, timeout=timeout, env=ENV)
        return p.returncode, (p.stdout + p.stderr)
    except subprocess.TimeoutExpired as e:
        return 124, "TIMEOUT"


def confirm(wt, seeds):
    env_t = "CARGO_TARGET_DIR=%s/target" % wt
    for sd in seeds:
        name = os.path.basename(sd.rstrip("/"))
        res = {"seed": name}
        sh("git checkout -- . && git clean -fdq tests", wt)
        rc, out = sh("git apply %s/patch.diff" % sd, wt)
        res["applies"] = rc == 0
        if rc != 0:
            res["error"] = out[-300:]
            print(json.dumps(res))
            continue
        rc, out = sh("%s cargo test --workspace --no-fail-fast --offline 2>&1 | grep -E '^test result|FAILED|error\\[' " % env_t, wt)
        res["suite_with_patch"] = [l for l in out.splitlines() if l.startswith("test result")]
        res["suite_ok"] = "FAILED" not in out and "error[" not in out and len(res["suite_with_patch"]) >= 4
        demo = os.path.join(sd, "demo.rs")
        shutil.copy(demo, os.path.join(wt, "tests", "zz_seed_demo.rs"))
        rc1, out1 = sh("%s timeout 600 cargo test --offline --test zz_seed_demo 2>&1 | tail -5" % env_t, wt)
        res["demo_with_patch_fails"] = ("test result: ok" not in out1)
        sh("git checkout -- src", wt)
        rc2, out2 = sh("%s timeout 600 cargo test --offline --test zz_seed_demo 2>&1 | tail -5" % env_t, wt)
        res["demo_without_patch_passes"] = ("test result: ok" in out2)
        os.remove(os.path.join(wt, "tests", "zz_seed_demo.rs"))
        sh("git checkout -- . ", wt)
        print(json.dumps(res))
        sys.stdout.flush()


def detect(prop, seeds):
    for sd in seeds:
        name = os.path.basename(sd.rstrip("/"))
        rc, out = sh("git -C /repo apply %s/patch.diff" % sd, "/verif")
        if rc != 0:
            print(json.dumps({"seed": name, "applies_to_repo": False, "err": out[-200:]}))
            continue
        rc, out = sh("./check %s" % prop, "/verif")
        sh("git -C /repo checkout -- .", "/verif")
        keys = [l.strip() for l in out.splitlines() if l.strip().startswith("rule-key:")]
        print(json.dumps({"seed": name, "check_rc": rc, "violations": keys[:6]}))
        sys.stdout.flush()


if __name__ == "__main__":
    if sys.argv[1] == "confirm":
        confirm(sys.argv[2], sys.argv[3:])
    else:
        detect(sys.argv[2], sys.argv[3:])
