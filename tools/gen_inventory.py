#!/usr/bin/python3
"""Regenerate tables/function_inventory.json from /repo's current tree (do this only after reviewing the rules against it)."""
import json, os, sys
HERE = os.path.dirname(os.path.dirname(os.path.abspath(__file__)))
sys.path.insert(0, HERE)
from vlib import extract, mir
if os.path.exists(os.path.join(HERE, "tables", "function_inventory.json")):
    os.rename(os.path.join(HERE, "tables", "function_inventory.json"), os.path.join(HERE, "tables", "function_inventory.json.bak"))
d, h, dt = extract.ensure_facts("/repo", "libhaystack")
prog = mir.load(d)
fn = sorted({mir.strip_generics(b.id) for b in prog.bodies.values() if b.rec["kind"] != "Closure"})
json.dump({"provenance": "every function (generics stripped) of /repo at the commit the rules were last reviewed against; a crate function not listed here is treated as an anonymous helper and inlined into its callers (vlib/inline.py)", "functions": fn}, open(os.path.join(HERE, "tables", "function_inventory.json"), "w"), indent=0)
os.remove(os.path.join(HERE, "tables", "function_inventory.json.bak"))
print(len(fn), "functions")
