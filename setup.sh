#!/bin/sh
# Build the analysis engines from files on disk only (offline).
set -e
cd "$(dirname "$0")"
export CARGO_NET_OFFLINE=true
(cd engine/mirfacts && cargo build --offline 2>&1 | tail -3)
(cd engine/rxtool && cargo build --offline 2>&1 | tail -3)
test -x engine/mirfacts/target/debug/mirfacts
test -x engine/rxtool/target/debug/rxtool
echo "setup ok"
