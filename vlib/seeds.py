"""Thorough tier: re-apply every recorded seeded change of a property to a scratch copy of /repo's *current* tree and
require the property's rules to report it. Scratch copies live under $TMPDIR and are removed after each use."""
import json
import os
import shutil
import subprocess
import tempfile

from . import extract, mir, report

VERIF = os.path.dirname(os.path.dirname(os.path.abspath(__file__)))


def seeds_of(prop):
    d = os.path.join(VERIF, "seeded")
    if not os.path.isdir(d):
        return []
    return sorted(os.path.join(d, x) for x in os.listdir(d) if x.startswith(prop + "-") and os.path.exists(os.path.join(d, x, "patch.diff")))


def scratch_copy(repo):
    tmp = tempfile.mkdtemp(prefix="verif-seed-")
    dst = os.path.join(tmp, "repo")
    os.makedirs(dst)
    for item in ("src", "benches", "unit-gen", "Cargo.toml", "Cargo.lock", "cbindgen.toml"):
        s = os.path.join(repo, item)
        if os.path.isdir(s):
            shutil.copytree(s, os.path.join(dst, item), ignore=shutil.ignore_patterns("target", ".git"))
        elif os.path.exists(s):
            shutil.copy(s, os.path.join(dst, item))
    return tmp, dst


def run_seeds(prop, mod, runner_ctx_factory):
    """-> list of {seed, status: detected|missed|skipped, keys}"""
    out = []
    known = set()
    kp = os.path.join(VERIF, "known_findings.json")
    if os.path.exists(kp):
        known = {e["key"] for e in json.load(open(kp)).get("findings", []) if e.get("status") == "known" and e.get("property") == prop}
    for sd in seeds_of(prop):
        name = os.path.basename(sd)
        tmp, root = scratch_copy(extract.REPO)
        try:
            p = subprocess.run(["patch", "-p1", "--no-backup-if-mismatch", "-s", "-i", os.path.join(sd, "patch.diff")], cwd=root, capture_output=True, text=True)
            if p.returncode != 0:
                out.append({"seed": name, "status": "skipped", "why": "patch no longer applies to the current tree: " + (p.stdout + p.stderr)[-160:]})
                continue
            try:
                d, h, dt = extract.ensure_facts(root=root, verbose=False)
            except SystemExit:
                out.append({"seed": name, "status": "skipped", "why": "patched tree does not build"})
                continue
            prog = mir.load(d)
            rep = report.Report(prop, "thorough")
            ctx = runner_ctx_factory(prog, d, rep, root)
            try:
                mod.check(ctx)
            except Exception as e:  # a crash of the rules on a mutant counts as 'reported' only if violations were already recorded
                rep.note("rules raised %r on the seeded tree" % e)
            keys = [k for k, _m, _w, _d in rep.violations if k not in known]
            out.append({"seed": name, "status": "detected" if keys else "missed", "keys": keys[:4]})
            shutil.rmtree(d, ignore_errors=True)
        finally:
            shutil.rmtree(tmp, ignore_errors=True)
    return out


def refactors_of(prop):
    d = os.path.join(VERIF, "refactors")
    if not os.path.isdir(d):
        return []
    return sorted(os.path.join(d, x) for x in os.listdir(d) if x.startswith(prop + "-r") and os.path.exists(os.path.join(d, x, "patch.diff")))


def run_refactors(prop, mod, runner_ctx_factory):
    """the other direction: behaviour-preserving restructurings of the code this property is anchored in (refactors/<id>/, written
    by sub-agents, suite-passing, with an argument why behaviour is unchanged) must NOT be reported.
    -> list of {probe, status: silent|alarm|skipped, keys}"""
    out = []
    known = set()
    kp = os.path.join(VERIF, "known_findings.json")
    if os.path.exists(kp):
        known = {e["key"] for e in json.load(open(kp)).get("findings", []) if e.get("status") == "known" and e.get("property") == prop}
    for sd in refactors_of(prop):
        name = os.path.basename(sd)
        tmp, root = scratch_copy(extract.REPO)
        try:
            p = subprocess.run(["patch", "-p1", "--no-backup-if-mismatch", "-s", "-i", os.path.join(sd, "patch.diff")], cwd=root, capture_output=True, text=True)
            if p.returncode != 0:
                out.append({"probe": name, "status": "skipped", "why": "patch no longer applies to the current tree"})
                continue
            try:
                d, h, dt = extract.ensure_facts(root=root, verbose=False)
            except SystemExit:
                out.append({"probe": name, "status": "skipped", "why": "patched tree does not build"})
                continue
            prog = mir.load(d)
            rep = report.Report(prop, "thorough")
            ctx = runner_ctx_factory(prog, d, rep, root)
            try:
                mod.check(ctx)
            except Exception as e:
                rep.bad("CHECKER", "CHECKER:crash", "-", "rules raised %r on the refactored tree" % e)
            keys = [k for k, _m, _w, _d in rep.violations if k not in known]
            out.append({"probe": name, "status": "alarm" if keys else "silent", "keys": keys[:4]})
            shutil.rmtree(d, ignore_errors=True)
        finally:
            shutil.rmtree(tmp, ignore_errors=True)
    return out
