"""In-memory model of the facts exported by engine/mirfacts: bodies, CFGs, call graph."""
import json
import os
import re
from collections import defaultdict

# ------------------------------------------------------------------ operands / places


def op_place(op):
    """place dict of a copy/move operand, else None"""
    if op is None:
        return None
    return op.get("cp") or op.get("mv")


def op_const(op):
    return op.get("c") if op else None


def place_is_local(pl, l=None):
    return pl is not None and not pl["p"] and (l is None or pl["l"] == l)


def proj_str(p):
    if p == "*":
        return "*"
    if "n" in p:
        return "." + p["n"]
    if "dc" in p:
        return " as " + p["dc"]
    if "idx" in p:
        return "[_%d]" % p["idx"]
    if "cidx" in p:
        return "[%d]" % p["cidx"]
    return "?"


def place_str(pl):
    s = "_%d" % pl["l"]
    for p in pl["p"]:
        s += proj_str(p)
    return s


def place_fields(pl):
    """names of Field projections in order"""
    return [p["n"] for p in pl["p"] if isinstance(p, dict) and "n" in p]


def const_int(c):
    if c is None:
        return None
    if "sint" in c:
        return int(c["sint"])
    if "int" in c:
        return int(c["int"])
    return None


def _match_angle(s, i):
    """index of the '>' matching the '<' at s[i]"""
    d = 0
    j = i
    n = len(s)
    while j < n:
        ch = s[j]
        if ch == "<":
            d += 1
        elif ch == ">" and s[j - 1] != "-":
            d -= 1
            if d == 0:
                return j
        j += 1
    return n - 1


def strip_generics(s):
    """drop generic argument lists ('Scanner<'a, R>', '::<T>') from a def path, keeping
    qualified-path brackets '<T as Trait>' and '<impl Trait for T>'"""
    out = []
    i = 0
    n = len(s)
    while i < n:
        ch = s[i]
        if ch == "<":
            j = _match_angle(s, i)
            inner = s[i + 1 : j]
            prev = s[i - 1] if i > 0 else ""
            if s[max(0, i - 2) : i] == "::":
                if inner.startswith("impl "):
                    out.append("<" + strip_generics(inner) + ">")
                else:
                    out.pop()
                    out.pop()
            elif prev.isalnum() or prev == "_":
                pass
            else:
                out.append("<" + strip_generics(inner) + ">")
            i = j + 1
            continue
        out.append(ch)
        i += 1
    return "".join(out)


# ------------------------------------------------------------------ bodies


class Body:
    def __init__(self, rec, mir=None, promoted_idx=None):
        self.rec = rec
        self.id = rec["id"]
        self.short = strip_generics(self.id)
        self.file = rec.get("file", "?")
        self.line = rec.get("line", 0)
        m = mir if mir is not None else rec["mir"]
        self.mir = m
        self.blocks = m["blocks"]
        self.locals = m["locals"]
        self.arg_count = m["arg_count"]
        self.names = {}
        for nm in m.get("names", []):
            if not nm["place"]["p"]:
                self.names[nm["place"]["l"]] = nm["name"]
        self.n = len(self.blocks)
        self._succ = None
        self._pred = None
        self._idom = None
        self._defs = None
        self.promoted = [Body(rec, pm, i) for i, pm in enumerate(rec.get("promoted", []))] if mir is None else []

    # -- cfg (normal edges only; unwind/cleanup excluded)
    def term(self, b):
        return self.blocks[b]["term"]

    def succ(self, b):
        if self._succ is None:
            self._build()
        return self._succ[b]

    def pred(self, b):
        if self._pred is None:
            self._build()
        return self._pred[b]

    def term_succs(self, t):
        k = t["k"]
        if k == "goto":
            return [t["t"]]
        if k == "switch":
            return [x[1] for x in t["targets"]] + [t["otherwise"]]
        if k in ("call", "drop", "assert"):
            return [t["t"]] if "t" in t else []
        return []

    def _build(self):
        self._succ = []
        self._pred = [[] for _ in range(self.n)]
        for i, b in enumerate(self.blocks):
            ss = []
            for s in self.term_succs(b["term"]):
                if s not in ss:
                    ss.append(s)
            self._succ.append(ss)
        for i, ss in enumerate(self._succ):
            for s in ss:
                self._pred[s].append(i)

    def reachable(self, start=0):
        seen = {start}
        st = [start]
        while st:
            b = st.pop()
            for s in self.succ(b):
                if s not in seen:
                    seen.add(s)
                    st.append(s)
        return seen

    def rpo(self):
        seen = set()
        order = []

        def dfs(b):
            stack = [(b, iter(self.succ(b)))]
            seen.add(b)
            while stack:
                node, it = stack[-1]
                adv = False
                for s in it:
                    if s not in seen:
                        seen.add(s)
                        stack.append((s, iter(self.succ(s))))
                        adv = True
                        break
                if not adv:
                    order.append(node)
                    stack.pop()

        dfs(0)
        order.reverse()
        return order

    def idom(self):
        """immediate dominators (Cooper-Harvey-Kennedy)"""
        if self._idom is not None:
            return self._idom
        rpo = self.rpo()
        idx = {b: i for i, b in enumerate(rpo)}
        idom = {0: 0}
        changed = True
        while changed:
            changed = False
            for b in rpo[1:]:
                new = None
                for p in self.pred(b):
                    if p in idom:
                        if new is None:
                            new = p
                        else:
                            a, c = p, new
                            while a != c:
                                while idx[a] > idx[c]:
                                    a = idom[a]
                                while idx[c] > idx[a]:
                                    c = idom[c]
                            new = a
                if new is not None and idom.get(b) != new:
                    idom[b] = new
                    changed = True
        self._idom = idom
        return idom

    def dominates(self, a, b):
        """block a dominates block b"""
        idom = self.idom()
        if b not in idom:
            return False
        while True:
            if a == b:
                return True
            if b == 0:
                return False
            b = idom[b]

    def sccs(self):
        """non-trivial strongly connected components of the reachable CFG (list of frozenset)"""
        index = {}
        low = {}
        onst = set()
        st = []
        out = []
        counter = [0]
        reach = self.reachable()

        def strong(v):
            work = [(v, iter(self.succ(v)))]
            index[v] = low[v] = counter[0]
            counter[0] += 1
            st.append(v)
            onst.add(v)
            while work:
                node, it = work[-1]
                adv = False
                for w in it:
                    if w not in index:
                        index[w] = low[w] = counter[0]
                        counter[0] += 1
                        st.append(w)
                        onst.add(w)
                        work.append((w, iter(self.succ(w))))
                        adv = True
                        break
                    elif w in onst:
                        low[node] = min(low[node], index[w])
                if not adv:
                    work.pop()
                    if work:
                        parent = work[-1][0]
                        low[parent] = min(low[parent], low[node])
                    if low[node] == index[node]:
                        comp = []
                        while True:
                            w = st.pop()
                            onst.discard(w)
                            comp.append(w)
                            if w == node:
                                break
                        if len(comp) > 1 or node in self.succ(node):
                            out.append(frozenset(comp))

        for v in sorted(reach):
            if v not in index:
                strong(v)
        return out

    # -- defs
    def defs(self):
        """local -> list of (block, stmt index or 'term', rvalue-or-term)"""
        if self._defs is not None:
            return self._defs
        d = defaultdict(list)
        for bi, b in enumerate(self.blocks):
            for si, s in enumerate(b["stmts"]):
                if s["k"] == "assign" and not s["lhs"]["p"]:
                    d[s["lhs"]["l"]].append((bi, si, s["rv"]))
            t = b["term"]
            if t["k"] == "call" and not t["dest"]["p"]:
                d[t["dest"]["l"]].append((bi, "term", t))
        self._defs = d
        return d

    def single_def(self, l):
        ds = self.defs().get(l, [])
        return ds[0] if len(ds) == 1 else None

    def root_place(self, pl, depth=12):
        """chase single-def temporaries through use/ref/deref-copy to the underlying place.
        Returns a place dict (local + combined projections); '&x' followed by '*' cancels."""
        cur = {"l": pl["l"], "p": list(pl["p"])}
        for _ in range(depth):
            l = cur["l"]
            if l <= self.arg_count and l != 0:
                return cur
            sd = self.single_def(l)
            if sd is None or sd[1] == "term":
                return cur
            rv = sd[2]
            if rv["k"] == "use":
                src = op_place(rv["op"])
                if src is None:
                    return cur
                cur = {"l": src["l"], "p": list(src["p"]) + cur["p"]}
            elif rv["k"] in ("ref", "rawptr"):
                src = rv["place"]
                rest = cur["p"]
                if rest and rest[0] == "*":
                    cur = {"l": src["l"], "p": list(src["p"]) + rest[1:]}
                else:
                    # the reference itself: keep an explicit marker
                    cur = {"l": src["l"], "p": list(src["p"]) + ["&"] + rest}
                    return cur
            elif rv["k"] == "cast" and rv["ck"].startswith(("PtrToPtr", "PointerCoercion")):
                src = op_place(rv["op"])
                if src is None:
                    return cur
                cur = {"l": src["l"], "p": list(src["p"]) + cur["p"]}
            else:
                return cur
        return cur

    def calls(self):
        for bi, b in enumerate(self.blocks):
            t = b["term"]
            if t["k"] in ("call", "tailcall"):
                yield bi, t

    def local_ty(self, l):
        return self.locals[l]["ty"]

    def where(self, b=None, line=None):
        if line is None and b is not None:
            line = self.term(b).get("line", self.line)
        return "%s:%s" % (self.file, line if line is not None else self.line)


def callee_of(t):
    """(generic path, resolved path or None, info dict) of a call terminator; None for indirect calls"""
    c = op_const(t["func"])
    if c is None or "fn" not in c:
        return None
    return c


def callee_name(t):
    c = callee_of(t)
    if c is None:
        return None
    return c.get("res") or c["fn"]


# ------------------------------------------------------------------ program


class Program:
    def __init__(self, path, inline=True):
        self.bodies = {}
        self.adts = {}
        self.impls = []
        self.traits = {}
        self.meta = {}
        with open(path) as fh:
            for line in fh:
                r = json.loads(line)
                k = r["rec"]
                if k == "body":
                    self.bodies[r["id"]] = Body(r)
                elif k == "adt":
                    self.adts[r["id"]] = r
                elif k == "impl":
                    self.impls.append(r)
                elif k == "trait":
                    self.traits[r["id"]] = r
                elif k == "meta":
                    self.meta = r
        self.closures_of = defaultdict(list)
        for b in self.bodies.values():
            if b.rec["kind"] == "Closure":
                self.closures_of[b.rec["root"]].append(b.id)
        # trait method -> local impl method ids  (class hierarchy analysis)
        self.trait_impls = defaultdict(list)
        for im in self.impls:
            tr = im.get("trait")
            if not tr:
                continue
            for it in im["items"]:
                self.trait_impls[(tr, it["name"])].append(it["id"])
        self._cg = None
        self._rcg = None
        # helpers the rules do not know by name are spliced into their callers (vlib/inline.py)
        from . import inline as _inline

        self.inlined = _inline.apply(self, Body, strip_generics) if inline else {}
        if inline:
            try:
                from rules import guards as _guards

                _guards.PROGRAM = self
            except Exception:
                pass

    # -- lookup helpers
    def find(self, pattern, exactly_one=False):
        """bodies whose id (generics stripped) matches the regex"""
        rx = re.compile(pattern)
        out = [b for b in self.bodies.values() if rx.search(b.short)]
        if exactly_one and len(out) != 1:
            raise KeyError("%s matched %d bodies" % (pattern, len(out)))
        return out

    def get(self, short):
        out = [b for b in self.bodies.values() if b.short == short]
        return out[0] if len(out) == 1 else None

    def methods_of_trait(self, trait_path, name=None):
        """bodies implementing methods of a trait (impl blocks in this crate)"""
        out = []
        for b in self.bodies.values():
            im = b.rec.get("impl")
            if im and im.get("trait") == trait_path and b.rec["kind"] != "Closure":
                if name is None or b.rec.get("name") == name:
                    out.append(b)
        return out

    # -- call graph
    def call_targets(self, body, t):
        """set of local body ids a call terminator may reach, plus the external callee name (or None)"""
        c = callee_of(t)
        if c is None:
            return set(), None
        res = c.get("res")
        if res and c.get("res_kind") not in ("virtual",):
            if res in self.bodies:
                return {res}, None
            if c.get("res_local"):
                return set(), res  # local item without MIR (e.g. tuple-struct ctor)
            return set(), res
        # unresolved: trait method on a generic / dyn receiver -> all local impls (CHA)
        fn = c["fn"]
        m = re.match(r"^(.*)::([A-Za-z_0-9]+)$", fn)
        outs = set()
        if m:
            for iid in self.trait_impls.get((m.group(1), m.group(2)), []):
                if iid in self.bodies:
                    outs.add(iid)
            if fn in self.bodies:  # default method body
                outs.add(fn)
        return outs, (None if outs else fn)

    def site_targets(self, body, t):
        """local bodies a call terminator may reach: (direct targets, callback targets, external name)"""
        tg, ext = self.call_targets(body, t)
        cb = set()
        c = callee_of(t)
        for a in t["args"]:
            ac = op_const(a)
            if ac and "fn" in ac:
                r = ac.get("res") or ac["fn"]
                if r in self.bodies:
                    cb.add(r)
                else:
                    m = re.match(r"^(.*)::([A-Za-z_0-9]+)$", ac["fn"])
                    if m:
                        for iid in self.trait_impls.get((m.group(1), m.group(2)), []):
                            cb.add(iid)
        if c is not None and not (c.get("res") in self.bodies):
            cb |= self._callback_edges(c)
        return tg, cb, ext

    def call_sites(self, bid):
        """[(block, terminator, direct targets, callback targets)] of one body"""
        self.callgraph()
        return self._sites.get(bid, [])

    def callgraph(self):
        if self._cg is not None:
            return self._cg
        cg = {}
        self._sites = {}
        self.ext_calls = defaultdict(set)
        for bid, body in self.bodies.items():
            outs = set()
            sites = []
            for bi, t in body.calls():
                tg, cb, ext = self.site_targets(body, t)
                outs |= tg
                outs |= cb
                sites.append((bi, t, tg, cb))
                if ext:
                    self.ext_calls[bid].add(ext)
            self._sites[bid] = sites
            # closures created here run (at the latest) under this function's callers
            for cid in self.closures_of.get(bid, []):
                outs.add(cid)
            # fn items referenced as values anywhere (promoted constants, assignments)
            for pb in [body] + body.promoted:
                for blk in pb.blocks:
                    for s in blk["stmts"]:
                        if s["k"] != "assign":
                            continue
                        for cc in _consts_in_rvalue(s["rv"]):
                            if "fn" in cc:
                                r = cc.get("res") or cc["fn"]
                                if r in self.bodies:
                                    outs.add(r)
            cg[bid] = outs
        self._cg = cg
        return cg

    CALLBACK_TRAITS = {
        "std::fmt::Display": ["fmt"],
        "std::fmt::Debug": ["fmt"],
        "std::hash::Hash": ["hash"],
        "std::cmp::PartialEq": ["eq", "ne"],
        "std::cmp::PartialOrd": ["partial_cmp", "lt", "le", "gt", "ge"],
        "std::cmp::Ord": ["cmp"],
        "std::clone::Clone": ["clone"],
        "std::ops::Deref": ["deref"],
        "std::ops::DerefMut": ["deref_mut"],
        "std::ops::Drop": ["drop"],
        "std::default::Default": ["default"],
        "std::iter::Iterator": ["next"],
        "std::iter::FromIterator": ["from_iter"],
        "std::iter::IntoIterator": ["into_iter"],
        "serde::Serialize": ["serialize"],
        "serde::Deserialize": ["deserialize"],
        "serde::de::Visitor": None,
        "regex::Replacer": ["replace_append"],
        "std::convert::From": ["from"],
        "std::convert::Into": ["into"],
        "std::string::ToString": ["to_string"],
        "std::io::Read": ["read"],
        "std::io::Write": ["write", "flush"],
    }

    # which callback traits an external generic callee may invoke on its type arguments, by callee family
    # (first matching pattern wins; an unknown callee gets every non-serde/regex trait)
    FMT = {"std::fmt::Display", "std::fmt::Debug"}
    CMP = {"std::cmp::PartialEq", "std::cmp::PartialOrd", "std::cmp::Ord", "std::hash::Hash"}
    CONV = {"std::convert::From", "std::convert::Into"}
    ITER = {"std::iter::Iterator", "std::iter::FromIterator", "std::iter::IntoIterator"}
    FAMILIES = [
        (r"(^std::fmt::|^core::fmt::|::to_string$|write_fmt$|as std::fmt::(Display|Debug)>::fmt$|^std::fmt::format$)", FMT | {"std::string::ToString"}),
        (r"(::clone$|::cloned$|::to_owned$|::to_vec$|::into_owned$|::clone_from$)", {"std::clone::Clone"}),
        (r"(::hash$|::hash_slice$)", {"std::hash::Hash"}),
        (r"(::eq$|::ne$|::contains$|::starts_with$|::ends_with$|::dedup$|::position$)", {"std::cmp::PartialEq"}),
        (r"(::cmp$|::partial_cmp$|::lt$|::le$|::gt$|::ge$|::max$|::min$|::sort|::binary_search|::is_sorted)", {"std::cmp::PartialEq", "std::cmp::PartialOrd", "std::cmp::Ord"}),
        (r"^(std::collections::(HashSet|HashMap|hash_set|hash_map)|dashmap::)", {"std::hash::Hash", "std::cmp::PartialEq", "std::clone::Clone"}),
        (r"^(std::collections::(BTreeMap|BTreeSet|btree_map|btree_set)::(?!iter|keys|values|len|is_empty|new))", {"std::cmp::Ord", "std::cmp::PartialOrd", "std::cmp::PartialEq", "std::default::Default"}),
        (r"as std::ops::Deref(Mut)?>::deref(_mut)?$", set()),
        (r"as std::ops::Index(Mut)?>::index(_mut)?$", set()),
        (r"(::len$|::is_empty$|::iter$|::iter_mut$|::keys$|::values$|::push$|::pop$|::as_ref$|::as_mut$|::as_str$|::as_bytes$|::as_slice$|::get$|::get_mut$|::first$|::last$|::new$|::with_capacity$|::is_some$|::is_none$|::is_ok$|::is_err$|::unwrap$|::expect$|::unwrap_or$|::ok$|::err$|::take$|::remove$|::insert$|::swap_remove$|::truncate$|::clear$|::reserve$|::into_raw$|::from_raw$|::is_null$|::borrow$|::borrow_mut$|::new_uninit$|box_assume_init_into_vec_unsafe$|::must_use$|::extend_from_slice$)", set()),
        (r"(as std::ops::Try>::branch$|as std::ops::FromResidual>::from_residual$|::into$|::from$|::try_into$|::try_from$|::map_err$)", CONV | {"std::convert::TryFrom"}),
        (r"(::default$|::unwrap_or_default$|::or_default$)", {"std::default::Default"}),
        (r"(::collect$|::extend$|::from_iter$|::sum$|::product$|::unzip$|::partition$)", ITER | {"std::iter::Extend", "std::default::Default", "std::cmp::Ord", "std::cmp::PartialEq", "std::hash::Hash"}),
        (r"(^std::iter::|^core::iter::|as std::iter::Iterator>::|as std::iter::IntoIterator>::into_iter$|^<I as std::iter::IntoIterator>)", ITER),
        (r"^(std::any::|std::mem::|core::mem::|std::ptr::|core::ptr::|std::boxed::|std::ffi::|std::hint::|core::hint::|std::alloc::|std::rc::|std::sync::Arc)", set()),
        (r"^std::io::", {"std::io::Read", "std::io::Write"}),
    ]

    def family_traits(self, callee):
        for rx, traits in self.FAMILIES:
            if re.search(rx, callee):
                return traits
        return None

    SERDE_SER = ("serde::Serialize",)
    SERDE_DE = ("serde::Deserialize", "serde::de::Visitor")

    def _callback_edges(self, c):
        """an external generic function instantiated with local types may call those types'
        impls of the callback traits (serde and regex callbacks only from serde / regex callees)"""
        outs = set()
        callee = strip_generics(c.get("res") or c["fn"])
        is_ser = callee.startswith(("serde::ser", "serde::Serializer", "serde_json::to_", "serde_json::ser", "serde::Serialize"))
        is_de = callee.startswith(("serde::de", "serde::Deserializer", "serde_json::from_", "serde_json::de", "serde::Deserialize"))
        is_rx = callee.startswith("regex::")
        fam = None if (is_ser or is_de or is_rx) else self.family_traits(callee)
        if fam is not None and not fam:
            return outs
        targs = c.get("targs", [])
        if not targs:
            return outs
        txt = re.sub(r"\{[^{}]*(\{[^{}]*\}[^{}]*)*\}", "", " ".join(targs))  # drop fn-item / closure paths
        if "haystack::" not in txt and "c_api::" not in txt and "poscontrol" not in txt:
            return outs
        for im in self.impls:
            tr = im.get("trait")
            if tr not in self.CALLBACK_TRAITS:
                continue
            if tr in self.SERDE_SER and not is_ser:
                continue
            if tr in self.SERDE_DE and not is_de:
                continue
            if tr == "regex::Replacer" and not is_rx:
                continue
            if fam is not None and tr not in fam:
                continue
            adt = im.get("self_adt")
            if not adt or not re.search(re.escape(adt) + r"(?![A-Za-z0-9_:])", txt):
                continue
            names = self.CALLBACK_TRAITS[tr]
            if tr in ("std::convert::From", "std::convert::Into", "std::convert::TryFrom"):
                # only the conversion whose source type takes part in this instantiation
                m = re.search(r" as std::convert::(?:Try)?(?:From|Into)<(.*)>>$", im.get("trait_ref", ""))
                if m:
                    src = re.sub(r"&'[a-z_]+ ", "&", m.group(1))
                    if src not in re.sub(r"&'[a-z_]+ ", "&", txt):
                        continue
            for it in im["items"]:
                if (names is None or it["name"] in names) and it["id"] in self.bodies:
                    outs.add(it["id"])
        return outs

    def reachable_from(self, roots):
        cg = self.callgraph()
        seen = set()
        parent = {}
        st = []
        for r in roots:
            if r in cg and r not in seen:
                seen.add(r)
                parent[r] = None
                st.append(r)
        while st:
            f = st.pop()
            for g in sorted(cg.get(f, ())):
                if g not in seen:
                    seen.add(g)
                    parent[g] = f
                    st.append(g)
        return seen, parent

    def path_to(self, parent, f):
        out = []
        while f is not None:
            out.append(f)
            f = parent.get(f)
        out.reverse()
        return out

    def call_sccs(self, within):
        """SCCs (with a cycle) of the call graph restricted to `within`"""
        cg = self.callgraph()
        index, low, onst, st, out = {}, {}, set(), [], []
        c = [0]
        for v0 in sorted(within):
            if v0 in index:
                continue
            work = [(v0, iter(sorted(x for x in cg.get(v0, ()) if x in within)))]
            index[v0] = low[v0] = c[0]
            c[0] += 1
            st.append(v0)
            onst.add(v0)
            while work:
                node, it = work[-1]
                adv = False
                for w in it:
                    if w not in index:
                        index[w] = low[w] = c[0]
                        c[0] += 1
                        st.append(w)
                        onst.add(w)
                        work.append((w, iter(sorted(x for x in cg.get(w, ()) if x in within))))
                        adv = True
                        break
                    elif w in onst:
                        low[node] = min(low[node], index[w])
                if not adv:
                    work.pop()
                    if work:
                        low[work[-1][0]] = min(low[work[-1][0]], low[node])
                    if low[node] == index[node]:
                        comp = []
                        while True:
                            w = st.pop()
                            onst.discard(w)
                            comp.append(w)
                            if w == node:
                                break
                        if len(comp) > 1 or node in cg.get(node, ()):
                            out.append(sorted(comp))
        return out


def _consts_in_operand(op):
    c = op_const(op)
    if c is not None:
        yield c


def _consts_in_rvalue(rv):
    k = rv["k"]
    if k in ("use", "cast", "repeat"):
        yield from _consts_in_operand(rv["op"])
    elif k == "binop":
        yield from _consts_in_operand(rv["a"])
        yield from _consts_in_operand(rv["b"])
    elif k == "unop":
        yield from _consts_in_operand(rv["a"])
    elif k == "agg":
        for o in rv["ops"]:
            yield from _consts_in_operand(o)


def load(facts_dir, inline=True):
    """inline=False gives the program exactly as compiled (helpers not spliced): for rules that evaluate a helper as a function"""
    return Program(os.path.join(facts_dir, "mir.jsonl"), inline=inline)
