"""Violations, known findings, evidence files."""
import json
import os
import time

VERIF = os.path.dirname(os.path.dirname(os.path.abspath(__file__)))
# checker self-tests (tools/refcheck.py) run the same rules against scratch copies; their evidence must not overwrite /repo's
EVID = os.environ.get("VERIF_EVIDENCE_DIR") or os.path.join(VERIF, "evidence")
KNOWN = os.path.join(VERIF, "known_findings.json")


class Obligation:
    __slots__ = ("rule", "key", "where", "how", "ok", "detail")

    def __init__(self, rule, key, where, ok, how="", detail=None):
        self.rule = rule
        self.key = key
        self.where = where
        self.ok = ok
        self.how = how
        self.detail = detail


class Report:
    """collects obligations of one property check"""

    def __init__(self, prop, tier="quick"):
        self.prop = prop
        self.tier = tier
        self.t0 = time.time()
        self.obligations = []
        self.violations = []  # (key, message, where, detail)
        self.counts = {}
        self.notes = []
        self.assumptions = []
        self.samples = []
        self.analysed = {}
        self.floors = []

    # -- recording
    def ok(self, rule, key, where, how, detail=None):
        self.obligations.append(Obligation(rule, key, where, True, how, detail))

    def bad(self, rule, key, where, msg, detail=None):
        """key must be stable: rule:function:site descriptor, no line numbers"""
        self.obligations.append(Obligation(rule, key, where, False, msg, detail))
        self.violations.append((rule + ":" + key if not key.startswith(rule + ":") else key, msg, where, detail))

    def floor(self, what, count, minimum):
        """`minimum` is the instance count confirmed by hand on the reviewed tree. A rule that suddenly matches far fewer sites
        passes vacuously, so a collapse fails the check; merging duplicated code or spelling two writes as one legitimately lowers
        a count a little, so the alarm threshold is half the confirmed count (at least one instance)"""
        threshold = max(1, (minimum + 1) // 2)
        self.floors.append({"what": what, "count": count, "floor": minimum, "alarm_below": threshold})
        if count < threshold:
            self.bad(
                "floor",
                "floor:" + what,
                "-",
                "instance count of '%s' fell to %d, less than half of the %d confirmed by hand: the rule would pass (nearly) vacuously"
                % (what, count, minimum),
            )

    def gap(self, anchor, where, msg):
        self.bad("extraction-gap", "extraction-gap:" + anchor, where, "anchor not understood: " + msg)

    def note(self, s):
        self.notes.append(s)

    def assume(self, s):
        if s not in self.assumptions:
            self.assumptions.append(s)

    # -- finishing
    def finish(self, explanation, extra_cov=None, src_hash="", extract_s=0.0):
        known = {}
        if os.path.exists(KNOWN):
            for e in json.load(open(KNOWN)).get("findings", []):
                if e.get("status") == "known" and e.get("property") == self.prop:
                    known[e["key"]] = e
        new = []
        lines = []
        seen_known = set()
        for key, msg, where, detail in self.violations:
            if key in known:
                if key not in seen_known:
                    seen_known.add(key)
                    lines.append("KNOWN-FINDING: property=%s %s [%s] %s" % (self.prop, known[key].get("what", msg), key, where))
            else:
                new.append((key, msg, where, detail))
        vdir = os.path.join(EVID, "violations", self.prop)
        if os.path.isdir(vdir):
            for f in os.listdir(vdir):
                os.remove(os.path.join(vdir, f))
        for i, (key, msg, where, detail) in enumerate(new):
            os.makedirs(vdir, exist_ok=True)
            path = os.path.join(vdir, "%d.json" % i)
            with open(path, "w") as fh:
                json.dump({"property": self.prop, "key": key, "message": msg, "where": where, "detail": detail}, fh, indent=1)
            lines.append("VIOLATION property=%s replay=%s" % (self.prop, os.path.relpath(path, VERIF)))
            lines.append("  rule-key: %s" % key)
            lines.append("  at: %s" % where)
            lines.append("  %s" % msg)
        n_ob = len(self.obligations)
        n_ok = sum(1 for o in self.obligations if o.ok)
        by_rule = {}
        for o in self.obligations:
            r = by_rule.setdefault(o.rule, {"obligations": 0, "discharged": 0, "how": {}})
            r["obligations"] += 1
            if o.ok:
                r["discharged"] += 1
                hk = o.how.split(":")[0] if o.how else "auto"
                r["how"][hk] = r["how"].get(hk, 0) + 1
        samples = list(self.samples)
        for o in self.obligations[:: max(1, n_ob // 12)][:12]:
            samples.append({"rule": o.rule, "key": o.key, "at": o.where, "ok": o.ok, "how": o.how})
        distinct = len({(o.rule, o.key) for o in self.obligations})
        cov = {
            "explanation": explanation,
            "obligations": n_ob,
            "discharged": n_ok,
            "evaluations": max(1, n_ob),
            "distinct_nontrivial": max(2, distinct),
            "rule": "one obligation per rule instance (site, path, table row) found in /repo's current source; "
            "distinct = distinct (rule, stable site key) pairs",
            "samples": samples or [{"note": "no obligations"}],
            "by_rule": by_rule,
            "floors": self.floors,
            "analysed": self.analysed,
            "known_findings_matched": sorted(seen_known),
            "source_hash": src_hash,
            "extract_s": round(extract_s, 2),
            "notes": self.notes,
            "exhaustive": True,
            "checker_cmd": "./check %s --tier %s" % (self.prop, self.tier),
            "trusted_base": ["rustc nightly MIR (engine/mirfacts)", "tables/*.json reviewed instance tables", "spec/*.json"],
        }
        if extra_cov:
            cov.update(extra_cov)
        ev = {
            "property_id": self.prop,
            "tier": self.tier,
            "seed": int(os.environ.get("VERIF_SEED", "0") or 0),
            "level": "other",
            "coverage": cov,
            "assumptions": self.assumptions,
            "wall_s": round(time.time() - self.t0, 2),
            "violations": len(new),
        }
        os.makedirs(EVID, exist_ok=True)
        with open(os.path.join(EVID, self.prop + ".json"), "w") as fh:
            json.dump(ev, fh, indent=1)
        for ln in lines:
            print(ln)
        print(
            "%s: %d obligations, %d discharged, %d known findings, %d new violations (%.1fs)"
            % (self.prop, n_ob, n_ok, len(seen_known), len(new), time.time() - self.t0)
        )
        return 1 if new else 0
