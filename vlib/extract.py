"""Run the extraction engines over /repo's current working tree (cached per source hash)."""
import fcntl
import hashlib
import json
import os
import shutil
import subprocess
import sys
import time

VERIF = os.path.dirname(os.path.dirname(os.path.abspath(__file__)))
REPO = os.environ.get("VERIF_REPO", "/repo")
CACHE = os.path.join(VERIF, ".cache")
DRIVER = os.path.join(VERIF, "engine", "mirfacts", "target", "debug", "mirfacts")
SYNTAB = os.path.join(VERIF, "engine", "syntab", "target", "debug", "syntab")
BODY_FLOOR = 2500


def _files(root):
    out = []
    for base in ("src",):
        for d, _dirs, fs in os.walk(os.path.join(root, base)):
            for f in fs:
                out.append(os.path.join(d, f))
    for f in ("Cargo.toml", "Cargo.lock"):
        p = os.path.join(root, f)
        if os.path.exists(p):
            out.append(p)
    return sorted(out)


def source_hash(root=REPO, extra=()):
    h = hashlib.sha256()
    for p in _files(root):
        h.update(os.path.relpath(p, root).encode())
        h.update(b"\0")
        with open(p, "rb") as fh:
            h.update(fh.read())
        h.update(b"\0")
    # the engines are part of the key: a rebuilt driver invalidates old facts
    for p in (DRIVER, SYNTAB) + tuple(extra):
        if os.path.exists(p):
            with open(p, "rb") as fh:
                h.update(hashlib.sha256(fh.read()).digest())
    return h.hexdigest()[:20]


def _sysroot():
    return subprocess.check_output(["rustc", "+nightly", "--print", "sysroot"], text=True).strip()


def _env(out, crate, target):
    env = dict(os.environ)
    env["LD_LIBRARY_PATH"] = _sysroot() + "/lib:" + env.get("LD_LIBRARY_PATH", "")
    env["RUSTFLAGS"] = "-Zmir-opt-level=0 -Awarnings"
    env["RUSTC_WORKSPACE_WRAPPER"] = DRIVER
    env["MIRFACTS_OUT"] = out
    env["MIRFACTS_CRATE"] = crate
    env["CARGO_TARGET_DIR"] = target
    env["CARGO_NET_OFFLINE"] = "true"
    env.pop("RUSTC_WRAPPER", None)
    return env


def run_driver(root, crate, out, target, log):
    """cargo +nightly check with the driver as workspace wrapper; the fingerprint of the
    analysed crate is removed first so cargo cannot skip the wrapper."""
    fp = os.path.join(target, "debug", ".fingerprint")
    if os.path.isdir(fp):
        for d in os.listdir(fp):
            if d.startswith(crate + "-") or d.startswith(crate.replace("_", "-") + "-"):
                shutil.rmtree(os.path.join(fp, d), ignore_errors=True)
    if os.path.exists(out):
        os.remove(out)
    cmd = ["cargo", "+nightly", "check", "--offline", "--lib"]
    with open(log, "w") as lf:
        rc = subprocess.call(cmd, cwd=root, env=_env(out, crate, target), stdout=lf, stderr=subprocess.STDOUT)
    return rc


def ensure_facts(root=REPO, crate="libhaystack", verbose=True):
    """Returns (dir with mir.jsonl [+ tables.json], source hash, seconds spent extracting)."""
    os.makedirs(CACHE, exist_ok=True)
    if not os.path.exists(DRIVER):
        print("ENGINE-MISSING: %s (run MANIFEST.setup_cmd)" % DRIVER)
        sys.exit(2)
    h = source_hash(root)
    d = os.path.join(CACHE, crate + "-" + h)
    done = os.path.join(d, "DONE")
    if os.path.exists(done):
        return d, h, 0.0
    lock = open(os.path.join(CACHE, "lock"), "w")
    fcntl.flock(lock, fcntl.LOCK_EX)
    try:
        if os.path.exists(done):
            return d, h, 0.0
        t0 = time.time()
        os.makedirs(d, exist_ok=True)
        out = os.path.join(d, "mir.jsonl")
        target = os.path.join(CACHE, "target-" + crate)
        log = os.path.join(d, "cargo.log")
        rc = run_driver(root, crate, out, target, log)
        if rc != 0 or not os.path.exists(out):
            # retry once from a clean target dir
            shutil.rmtree(target, ignore_errors=True)
            rc = run_driver(root, crate, out, target, log)
        if rc != 0 or not os.path.exists(out):
            tail = open(log).read()[-3000:]
            print("EXTRACTION-FAILED: cargo check rc=%s; log tail:\n%s" % (rc, tail))
            sys.exit(2)
        if os.path.exists(SYNTAB):
            tab = os.path.join(d, "tables.json")
            with open(os.path.join(d, "syntab.log"), "w") as lf:
                rc = subprocess.call([SYNTAB, os.path.join(root, "src"), tab], stdout=lf, stderr=subprocess.STDOUT)
            if rc != 0 or not os.path.exists(tab):
                print("EXTRACTION-FAILED: syntab rc=%s: %s" % (rc, open(os.path.join(d, "syntab.log")).read()[-2000:]))
                sys.exit(2)
        # the zone table chrono-tz's build script generated for this very build: kept with the facts, so that later readers do not
        # depend on the shared target directory (another extraction may be rebuilding it)
        import glob as _glob

        tzs = sorted(_glob.glob(os.path.join(target, "debug", "build", "chrono-tz-*", "out", "timezones.rs")), key=os.path.getmtime)
        if tzs:
            shutil.copyfile(tzs[-1], os.path.join(d, "timezones.rs"))
        dt = time.time() - t0
        with open(done, "w") as fh:
            json.dump({"hash": h, "extract_s": dt}, fh)
        # keep the cache small: drop fact dirs other than the newest three per crate
        ds = sorted(
            (x for x in os.listdir(CACHE) if x.startswith(crate + "-")),
            key=lambda x: os.path.getmtime(os.path.join(CACHE, x)),
        )
        for old in ds[:-8]:
            # several checkers may be running on different trees at once (self-tests): never remove facts that are still fresh
            if time.time() - os.path.getmtime(os.path.join(CACHE, old)) > 1800:
                shutil.rmtree(os.path.join(CACHE, old), ignore_errors=True)
        if verbose:
            print("extracted facts for %s (%s) in %.1fs" % (crate, h, dt), file=sys.stderr)
        return d, h, dt
    finally:
        fcntl.flock(lock, fcntl.LOCK_UN)
        lock.close()
