"""Inlining of *new* private helpers at the level of the exported MIR.

Extracting a few lines into a private helper is the most common behaviour-preserving edit, and it moves the construct a rule
looks at into another body. Every function the rules know by name is listed in tables/function_inventory.json (the functions
of the tree the rules were written against). A crate function that is NOT in that inventory is, from the rules' point of view,
an anonymous piece of its callers: its body is spliced into each caller (locals and blocks renumbered, parameters bound by
assignments, `return` turned into an assignment of the call's destination and a jump to the continuation). The helper's own
body stays in the program as well (it is still analysed on its own by the per-body rules). Functions in the inventory are never
inlined, so on the tree the inventory was taken from nothing changes."""
import copy
import json
import os

VERIF = os.path.dirname(os.path.dirname(os.path.abspath(__file__)))
INVENTORY = os.path.join(VERIF, "tables", "function_inventory.json")
MAX_BLOCKS = 400
MAX_DEPTH = 3


def load_inventory():
    if not os.path.exists(INVENTORY):
        return None
    return set(json.load(open(INVENTORY))["functions"])


def _shift(x, dl, db, dp, owner):
    """deep copy of a MIR JSON fragment with locals shifted by dl, block references by db, promoted indices by dp"""
    if isinstance(x, list):
        return [_shift(v, dl, db, dp, owner) for v in x]
    if not isinstance(x, dict):
        return x
    out = {}
    is_place = "l" in x and "p" in x and isinstance(x.get("l"), int) and isinstance(x.get("p"), list)
    for k, v in x.items():
        if k == "l" and isinstance(v, int) and (is_place or x.get("k") in ("live", "dead")):
            out[k] = v + dl
        elif k in ("t", "unwind", "otherwise") and isinstance(v, int) and "k" in x:
            out[k] = v + db
        elif k == "targets" and isinstance(v, list) and x.get("k") == "switch":
            out[k] = [[a, b + db] for a, b in v]
        elif k == "promoted" and isinstance(v, int):
            out[k] = v + dp
        elif k == "promoted_of":
            out[k] = owner
        elif k == "p" and is_place:
            # index projections carry a local
            out[k] = [({**pe, "idx": pe["idx"] + dl} if isinstance(pe, dict) and isinstance(pe.get("idx"), int) else _shift(pe, dl, db, dp, owner)) if isinstance(pe, dict) else pe for pe in v]
        else:
            out[k] = _shift(v, dl, db, dp, owner)
    return out


def inline_rec(caller, callee_of_block):
    """new body record for `caller` with the calls in callee_of_block {block index: callee record} spliced in"""
    rec = copy.deepcopy(caller)
    m = rec["mir"]
    rec.setdefault("promoted", [])
    rec["inlined"] = list(rec.get("inlined", []))
    for bi, callee in sorted(callee_of_block.items()):
        cm = callee["mir"]
        dl = len(m["locals"])
        db = len(m["blocks"])
        dp = len(rec["promoted"])
        call = m["blocks"][bi]["term"]
        if call["k"] != "call" or len(call["args"]) != cm["arg_count"]:
            continue
        m["locals"].extend(copy.deepcopy(cm["locals"]))
        for nm in cm.get("names", []):
            m.setdefault("names", []).append({"name": nm["name"], "place": {"l": nm["place"]["l"] + dl, "p": copy.deepcopy(nm["place"]["p"])}})
        rec["promoted"].extend(copy.deepcopy(callee.get("promoted", [])))
        cont = call.get("t")
        dest = call["dest"]
        line = call.get("line", 0)
        new_blocks = _shift(cm["blocks"], dl, db, dp, rec["id"])
        for nb in new_blocks:
            t = nb["term"]
            if t["k"] == "return":
                nb["stmts"].append({"k": "assign", "lhs": copy.deepcopy(dest), "rv": {"k": "use", "op": {"mv": {"l": dl, "p": []}}}, "line": t.get("line", line), "exp": False})
                nb["term"] = {"k": "goto", "t": cont, "line": t.get("line", line), "exp": False} if cont is not None else {"k": "unreachable", "line": line, "exp": False}
            elif t["k"] == "resume" and call.get("unwind") is not None:
                nb["term"] = {"k": "goto", "t": call["unwind"], "line": line, "exp": False}
        m["blocks"].extend(new_blocks)
        blk = m["blocks"][bi]
        for i, a in enumerate(call["args"]):
            blk["stmts"].append({"k": "assign", "lhs": {"l": dl + 1 + i, "p": []}, "rv": {"k": "use", "op": copy.deepcopy(a)}, "line": line, "exp": False})
        blk["term"] = {"k": "goto", "t": db, "line": line, "exp": False, "inlined_call": callee["id"]}
        rec["inlined"].append(callee["id"])
    return rec


def apply(program, body_cls, strip):
    """replace, in program.bodies, every body that calls a crate function missing from the inventory by a version with that
    callee spliced in (repeated up to MAX_DEPTH); returns {caller id: [inlined callee ids]}"""
    inv = load_inventory()
    if inv is None:
        return {}
    unknown = {}
    for b in program.bodies.values():
        if b.rec["kind"] == "Closure" or "::test::" in b.id or "::tests::" in b.id:
            continue
        if strip(b.id) not in inv and b.n <= MAX_BLOCKS and not (b.rec.get("impl") or {}).get("trait"):
            unknown[b.id] = b
    if not unknown:
        return {}
    done = {}
    for _round in range(MAX_DEPTH):
        changed = False
        for cid in list(program.bodies):
            caller = program.bodies[cid]
            sites = {}
            for bi, t in caller.calls():
                f = t.get("func", {}).get("c") if isinstance(t.get("func"), dict) else None
                if not f:
                    continue
                target = f.get("res_full") or f.get("res") or f.get("fn_full") or f.get("fn")
                cal = None
                for uid, ub in unknown.items():
                    if uid == cid:
                        continue
                    if target == uid or strip(target or "") == strip(uid):
                        cal = ub
                        break
                if cal is not None and cal.id not in caller.rec.get("inlined_from", []):
                    sites[bi] = program.bodies[cal.id].rec
            if sites:
                rec = inline_rec(caller.rec, sites)
                nb = body_cls(rec)
                program.bodies[cid] = nb
                done.setdefault(cid, []).extend(r["id"] for r in sites.values())
                changed = True
        if not changed:
            break
    # closures of an inlined helper also belong to the callers it was spliced into
    for cid, callees in done.items():
        root = program.bodies[cid].rec.get("root", cid) if program.bodies[cid].rec["kind"] == "Closure" else cid
        for hid in callees:
            for clo in list(program.closures_of.get(hid, [])):
                crec = dict(program.bodies[clo].rec)
                if crec.get("parent") == hid:
                    crec["parent"] = cid
                alias = clo + "@" + cid
                crec["id"] = alias
                crec["root"] = root
                crec["alias_of"] = clo
                program.bodies[alias] = body_cls(crec)
                program.closures_of[root].append(alias)
    # an unknown helper handed to an iterator / Option combinator as a function item (`.map(parse_column)`) plays the part of a
    # closure of the function that mentions it: give it a closure-shaped twin (environment local inserted at 1, parameters from 2)
    def shift_params(x):
        if isinstance(x, list):
            return [shift_params(v) for v in x]
        if not isinstance(x, dict):
            return x
        is_place = "l" in x and "p" in x and isinstance(x.get("l"), int) and isinstance(x.get("p"), list)
        out = {}
        for k, v in x.items():
            if k == "l" and isinstance(v, int) and (is_place or x.get("k") in ("live", "dead")):
                out[k] = v + 1 if v >= 1 else v
            elif k == "p" and is_place:
                out[k] = [({**pe, "idx": pe["idx"] + 1} if isinstance(pe, dict) and isinstance(pe.get("idx"), int) else shift_params(pe)) if isinstance(pe, dict) else pe for pe in v]
            else:
                out[k] = shift_params(v)
        return out

    for hid, hb in list(unknown.items()):
        if hid not in program.bodies:
            continue
        for rid in list(program.bodies):
            rb = program.bodies[rid]
            if rid == hid or rb.rec.get("alias_of"):
                continue
            mentions = False
            for _bi, t in rb.calls():
                for a in t.get("args", []):
                    c = a.get("c") if isinstance(a, dict) else None
                    if c and ("fn" in c) and (c.get("res_full") == hid or c.get("fn_full") == hid or strip(c.get("res") or c.get("fn") or "") == strip(hid)):
                        mentions = True
            if not mentions:
                continue
            hrec = program.bodies[hid].rec
            crec = copy.deepcopy({k: v for k, v in hrec.items() if k != "mir"})
            cm = shift_params(copy.deepcopy(hrec["mir"]))
            cm["locals"] = [cm["locals"][0], {"ty": "()"}] + cm["locals"][1:]
            cm["arg_count"] = hrec["mir"]["arg_count"] + 1
            crec["mir"] = cm
            root = rb.rec.get("root", rid) if rb.rec["kind"] == "Closure" else rid
            crec.update({"id": hid + "@" + rid, "kind": "Closure", "root": root, "parent": rid, "alias_of": hid, "fn_item_callback": True})
            program.bodies[crec["id"]] = body_cls(crec)
            program.closures_of[root].append(crec["id"])
            done.setdefault(rid, []).append(hid)
    # a private helper whose every direct call has been spliced into its callers has no life of its own any more; keeping its
    # stand-alone body would make whole-program scans see the same code twice (once out of context)
    inlined_ids = {h for hs in done.values() for h in hs}
    still_called = set()
    for b in program.bodies.values():
        for _bi, t in b.calls():
            f = t.get("func", {}).get("c") if isinstance(t.get("func"), dict) else None
            if f:
                still_called.add(f.get("res_full") or f.get("res") or f.get("fn_full") or f.get("fn"))
    for hid in inlined_ids:
        hb = program.bodies.get(hid)
        if hb is None or hb.rec.get("vis") == "Public" or hid in still_called or any(strip(x or "") == strip(hid) for x in still_called):
            continue
        del program.bodies[hid]
        for clo in program.closures_of.pop(hid, []):
            program.bodies.pop(clo, None)
    return done


def inlined_view(program, body, callee_names, body_cls, strip):
    """a Body for `body` with its direct calls to the named crate functions spliced in (rule-local view; the program is not
    changed). Used by rules that are stated over one function and should not care whether a private step of it is a helper"""
    sites = {}
    for bi, t in body.calls():
        f = t.get("func", {}).get("c") if isinstance(t.get("func"), dict) else None
        if not f:
            continue
        target = strip(f.get("res_full") or f.get("res") or f.get("fn_full") or f.get("fn") or "")
        if target in callee_names:
            cb = program.get(target)
            if cb is not None and cb.id != body.id:
                sites[bi] = cb.rec
    if not sites:
        return body
    return body_cls(inline_rec(body.rec, sites))
