"""Decode core::fmt::Arguments templates (rustc nightly 1.97 byte-code form) found in MIR constants,
and pair every `Arguments::new` / `from_str*` call with its literal pieces and argument types."""
from .mir import callee_of, op_const, op_place, strip_generics


def decode_template(bs):
    """bytes -> list of ('lit', str) | ('arg', dict(index, width, precision, flags))"""
    out = []
    i = 0
    n = len(bs)
    next_arg = 0
    while i < n:
        b = bs[i]
        if b == 0:
            break
        if b & 0xC0 == 0xC0:
            i += 1
            d = {"flags": None, "width": None, "precision": None}
            if b & 1:
                d["flags"] = int.from_bytes(bs[i : i + 4], "little")
                i += 4
            if b & 2:
                d["width"] = int.from_bytes(bs[i : i + 2], "little")
                i += 2
            if b & 4:
                d["precision"] = int.from_bytes(bs[i : i + 2], "little")
                i += 2
            if b & 8:
                d["index"] = int.from_bytes(bs[i : i + 2], "little")
                i += 2
                next_arg = d["index"] + 1
            else:
                d["index"] = next_arg
                next_arg += 1
            d["width_indirect"] = bool(b & 16)
            d["precision_indirect"] = bool(b & 32)
            fl = d["flags"] or 0
            d["zero_pad"] = bool(fl & (1 << 24))
            out.append(("arg", d))
        elif b == 0x80:
            ln = int.from_bytes(bs[i + 1 : i + 3], "little")
            out.append(("lit", bytes(bs[i + 3 : i + 3 + ln]).decode("utf-8", "replace")))
            i += 3 + ln
        else:
            ln = b
            out.append(("lit", bytes(bs[i + 1 : i + 1 + ln]).decode("utf-8", "replace")))
            i += 1 + ln
    return out


def chase(body, op, depth=12):
    """follow use / & / reborrow chains of single-def temporaries to the defining constant,
    aggregate or call: ('const', c) | ('agg', rvalue) | ('call', term) | ('place', place) | None"""
    for _ in range(depth):
        c = op_const(op)
        if c is not None:
            if "promoted" in c and c["promoted"] < len(body.promoted):
                pb = body.promoted[c["promoted"]]
                # promoted body computes _0 = &<something>
                return chase(pb, {"cp": {"l": 0, "p": []}}, depth - 1)
            return ("const", c)
        pl = op_place(op)
        if pl is None:
            return None
        proj = [x for x in pl["p"] if x != "*"]
        if proj:
            return ("place", pl)
        sd = body.single_def(pl["l"])
        if sd is None:
            return ("place", pl)
        if sd[1] == "term":
            return ("call", sd[2])
        rv = sd[2]
        if rv["k"] == "use":
            op = rv["op"]
        elif rv["k"] in ("ref", "rawptr"):
            op = {"cp": rv["place"]}
        elif rv["k"] == "cast" and (rv["ck"].startswith("PointerCoercion") or rv["ck"] in ("PtrToPtr", "Transmute")):
            op = rv["op"]
        elif rv["k"] == "agg":
            return ("agg", rv)
        else:
            return ("rvalue", rv)
    return None


def _const_bytes(body, op):
    r = chase(body, op)
    if r and r[0] == "const":
        c = r[1]
        if "bytes" in c:
            return bytes(c["bytes"])
    return None


ARG_CTORS = {
    "core::fmt::rt::Argument::new_display": "Display",
    "core::fmt::rt::Argument::new_debug": "Debug",
    "core::fmt::rt::Argument::new_lower_hex": "LowerHex",
    "core::fmt::rt::Argument::new_upper_hex": "UpperHex",
    "core::fmt::rt::Argument::new_lower_exp": "LowerExp",
    "core::fmt::rt::Argument::new_octal": "Octal",
    "core::fmt::rt::Argument::new_binary": "Binary",
    "core::fmt::rt::Argument::new_pointer": "Pointer",
}


def arguments_of(body, op):
    """for an operand holding a fmt::Arguments: (pieces, [ (trait, type string, value operand) ]) or None"""
    pl = op_place(op)
    if pl is None or pl["p"]:
        return None
    sd = body.single_def(pl["l"])
    if sd is None:
        return None
    if sd[1] != "term":
        rv = sd[2]
        if rv["k"] == "use":
            return arguments_of(body, rv["op"])
        return None
    t = sd[2]
    c = callee_of(t)
    if c is None:
        return None
    name = strip_generics(c.get("res") or c["fn"])
    if name in ("std::fmt::Arguments::from_str", "std::fmt::Arguments::from_str_nonconst"):
        bs = _const_bytes(body, t["args"][0])
        cc = op_const(t["args"][0])
        if cc is not None and "str" in cc:
            return [("lit", cc["str"])], []
        if bs is not None:
            return [("lit", bs.decode("utf-8", "replace"))], []
        return None
    if name != "std::fmt::Arguments::new":
        return None
    bs = _const_bytes(body, t["args"][0])
    if bs is None:
        return None
    pieces = decode_template(bs)
    # args array: &[Argument; M] -> aggregate array of locals each defined by Argument::new_*
    args = []
    arr = None
    r = chase(body, t["args"][1])
    if r and r[0] == "agg":
        arr = r[1]["ops"]
    if arr is None:
        return pieces, None
    for o in arr:
        opl = op_place(o)
        sd4 = body.single_def(opl["l"]) if opl and not opl["p"] else None
        if sd4 and sd4[1] == "term":
            cc = callee_of(sd4[2])
            nm = strip_generics(cc.get("res") or cc["fn"]) if cc else None
            tr = ARG_CTORS.get(nm)
            ty = cc.get("targs", ["?"])[-1] if cc else "?"
            # first non-lifetime generic argument is the formatted type
            tys = [x for x in cc.get("targs", []) if not x.startswith("'")] if cc else []
            ty = tys[0] if tys else "?"
            args.append((tr or nm, ty, sd4[2]["args"][0]))
        else:
            args.append((None, "?", o))
    return pieces, args
