"""Small forward dataflow engine over a Body's CFG (normal edges)."""


def forward(body, init, transfer, must=True, universe=None, start=0):
    """facts are frozensets.
    transfer(block_index, in_facts) -> {succ: out_facts} (per-edge), or a single frozenset for all succs.
    must=True: meet is intersection (unvisited preds are TOP); must=False: union.
    Returns dict block -> in_facts (only for reachable blocks)."""
    IN = {start: frozenset(init)}
    work = [start]
    inq = {start}
    while work:
        b = work.pop()
        inq.discard(b)
        outs = transfer(b, IN[b])
        succs = body.succ(b)
        if not isinstance(outs, dict):
            outs = {s: outs for s in succs}
        for s in succs:
            o = outs.get(s)
            if o is None:
                continue
            if s not in IN:
                IN[s] = frozenset(o)
                changed = True
            else:
                new = (IN[s] & o) if must else (IN[s] | o)
                changed = new != IN[s]
                IN[s] = new
            if changed and s not in inq:
                inq.add(s)
                work.append(s)
    return IN


def must_pass(body, src_blocks, dst_block, via_blocks, avoid_edges=()):
    """every path from any block in src_blocks to dst_block passes through some block in via_blocks
    (after leaving src). Returns (ok, offending path or None)."""
    via = set(via_blocks)
    for s in src_blocks:
        seen = {s}
        st = [(s, [s])]
        while st:
            b, path = st.pop()
            for n in body.succ(b):
                if (b, n) in avoid_edges:
                    continue
                if n in via:
                    continue
                if n == dst_block:
                    return False, path + [n]
                if n not in seen:
                    seen.add(n)
                    st.append((n, path + [n]))
    return True, None
