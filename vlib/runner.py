"""Common driver of a property check: extraction, positive controls, rules, evidence."""
import os
import sys
import time
import traceback

from . import extract, mir, report


def run(prop, tier, mod):
    t0 = time.time()
    d, h, dt = extract.ensure_facts()
    prog = mir.load(d)
    rep = report.Report(prop, tier)
    rep.analysed["bodies"] = len(prog.bodies)
    rep.analysed["adts"] = len(prog.adts)
    rep.analysed["impls"] = len(prog.impls)
    rep.floor("MIR bodies exported", len(prog.bodies), extract.BODY_FLOOR)
    ctx = Ctx(prog, d, tier, rep)
    try:
        explanation = mod.check(ctx)
    except Exception:
        traceback.print_exc()
        print("CHECKER-ERROR property=%s (the checker crashed; this is not a verdict)" % prop)
        return 2
    # positive controls: the rules of this property must fire on the seeded fixture crate
    pc = getattr(mod, "positive_controls", None)
    if pc is not None:
        from . import poscontrol

        missed = poscontrol.run(mod, ctx)
        if missed:
            for m in missed:
                print("POSITIVE-CONTROL-MISSED property=%s %s" % (prop, m))
            print("CHECKER-ERROR property=%s positive control not reported: checker is broken" % prop)
            return 2
    return rep.finish(explanation, src_hash=h, extract_s=dt)


class Ctx:
    def __init__(self, prog, facts_dir, tier, rep):
        self.prog = prog
        self.facts_dir = facts_dir
        self.tier = tier
        self.rep = rep
        self._tables = None

    @property
    def tables(self):
        if self._tables is None:
            import json

            p = os.path.join(self.facts_dir, "tables.json")
            self._tables = json.load(open(p)) if os.path.exists(p) else {}
        return self._tables
