"""Common driver of a property check: extraction, positive controls, rules, evidence."""
import os
import sys
import time
import traceback

from . import extract, mir, report


def run(prop, tier, mod):
    t0 = time.time()
    d, h, dt = extract.ensure_facts()
    prog = mir.load(d)
    rep = report.Report(prop, tier)
    rep.analysed["bodies"] = len(prog.bodies)
    rep.analysed["adts"] = len(prog.adts)
    rep.analysed["impls"] = len(prog.impls)
    rep.floor("MIR bodies exported", len(prog.bodies), extract.BODY_FLOOR)
    ctx = Ctx(prog, d, tier, rep)
    try:
        explanation = mod.check(ctx)
    except Exception:
        traceback.print_exc()
        print("CHECKER-ERROR property=%s (the checker crashed; this is not a verdict)" % prop)
        return 2
    # positive controls: the rules of this property must fire on the seeded fixture crate
    pc = getattr(mod, "positive_controls", None)
    if pc is not None:
        from . import poscontrol

        missed = poscontrol.run(mod, ctx)
        if missed:
            for m in missed:
                print("POSITIVE-CONTROL-MISSED property=%s %s" % (prop, m))
            print("CHECKER-ERROR property=%s positive control not reported: checker is broken" % prop)
            return 2
    extra = None
    if tier == "thorough":
        from . import seeds

        def factory(prog2, d2, rep2, root2):
            c2 = Ctx(prog2, d2, tier, rep2)
            c2.repo_root = root2
            return c2

        old_root = os.environ.get("VERIF_REPO")
        res = seeds.run_seeds(prop, mod, factory)
        n_det = sum(1 for r in res if r["status"] == "detected")
        n_miss = sum(1 for r in res if r["status"] == "missed")
        for r in res:
            if r["status"] == "missed":
                try:
                    import json as _json
                    was = _json.load(open(os.path.join(seeds.VERIF, "seeded", r["seed"], "meta.json")))["check_result"]["detected"]
                except Exception:
                    was = True
                r["recorded_as_detected"] = bool(was)
                if was:
                    print("SEED-MISSED property=%s %s: a recorded breaking change is no longer reported (checker regression, not a verdict on /repo)" % (prop, r["seed"]))
                else:
                    print("SEED-NOT-COVERED property=%s %s: recorded as outside what the rules of this property decide (see seeded/%s/meta.json)" % (prop, r["seed"], r["seed"]))
        print("%s thorough: %d seeded breaking changes re-applied to scratch copies of the current tree: %d detected, %d missed, %d skipped" % (prop, len(res), n_det, n_miss, len(res) - n_det - n_miss))
        rres = seeds.run_refactors(prop, mod, factory)
        n_sil = sum(1 for r in rres if r["status"] == "silent")
        for r in rres:
            if r["status"] == "alarm":
                print("REFACTOR-ALARM property=%s %s: a behaviour-preserving restructuring is reported (false alarm of the rules, not a verdict on /repo): %s" % (prop, r["probe"], r["keys"][:2]))
        if rres:
            print("%s thorough: %d behaviour-preserving refactorings re-applied to scratch copies: %d silent, %d reported, %d skipped" % (prop, len(rres), n_sil, sum(1 for r in rres if r["status"] == "alarm"), sum(1 for r in rres if r["status"] == "skipped")))
        extra = {"refactor_probes": rres, "refactor_probes_silent": n_sil, "seeded_changes": res, "seeded_detected": n_det, "seeded_missed": n_miss,
                 "thorough_explanation": "quick analysis plus self-validation in both directions: every recorded independently written breaking change of this property (seeded/) is re-applied to a scratch copy of /repo's current working tree, facts are re-extracted and the same rules must report it; every recorded behaviour-preserving refactoring of the anchored code (refactors/) is re-applied likewise and the rules must stay silent"}
    return rep.finish(explanation, extra_cov=extra, src_hash=h, extract_s=dt)


class Ctx:
    def __init__(self, prog, facts_dir, tier, rep):
        self.prog = prog
        self.facts_dir = facts_dir
        self.tier = tier
        self.rep = rep
        self.repo_root = extract.REPO
        self._tables = None

    @property
    def tables(self):
        if self._tables is None:
            import json

            p = os.path.join(self.facts_dir, "tables.json")
            self._tables = json.load(open(p)) if os.path.exists(p) else {}
        return self._tables
