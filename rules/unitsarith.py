"""C16: the dimension-algebra skeleton of unit conversion and Number arithmetic.

What is decided is the *shape* of the arithmetic, as a necessary condition of dimensional soundness:
which fields are combined with which operator, under which guard, and which results may be returned.
Numerical accuracy and the name-matching fall-backs of Unit * / are not decided."""
import json
import re

from rules import guards as G
from vlib import mir
from vlib.mir import strip_generics

U = "haystack::units::"


# ---------------------------------------------------------------------- tiny exact algebra: rational functions over named leaves
class Poly(dict):
    """monomial (sorted tuple of (var, power)) -> integer coefficient"""

    @staticmethod
    def const(c):
        p = Poly()
        if c:
            p[()] = c
        return p

    @staticmethod
    def var(v):
        p = Poly()
        p[((v, 1),)] = 1
        return p

    def add(self, o, sign=1):
        r = Poly(self)
        for m, c in o.items():
            r[m] = r.get(m, 0) + sign * c
            if r[m] == 0:
                del r[m]
        return r

    def mul(self, o):
        r = Poly()
        for m1, c1 in self.items():
            for m2, c2 in o.items():
                d = dict(m1)
                for v, k in m2:
                    d[v] = d.get(v, 0) + k
                m = tuple(sorted(d.items()))
                r[m] = r.get(m, 0) + c1 * c2
                if r[m] == 0:
                    del r[m]
        return r


class Frac:
    def __init__(self, num, den=None):
        self.n = num
        self.d = den if den is not None else Poly.const(1)

    def __eq__(self, o):
        return self.n.mul(o.d) == o.n.mul(self.d)

    @staticmethod
    def of(val, leaf):
        """Val tree (binop Add/Sub/Mul/Div over leaves) -> Frac, or None if another operator occurs"""
        if val.kind == "binop" and val.v in ("Add", "Sub", "Mul", "Div") and len(val.args) == 2:
            a, b = Frac.of(val.args[0], leaf), Frac.of(val.args[1], leaf)
            if a is None or b is None:
                return None
            if val.v == "Add":
                return Frac(a.n.mul(b.d).add(b.n.mul(a.d)), a.d.mul(b.d))
            if val.v == "Sub":
                return Frac(a.n.mul(b.d).add(b.n.mul(a.d), -1), a.d.mul(b.d))
            if val.v == "Mul":
                return Frac(a.n.mul(b.n), a.d.mul(b.d))
            return Frac(a.n.mul(b.d), a.d.mul(b.n))
        if val.kind == "const":
            return Frac(Poly.const(int(val.v)))
        name = leaf(val)
        if name is None:
            return None
        return Frac(Poly.var(name))


def _leaf_namer(mapping):
    def leaf(val):
        r = repr(val)
        for pat, name in mapping:
            if re.fullmatch(pat, r):
                return name
        return None
    return leaf


def _ret_payload(body, variant):
    """[(block, Val of payload)] for every `_0 = <variant>(payload)`"""
    out = []
    for bi in range(body.n):
        for st in body.blocks[bi]["stmts"]:
            if st["k"] == "assign" and not st["lhs"]["p"] and st["lhs"]["l"] == 0 and st["rv"]["k"] == "agg" and st["rv"].get("variant") == variant:
                out.append((bi, G.describe(body, st["rv"]["ops"][0]) if st["rv"]["ops"] else None))
    return out


def _impl_body(prog, trait, adt_suffix, name, rhs=None):
    for b in prog.bodies.values():
        im = b.rec.get("impl") or {}
        if b.rec["kind"] != "Closure" and b.rec.get("name") == name and (im.get("trait") or "").startswith(trait) and (im.get("self_ty") or im.get("self_adt") or "").endswith(adt_suffix):
            return b
    return None


# ---------------------------------------------------------------------- U1 field-wise dimension vectors
def _inplace_updates(b, dim_adt):
    """{field: (op, left, right)} of a body that copies one parameter into a local and updates its fields one after the other on a
    single path (asserts aside), returning that local; operands are given as `_1.f` / `_2.f`; a field never updated maps to
    ('copy', '_k.f', None). None when the body has another shape"""
    env = {}      # (local, field) -> symbolic text
    whole = {}    # local -> parameter it is a copy of
    tmp = {}      # local -> (op, left, right)
    cur, seen = 0, set()

    def val(op_):
        pl = mir.op_place(op_)
        if pl is None:
            return None
        if not pl["p"]:
            if pl["l"] in tmp:
                return tmp[pl["l"]]
            return env.get((pl["l"], None))
        if len(pl["p"]) == 1 and isinstance(pl["p"][0], dict) and "n" in pl["p"][0]:
            fld = pl["p"][0]["n"]
            if 0 < pl["l"] <= b.arg_count:
                return "_%d.%s" % (pl["l"], fld)
            if (pl["l"], fld) in env:
                return env[(pl["l"], fld)]
            if pl["l"] in whole:
                return "_%d.%s" % (whole[pl["l"]], fld)
            if pl["l"] in tmp and fld == "0":
                return tmp[pl["l"]]
        return None

    while cur is not None and cur not in seen:
        seen.add(cur)
        blk = b.blocks[cur]
        for st in blk["stmts"]:
            if st["k"] != "assign":
                continue
            lhs, rv = st["lhs"], st["rv"]
            if rv["k"] == "use":
                src = mir.op_place(rv["op"])
                if not lhs["p"] and src is not None and not src["p"] and 0 < src["l"] <= b.arg_count and b.local_ty(lhs["l"]).endswith("UnitDimensions"):
                    whole[lhs["l"]] = src["l"]
                    continue
                if not lhs["p"] and src is not None and not src["p"] and src["l"] in whole:
                    whole[lhs["l"]] = whole[src["l"]]
                    for (l, fld), v in list(env.items()):
                        if l == src["l"]:
                            env[(lhs["l"], fld)] = v
                    continue
                v = val(rv["op"])
                if lhs["p"] and len(lhs["p"]) == 1 and isinstance(lhs["p"][0], dict) and "n" in lhs["p"][0]:
                    env[(lhs["l"], lhs["p"][0]["n"])] = v
                elif not lhs["p"]:
                    env[(lhs["l"], None)] = v
            elif rv["k"] == "binop" and not lhs["p"]:
                opn = rv["op"].replace("WithOverflow", "").replace("Unchecked", "")
                tmp[lhs["l"]] = (opn, val(rv["a"]), val(rv["b"]))
        t = blk["term"]
        if t["k"] == "return":
            break
        succ = [x for x in b.succ(cur) if not b.blocks[x].get("cleanup")]
        if t["k"] == "assert":
            succ = [t["t"]]
        if len(succ) != 1:
            return None
        cur = succ[0]
    res = None
    for l, p in whole.items():
        if l == 0:
            res = 0
    if res is None:
        return None
    out = {}
    for (l, fld), v in env.items():
        if l == 0 and fld is not None:
            out[fld] = v if isinstance(v, tuple) else ("copy", v, None)
    return out


def check_dimension_vectors(ctx, rep):
    prog = ctx.prog
    n = 0
    dim_adt = U + "unit_dimension::UnitDimensions"
    fields = [f["name"] for f in prog.adts[dim_adt]["variants"][0]["fields"]] if dim_adt in prog.adts else []
    rep.floor("base dimensions of UnitDimensions", len(fields), 7)
    for trait, meth, op in (("std::ops::Add", "add", "Add"), ("std::ops::Sub", "sub", "Sub")):
        b = _impl_body(prog, trait, "UnitDimensions", meth)
        if b is None:
            rep.gap("UnitDimensions::%s" % meth, "-", "impl not found")
            continue
        agg = None
        cands = []
        for bi in range(b.n):
            for st in b.blocks[bi]["stmts"]:
                if st["k"] == "assign" and not st["lhs"]["p"] and st["rv"]["k"] == "agg" and st["rv"].get("adt") == dim_adt:
                    cands.append((bi, st["lhs"]["l"], st["rv"]))
        for bi, l, rv in cands:
            # the aggregate is the result: assigned to _0 directly, or to a local that is copied into _0 (a spliced helper's result)
            if l == 0:
                agg = (bi, rv)
            else:
                for _db, si, rv0 in b.defs().get(0, []):
                    if si != "term" and rv0["k"] == "use":
                        src = mir.op_place(rv0["op"])
                        if src is not None and not src["p"] and src["l"] == l and len(cands) == 1:
                            agg = (bi, rv)
        if agg is None:
            # the in-place spelling: `let mut r = self; r.kg += other.kg; ...; r` - evaluate the straight-line updates symbolically
            upd = _inplace_updates(b, dim_adt)
            if upd is None:
                rep.gap("UnitDimensions::%s result" % meth, b.where(), "result aggregate not found")
                continue
            for f in fields:
                n += 1
                key = "dimension-%s:%s" % (meth, f)
                got = upd.get(f)
                want = ("_1.%s" % f, "_2.%s" % f)
                okf = got is not None and got[0] == op and (got[1:] == want or (op == "Add" and got[1:] == want[::-1]))
                if okf:
                    rep.ok("R-DIM", key, b.where(), "%s = self.%s %s other.%s (updated in place)" % (f, f, "+" if op == "Add" else "-", f))
                else:
                    rep.bad("R-DIM", "R-DIM:" + key, b.where(), "UnitDimensions::%s computes .%s as %s, expected self.%s %s other.%s: products / quotients of units get the wrong dimension" % (meth, f, got, f, "+" if op == "Add" else "-", f))
            continue
        bi, rv = agg
        for f, o in zip(rv["fields"], rv["ops"]):
            n += 1
            v = G.describe(b, o)
            key = "dimension-%s:%s" % (meth, f)
            want = ("_1.%s" % f, "_2.%s" % f)
            got = (repr(v.args[0]), repr(v.args[1])) if v.kind == "binop" and len(v.args) == 2 else None
            if v.kind == "binop" and v.v == op and got == want:
                rep.ok("R-DIM", key, b.where(bi), "%s = self.%s %s other.%s" % (f, f, "+" if op == "Add" else "-", f))
            else:
                rep.bad("R-DIM", "R-DIM:" + key, b.where(bi), "UnitDimensions::%s computes .%s as %s, expected self.%s %s other.%s: products / quotients of units get the wrong dimension" % (meth, f, v, f, "+" if op == "Add" else "-", f))
        missing = [f for f in fields if f not in rv["fields"]]
        if missing:
            rep.bad("R-DIM", "R-DIM:dimension-%s:missing" % meth, b.where(bi), "fields %s are not set" % missing)
    return n


# ---------------------------------------------------------------------- U2 / U3 convert_to
def check_convert(ctx, rep):
    prog = ctx.prog
    b = prog.get(U + "unit::Unit::convert_to")
    if b is None:
        rep.gap("Unit::convert_to", "-", "not found")
        return 0
    n = 0
    oks = _ret_payload(b, "Ok")
    errs = _ret_payload(b, "Err")
    if len(oks) != 1 or not errs:
        rep.gap("Unit::convert_to results", b.where(), "expected one Ok and at least one Err result, found %d / %d" % (len(oks), len(errs)))
        return 0
    okb, val = oks[0]
    # U3 formula, compared as a rational function (any algebraically equal rearrangement is the same formula)
    leaf = _leaf_namer([(r"_2", "x"), (r"_1\*\.scale", "sa"), (r"_1\*\.offset", "oa"), (r"_3\*\.scale", "sb"), (r"_3\*\.offset", "ob")])
    got = Frac.of(val, leaf)
    x, sa, oa, sb, ob = (Poly.var(v) for v in ("x", "sa", "oa", "sb", "ob"))
    want = Frac(x.mul(sa).add(oa).add(ob, -1), sb)
    n += 1
    if got is not None and got == want:
        rep.ok("R-DIM", "convert:formula", b.where(okb), "result = (x * self.scale + self.offset - to.offset) / to.scale (as a rational function)")
    else:
        rep.bad("R-DIM", "R-DIM:convert:formula", b.where(okb), "convert_to returns %s, which is not (x * self.scale + self.offset - to.offset) / to.scale: the conversion is not the affine map between the two units (nor its own inverse the other way)" % repr(val)[:160])
    # U2 the decision, as a truth table over the conditions the function tests: Ok <=> (both byte units) or (dimensions equal)
    from rules import pathcond as PC

    n += 1
    err_blocks = {bi for bi, _ in errs}
    p_ok = PC.enumerate_paths(b, lambda x: x == okb)
    p_err = PC.enumerate_paths(b, lambda x: x in err_blocks)
    atoms = PC.atoms_of(p_ok + p_err)
    A = next((a for a in atoms if a == "is_byte_unit(_1*)"), None)
    B = next((a for a in atoms if a == "is_byte_unit(_3*)"), None)
    D = next((a for a in atoms if a.startswith("eq(") and "_1*.dimensions" in a and "_3*.dimensions" in a), None)
    if D is None:
        rep.bad("R-DIM", "R-DIM:convert:dimension-guard", b.where(), "convert_to never compares self.dimensions with to.dimensions: quantities of different dimensions convert into each other")
    else:
        def spec(asg):
            return bool(asg.get(D)) or (A is not None and B is not None and bool(asg.get(A)) and bool(asg.get(B)))

        ok1, cx1 = PC.entails(p_ok, spec, atoms)
        ok2, cx2 = PC.entails(p_err, lambda asg: not spec(asg), atoms)
        if ok1 and ok2 and p_ok and p_err:
            rep.ok("R-DIM", "convert:dimension-guard", b.where(okb), "truth table over %s: Ok exactly when the dimensions are equal or both units are byte units" % [x for x in (A, B, D) if x])
        elif not ok1:
            byte_only = cx1 is not None and not cx1.get(D) and (bool(cx1.get(A)) or bool(cx1.get(B)))
            rep.bad("R-DIM", "R-DIM:convert:byte-escape" if byte_only else "R-DIM:convert:dimension-guard", b.where(okb), "convert_to succeeds under %s: units of different dimensions (not both byte units) convert into each other" % {k: v for k, v in (cx1 or {}).items()})
        else:
            rep.bad("R-DIM", "R-DIM:convert:dimension-guard", b.where(), "convert_to fails under %s although the dimensions are equal (or both are byte units)" % {k: v for k, v in (cx2 or {}).items()})
    return n



def _origin_calls(body, val_or_place, depth=12, seen=None):
    """names of the calls a value is computed from, following definitions of the locals involved (through projections,
    references, copies, aggregates and call arguments)"""
    out = set()
    seen = seen if seen is not None else set()

    def from_local(l, d):
        if d <= 0 or l in seen:
            return
        seen.add(l)
        for _bi, si, rv in body.defs().get(l, []):
            if si == "term":
                t = body.term(_bi)
                out.add(strip_generics(mir.callee_name(t) or "?"))
                for a in t["args"]:
                    pl = mir.op_place(a)
                    if pl is not None:
                        from_local(pl["l"], d - 1)
            else:
                for key in ("op", "a", "b"):
                    if key in rv and isinstance(rv[key], dict):
                        pl = mir.op_place(rv[key])
                        if pl is not None:
                            from_local(pl["l"], d - 1)
                if "place" in rv:
                    from_local(rv["place"]["l"], d - 1)
                for o in rv.get("ops", []):
                    pl = mir.op_place(o)
                    if pl is not None:
                        from_local(pl["l"], d - 1)

    if isinstance(val_or_place, dict):
        from_local(val_or_place["l"], depth)
    return out

# ---------------------------------------------------------------------- U4 / U5 products and quotients of units
def check_unit_products(ctx, rep):
    prog = ctx.prog
    n = 0
    for trait, meth, dimop, sop in (("std::ops::Mul", "mul", "Add>::add", "Mul"), ("std::ops::Div", "div", "Sub>::sub", "Div")):
        b = _impl_body(prog, trait, "unit::Unit", meth)
        if b is None:
            rep.gap("Unit::%s" % meth, "-", "impl not found")
            continue
        mu = [(bi, t) for bi, t in b.calls() if strip_generics(mir.callee_name(t) or "").endswith("units::match_units")]
        if len(mu) != 1:
            rep.gap("Unit::%s: match_units call" % meth, b.where(), "expected one call, found %d" % len(mu))
            continue
        bi, t = mu[0]
        dim, scale = G.describe(b, t["args"][0]), G.describe(b, t["args"][1])
        n += 1
        key = "unit-%s:dimension" % meth
        rd = repr(dim)
        m = re.search(r"UnitDimensions as std::ops::(Add>::add|Sub>::sub)\((.*)\)$", rd)
        okd = False
        if dim.kind == "call" and dim.v.endswith("UnitDimensions as std::ops::" + dimop) and len(dim.args) == 2:
            a0, a1 = repr(dim.args[0]), repr(dim.args[1])
            # operands are the Some payloads of (self.dimensions, other.dimensions), in that order
            okd = bool(re.search(r"(^|[^0-9])(_\d+\.0|_1\*?\.dimensions)", a0)) and bool(re.search(r"(_\d+\.1|_2\*?\.dimensions)", a1)) and a0 != a1
        if okd:
            rep.ok("R-DIM", key, b.where(bi), "looked-up dimension = self.dimensions %s other.dimensions" % ("+" if meth == "mul" else "-"))
        else:
            rep.bad("R-DIM", "R-DIM:" + key, b.where(bi), "Unit %s looks up dimension %s, expected self.dimensions %s other.dimensions (in that order)" % (meth, rd[:120], "+" if meth == "mul" else "-"))
        n += 1
        key = "unit-%s:scale" % meth
        if scale.kind == "binop" and scale.v == sop and repr(scale.args[0]) == "_1*.scale" and repr(scale.args[1]) == "_2*.scale":
            rep.ok("R-DIM", key, b.where(bi), "looked-up scale = self.scale %s other.scale" % ("*" if meth == "mul" else "/"))
        else:
            rep.bad("R-DIM", "R-DIM:" + key, b.where(bi), "Unit %s looks up scale %s, expected self.scale %s other.scale" % (meth, scale, "*" if meth == "mul" else "/"))
        # every Ok result is an element of what match_units returned: provenance of each value that can be returned as Ok
        n += 1
        key = "unit-%s:result-from-matches" % meth
        bad = []
        found = 0
        for rb in range(b.n):
            for st in b.blocks[rb]["stmts"]:
                if st["k"] == "assign" and not st["lhs"]["p"] and st["lhs"]["l"] == 0:
                    rv = st["rv"]
                    if rv["k"] == "agg" and rv.get("variant") == "Ok" and rv["ops"]:
                        found += 1
                        pl = mir.op_place(rv["ops"][0])
                        org = _origin_calls(b, pl) if pl is not None else set()
                        if not any(x.endswith("units::match_units") for x in org):
                            bad.append((rb, sorted(x.split("::")[-1] for x in org)[:4]))
            t = b.term(rb)
            if t["k"] == "call" and not t["dest"]["p"] and t["dest"]["l"] == 0:
                nm = strip_generics(mir.callee_name(t) or "")
                if nm.endswith("Option::ok_or_else") or nm.endswith("Option::ok_or") or nm.endswith("Option::map"):
                    found += 1
                    pl = mir.op_place(t["args"][0])
                    org = _origin_calls(b, pl) if pl is not None else set()
                    if not any(x.endswith("units::match_units") for x in org):
                        bad.append((rb, sorted(x.split("::")[-1] for x in org)[:4]))
        if bad or not found:
            rep.bad("R-DIM", "R-DIM:" + key, b.where(bad[0][0]) if bad else b.where(), "Unit %s can return a unit that does not come from match_units(dim, scale) (computed from %s)" % (meth, bad[0][1] if bad else "nothing found"))
        else:
            rep.ok("R-DIM", key, b.where(bi), "every Ok result (%d sites) is taken from match_units(dim, scale)" % found)
    # U5 match_units keeps a unit only if dimension and scale both match: truth table of the selecting closure
    from rules import pathcond as PC

    mb = prog.get(U + "match_units")
    if mb is None:
        rep.gap("match_units", "-", "not found")
        return n
    n += 1
    okc = False
    why = "no selecting closure found"
    for cid in prog.closures_of.get(mb.id, []):
        cb = prog.bodies[cid]
        somes = {sb for sb, _v in _ret_payload(cb, "Some")}
        nones = {sb for sb, _v in _ret_payload(cb, "None")}
        if somes:
            pos = PC.enumerate_paths(cb, lambda x: x in somes)
            neg = PC.enumerate_paths(cb, lambda x: x in nones)
        elif cb.rec.get("sig_output") == "bool" or cb.local_ty(0) == "bool":
            rets = {x for x in range(cb.n) if cb.term(x)["k"] == "return"}
            pos, neg = PC.bool_outcomes(PC.enumerate_paths(cb, lambda x: x in rets))
        else:
            continue
        atoms = PC.atoms_of(pos + neg)
        Dm = next((a for a in atoms if a.startswith("eq(") and ".dimensions" in a), None)
        Sc = next((a for a in atoms if a.startswith("approx_eq(") and ".scale" in a), None)
        if Dm is None or Sc is None:
            why = "the selecting closure does not test both the dimensions and approx_eq of the scale (conditions: %s)" % atoms
            continue
        spec = lambda asg: bool(asg.get(Dm)) and bool(asg.get(Sc))  # noqa: E731
        o1, c1 = PC.entails(pos, spec, atoms)
        o2, c2 = PC.entails(neg, lambda asg: not spec(asg), atoms)
        if o1 and o2 and pos:
            okc = True
        else:
            why = "a unit is %s under %s" % ("kept" if not o1 else "dropped", c1 if not o1 else c2)
    if not okc:
        # the explicit-loop spelling: units are pushed into the result under the same two tests
        pushes = {bi for bi, t in mb.calls() if strip_generics(mir.callee_name(t) or "") == "std::vec::Vec::push"}
        if pushes:
            pos = PC.enumerate_paths(mb, lambda x: x in pushes)
            atoms = PC.atoms_of(pos)
            Dm = next((a for a in atoms if a.startswith("eq(") and ".dimensions" in a), None)
            Sc = next((a for a in atoms if a.startswith("approx_eq(") and ".scale" in a), None)
            if Dm and Sc and pos:
                o1, c1 = PC.entails(pos, lambda asg: bool(asg.get(Dm)) and bool(asg.get(Sc)), atoms)
                # and nothing else decides: the only other conditions on the way are loop control
                extra = [a for a in atoms if a not in (Dm, Sc) and not a.startswith("some(") and "Iterator>::next" not in a]
                if o1 and not extra:
                    okc = True
                else:
                    why = "a unit is pushed under %s" % (c1 if not o1 else extra)
    if okc:
        rep.ok("R-DIM", "match_units:filter", mb.where(), "a unit is kept exactly when its dimensions equal the wanted ones and its scale is approx_eq (truth table)")
    else:
        rep.bad("R-DIM", "R-DIM:match_units:filter", mb.where(), "match_units: %s" % why)
    return n



def _origin_places(body, op, depth=14):
    """reprs of the parameter-rooted places (and constants) a value can come from, through copies, references, Option / Result
    plumbing (Ok / Some payloads, `?`, unwrap_or) and multiply-assigned locals"""
    out = set()
    seen = set()

    def from_place(pl, d):
        if pl is None or d <= 0:
            return
        root = pl["l"]
        if 0 < root <= body.arg_count:
            out.add(repr(G.describe_place(body, pl)))
            return
        key = (root, json.dumps(pl["p"], sort_keys=True))
        if key in seen:
            return
        seen.add(key)
        if pl["p"]:
            # a field of a local that is itself a copy of some place (a spliced helper's parameters): the same field of that place
            srcs = []
            for _bi, si, rv in body.defs().get(root, []):
                sp = mir.op_place(rv["op"]) if si != "term" and rv["k"] == "use" else None
                if sp is None:
                    srcs = None
                    break
                srcs.append(sp)
            if srcs:
                for sp in srcs:
                    from_place({"l": sp["l"], "p": list(sp["p"]) + list(pl["p"])}, d - 1)
                return
        for _bi, si, rv in body.defs().get(root, []):
            if si == "term":
                t = body.term(_bi)
                nm = strip_generics(mir.callee_name(t) or "?")
                if nm.endswith(("Option::unwrap_or", "Try>::branch", "FromResidual>::from_residual", "Option::or", "Clone>::clone", "Option::copied", "Option::cloned", "Deref>::deref")):
                    for a in t["args"]:
                        c = mir.op_const(a)
                        if c is not None:
                            out.add("const")
                        else:
                            from_place(mir.op_place(a), d - 1)
                else:
                    out.add("call:" + nm.split("::")[-1])
            else:
                k = rv["k"]
                if k in ("use", "cast"):
                    c = mir.op_const(rv["op"])
                    if c is not None:
                        out.add("const")
                    else:
                        from_place(mir.op_place(rv["op"]), d - 1)
                elif k in ("ref", "rawptr"):
                    from_place(rv["place"], d - 1)
                elif k == "agg":
                    if rv.get("variant") == "Err" and str(rv.get("adt", "")).endswith("result::Result"):
                        continue  # the value taken out of a Result by `?` is never the payload of its Err
                    if not rv["ops"]:
                        out.add("const")
                    for o in rv["ops"]:
                        c = mir.op_const(o)
                        if c is not None:
                            out.add("const")
                        else:
                            from_place(mir.op_place(o), d - 1)
                else:
                    out.add("other:" + k)

    c0 = mir.op_const(op)
    if c0 is not None:
        return {"const"}
    from_place(mir.op_place(op), depth)
    return out

# ---------------------------------------------------------------------- U6 Number + - * /
def check_number_ops(ctx, rep):
    prog = ctx.prog
    n = 0
    for trait, meth, op in (("std::ops::Add", "add", "Add"), ("std::ops::Sub", "sub", "Sub"), ("std::ops::Mul", "mul", "Mul"), ("std::ops::Div", "div", "Div")):
        b = _impl_body(prog, trait, "number::Number", meth)
        if b is None:
            rep.gap("Number::%s" % meth, "-", "impl not found")
            continue
        # value
        n += 1
        key = "number-%s:value" % meth
        mk = [(bi, t) for bi, t in b.calls() if strip_generics(mir.callee_name(t) or "").endswith("Number::make_with_unit")]
        vals = [G.describe(b, t["args"][0]) for _bi, t in mk]
        good = bool(vals) and all(v.kind == "binop" and v.v == op and repr(v.args[0]) == "_1.value" and repr(v.args[1]) == "_2.value" for v in vals)
        if good:
            rep.ok("R-DIM", key, b.where(mk[0][0]), "value = self.value %s other.value" % {"Add": "+", "Sub": "-", "Mul": "*", "Div": "/"}[op])
        else:
            rep.bad("R-DIM", "R-DIM:" + key, b.where(mk[0][0]) if mk else b.where(), "Number::%s computes %s, expected self.value %s other.value" % (meth, [repr(v) for v in vals], {"Add": "+", "Sub": "-", "Mul": "*", "Div": "/"}[op]))
        errs = _ret_payload(b, "Err")
        if not errs:
            # the failure may be built in a spliced helper and travel to the return value through `?`
            for rb in range(b.n):
                for st in b.blocks[rb]["stmts"]:
                    if st["k"] == "assign" and st["rv"]["k"] == "agg" and st["rv"].get("variant") == "Err" and str(st["rv"].get("adt", "")).endswith("result::Result"):
                        errs.append((rb, None))
        if meth in ("add", "sub"):
            # fails exactly for two different units, both present: truth table over the conditions the function tests
            from rules import pathcond as PC

            n += 1
            key = "number-%s:fails-for-different-units" % meth
            eblocks = {eb for eb, _v in errs}
            mkblocks = {bi for bi, _t in mk}
            p_err = PC.enumerate_paths(b, lambda x: x in eblocks)
            okagg = {rb for rb in range(b.n) for st in b.blocks[rb]["stmts"] if st["k"] == "assign" and not st["lhs"]["p"] and st["lhs"]["l"] == 0 and st["rv"]["k"] == "agg" and st["rv"].get("variant") == "Ok"}
            # a success that does not come out of make_with_unit (an early `return Ok(self)`) is a success all the same
            mkdest = {t["dest"]["l"] for _bi, t in mk if not t["dest"]["p"]}
            early = set()
            for rb in okagg:
                for st in b.blocks[rb]["stmts"]:
                    if st["k"] == "assign" and st["rv"]["k"] == "agg" and st["rv"].get("variant") == "Ok" and st["lhs"]["l"] == 0:
                        pls = [mir.op_place(o) for o in st["rv"]["ops"]]
                        if not any(pl is not None and pl["l"] in mkdest for pl in pls):
                            early.add(rb)
            ok_targets = mkblocks | early
            p_ok = PC.enumerate_paths(b, lambda x: x in ok_targets)
            atoms = PC.atoms_of(p_err + p_ok)
            E = next((a for a in atoms if a.startswith("eq(") and "_1.unit" in a and "_2.unit" in a), None)
            S1 = next((a for a in atoms if a.startswith("some(") and "_1.unit" in a and "_2.unit" not in a), None)
            S2 = next((a for a in atoms if a.startswith("some(") and "_2.unit" in a and "_1.unit" not in a), None)
            if not errs or E is None or S1 is None or S2 is None:
                rep.bad("R-DIM", "R-DIM:" + key, b.where(), "Number::%s does not decide on `units equal`, `self has a unit`, `other has a unit` (conditions found: %s, Err results: %d)" % (meth, atoms, len(errs)))
            else:
                fails = lambda asg: (not asg.get(E)) and bool(asg.get(S1)) and bool(asg.get(S2))  # noqa: E731
                o1, c1 = PC.entails(p_err, fails, atoms)
                o2, c2 = PC.entails(p_ok, lambda asg: not fails(asg), atoms)
                if o1 and o2 and p_err and p_ok:
                    rep.ok("R-DIM", key, b.where(errs[0][0]), "truth table: Err exactly when the units differ and both are present")
                elif not o1:
                    rep.bad("R-DIM", "R-DIM:" + key, b.where(errs[0][0]), "Number::%s fails under %s, where the units are equal or one is absent" % (meth, c1))
                else:
                    rep.bad("R-DIM", "R-DIM:" + key, b.where(), "Number::%s succeeds under %s: two different units are combined" % (meth, c2))
            # the unit of the result is one of the operands' units
            n += 1
            key = "number-%s:keeps-unit" % meth
            units = set()
            for _bi, t in mk:
                units |= _origin_places(b, t["args"][1])
            if units and units <= {"_1.unit", "_2.unit", "const"} and (units & {"_1.unit", "_2.unit"}):
                rep.ok("R-DIM", key, b.where(mk[0][0]), "the result carries self.unit / other.unit")
            else:
                rep.bad("R-DIM", "R-DIM:" + key, b.where(), "the unit of the result comes from %s, not only from the operands' units" % sorted(units))
        else:
            n += 1
            key = "number-%s:unit-from-unit-%s" % (meth, meth)
            want = "Unit as std::ops::%s" % ("Mul" if meth == "mul" else "Div")
            uc = [(bi, t) for bi, t in b.calls() if want in strip_generics(mir.callee_name(t) or "")]
            good = False
            if len(uc) == 1:
                a0, a1 = repr(G.describe(b, uc[0][1]["args"][0])), repr(G.describe(b, uc[0][1]["args"][1]))
                good = "_1.unit" in a0 and "_2.unit" in a1 and "_2.unit" not in a0 and "_1.unit" not in a1
            if good:
                from rules import pathcond as PC

                mkb = {bi for bi, _t in mk}
                paths = PC.enumerate_paths(b, lambda x: x in mkb)
                atoms = PC.atoms_of(paths)
                S1 = next((a for a in atoms if a.startswith("some(") and "_1.unit" in a and "_2.unit" not in a), None)
                S2 = next((a for a in atoms if a.startswith("some(") and "_2.unit" in a and "_1.unit" not in a), None)
                U = [a for a in atoms if want in a and a.startswith("is(")]
                leak = None
                for p in paths:
                    lits = dict(p[1])
                    if len(lits) < len(p[1]):
                        continue
                    both = (S1 is None or lits.get(S1) is not False) and (S2 is None or lits.get(S2) is not False)
                    through = any(a in lits for a in U)
                    if both and not through:
                        leak = {a: tv for a, tv in lits.items()}
                        break
                if S1 is None or S2 is None or not U:
                    good = False
                elif leak is not None:
                    rep.bad("R-DIM", "R-DIM:" + key + ":always", b.where(), "Number::%s produces a result for two numbers that both carry a unit without asking Unit %s Unit (path conditions %s): the unit of the result is not the %s of the operands' units" % (meth, "*" if meth == "mul" else "/", leak, "product" if meth == "mul" else "quotient"))
                    continue
            if good:
                rep.ok("R-DIM", key, b.where(uc[0][0]), "two units combine through Unit %s Unit with self on the left, on every path where both are present" % ("*" if meth == "mul" else "/"))
            else:
                rep.bad("R-DIM", "R-DIM:" + key, b.where(), "Number::%s does not combine the units as self.unit %s other.unit" % (meth, "*" if meth == "mul" else "/"))
    return n


# ---------------------------------------------------------------------- U7 table facts convert_to relies on
SI_PREFIX = {"yotta": 1e24, "zetta": 1e21, "exa": 1e18, "peta": 1e15, "tera": 1e12, "giga": 1e9, "mega": 1e6, "kilo": 1e3, "hecto": 1e2, "deca": 1e1, "deka": 1e1,
             "deci": 1e-1, "centi": 1e-2, "milli": 1e-3, "micro": 1e-6, "nano": 1e-9, "pico": 1e-12, "femto": 1e-15}
# names whose composition is not what the words say, with the reason (reviewed one by one)
NAME_EXCEPTIONS = {
    "kilobyte": "binary prefix by convention (1024)", "megabyte": "binary prefix by convention", "gigabyte": "binary prefix by convention",
    "terabyte": "binary prefix by convention", "petabyte": "binary prefix by convention",
    "pounds_per_square_inch": "the pound of psi is pound-force, not the mass unit `pound`",
}


def check_table(ctx, rep):
    """facts of the unit table the arithmetic relies on, evaluated for every unit: (a) finite non-zero scale (convert_to divides by
    it); (b) a name made of an SI prefix and another unit's name has that unit's scale times the prefix; (c) a name `a_per_b`
    whose parts are units has scale(a) / scale(b) and dimension dim(a) - dim(b). (b) and (c) are internal consistency of the
    table: two entries that contradict each other cannot both be the physical conversion"""
    from rules import units as UN

    prog = ctx.prog
    table = UN.unit_table(prog)
    table.pop("UNITS", None)
    bad = []
    for name, u in sorted(table.items()):
        sc = u.get("scale_f")
        if sc is None or sc != sc or sc in (float("inf"), float("-inf")) or sc == 0.0:
            bad.append((name, sc))
    if bad:
        for name, sc in bad[:5]:
            rep.bad("R-DIM", "R-DIM:table:scale:%s" % name, table[name]["where"], "unit %s has scale %r: converting to it divides by that" % (name, sc))
    else:
        rep.ok("R-DIM", "table:scales-finite-nonzero", "-", "all %d units have a finite, non-zero scale (convert_to divides by it)" % len(table))
    byname = {u["ids"][0]: u for u in table.values() if u["ids"]}

    def lookup(x):
        for cand in (x, x[:-1] if x.endswith("s") else None, x[:-2] if x.endswith("es") else None):
            if cand and cand in byname:
                return byname[cand]
        return None

    npre = nper = 0
    for name, u in sorted(byname.items()):
        for p, fct in SI_PREFIX.items():
            base = byname.get(name[len(p):]) if name.startswith(p) else None
            if base is None or base["dims"] != u["dims"] or (base["offset_f"] or 0) != 0 or (u["offset_f"] or 0) != 0 or not base["scale_f"] or not u["scale_f"]:
                continue
            npre += 1
            want = base["scale_f"] * fct
            key = "table:prefix:%s" % name
            if abs(u["scale_f"] / want - 1) <= 1e-6:
                rep.ok("R-DIM", key, u["where"], "%s = %s x %g" % (name, name[len(p):], fct))
            elif name in NAME_EXCEPTIONS:
                rep.ok("R-DIM", key, u["where"], "exception: " + NAME_EXCEPTIONS[name])
            else:
                rep.bad("R-DIM", "R-DIM:" + key, u["where"], "%s has scale %g but %s has %g: by its name it is %g times that unit (%g), so converting between the two is off by a factor %g" % (name, u["scale_f"], name[len(p):], base["scale_f"], fct, want, u["scale_f"] / want))
        if "_per_" in name:
            a, b2 = name.split("_per_", 1)
            ua, ub = lookup(a), lookup(b2)
            if not (ua and ub and ua["scale_f"] and ub["scale_f"] and u["scale_f"] and ua["dims"] is not None and ub["dims"] is not None and u["dims"] is not None):
                continue
            if (ua["offset_f"] or 0) != 0 or (ub["offset_f"] or 0) != 0:
                continue
            nper += 1
            want = ua["scale_f"] / ub["scale_f"]
            dwant = tuple(x - y for x, y in zip(ua["dims"], ub["dims"]))
            key = "table:per:%s" % name
            if abs(u["scale_f"] / want - 1) <= 1e-3 and dwant == u["dims"]:
                rep.ok("R-DIM", key, u["where"], "%s = %s / %s in scale and dimension" % (name, a, b2))
            elif name in NAME_EXCEPTIONS:
                rep.ok("R-DIM", key, u["where"], "exception: " + NAME_EXCEPTIONS[name])
            else:
                rep.bad("R-DIM", "R-DIM:" + key, u["where"], "%s has scale %g / dimension %s, but %s / %s is %g / %s: the table contradicts itself, one of the conversions is not the physical one" % (name, u["scale_f"], u["dims"], a, b2, want, dwant))
    rep.floor("units named <SI prefix><unit> compared with their base unit", npre, 70)
    rep.floor("units named a_per_b compared with their parts", nper, 60)
    return len(table)


def check_unit_identity(ctx, rep):
    """Number + and - decide 'same unit' with Unit::eq: two database units are the same only if every identifying field is
    equal, so eq must read all fields of Unit (quantity, ids, dimensions, scale, offset); an eq that ignores `ids` makes every
    pair of currencies, or mL and cm3, the same unit"""
    from rules import eqrule

    prog = ctx.prog
    tab = eqrule.impl_table(prog)
    adt = U + "unit::Unit"
    ms = tab.get(adt, {})
    fields = set(eqrule.field_types(prog, adt))
    if "eq" not in ms or not fields:
        rep.gap("Unit::eq", "-", "impl or fields not found")
        return 0
    body, derived = ms["eq"]
    if derived:
        rep.ok("R-DIM", "unit-identity:eq-reads-all-fields", "-", "PartialEq for Unit is derived over %s" % sorted(fields))
        return 1
    read = eqrule.all_fields(body, prog)
    if fields <= read:
        rep.ok("R-DIM", "unit-identity:eq-reads-all-fields", body.where(), "Unit::eq compares %s" % sorted(read))
    else:
        rep.bad("R-DIM", "R-DIM:unit-identity:eq-reads-all-fields", body.where(), "Unit::eq ignores %s: distinct database units compare equal, so Number + and - accept operands of different units" % sorted(fields - read))
    return 1


# ---------------------------------------------------------------------- U8 approx_eq is symmetric
def _sym_norm(v, swap):
    """canonical text of a symbolic value with commutative operations sorted and |a - b| read as |b - a|; `swap` exchanges the two
    parameters"""
    if not v.args:
        r = repr(v)
        if swap:
            r = re.sub(r"\b_1\b", "_X", r)
            r = re.sub(r"\b_2\b", "_1", r)
            r = r.replace("_X", "_2")
        return r
    args = [_sym_norm(a, swap) for a in v.args]
    name = str(v.v)
    if v.kind == "binop" and name in ("Add", "Mul", "Eq", "Ne", "BitAnd", "BitOr", "BitXor"):
        args = sorted(args)
    elif v.kind == "call" and name.split("::")[-1] in ("min", "max") and len(args) == 2:
        args = sorted(args)
    elif v.kind == "call" and name.split("::")[-1] == "abs" and len(v.args) == 1 and v.args[0].kind == "binop" and str(v.args[0].v) == "Sub":
        inner = sorted(_sym_norm(a, swap) for a in v.args[0].args)
        return "abs(Sub(%s))" % ", ".join(inner)
    return "%s:%s(%s)" % (v.kind, name.split("::")[-1], ", ".join(args))


def check_approx_eq_symmetric(ctx, rep):
    """`approx_eq(a, b)` decides which database unit a product or quotient of units resolves to; as a notion of 'same scale' it must
    not depend on the order of its operands. Every test the function performs is, after sorting commutative operations and reading
    |a - b| as |b - a|, the same expression when a and b are exchanged. `b - a <= eps` is not: every larger scale would 'match'"""
    prog = ctx.prog
    b = prog.get("haystack::units::approx_eq")
    if b is None:
        rep.gap("approx_eq", "-", "not found")
        return 0
    tests = []
    for bi in range(b.n):
        for st in b.blocks[bi]["stmts"]:
            if st["k"] == "assign" and st["rv"]["k"] == "binop" and st["rv"]["op"] in ("Eq", "Ne", "Lt", "Le", "Gt", "Ge") and b.local_ty(st["lhs"]["l"]) == "bool":
                tests.append((bi, G.Val("binop", st["rv"]["op"], [G.describe(b, st["rv"]["a"]), G.describe(b, st["rv"]["b"])])))
    asym = []
    for bi, v in tests:
        if v is None:
            asym.append((bi, "a test whose operands are assigned on several paths"))
        elif _sym_norm(v, False) != _sym_norm(v, True):
            asym.append((bi, _sym_norm(v, False)))
    if len(tests) >= 2 and not asym:
        rep.ok("R-DIM", "approx_eq:symmetric", b.where(), "all %d tests are invariant under exchanging the operands" % len(tests))
    elif asym:
        rep.bad("R-DIM", "R-DIM:approx_eq:symmetric", b.where(asym[0][0]), "approx_eq tests %s, which changes when its operands are exchanged: whether two scales 'match' depends on which is larger" % asym[0][1][:160])
    else:
        rep.bad("R-DIM", "R-DIM:approx_eq:symmetric", b.where(), "approx_eq performs %d comparisons, expected the exact test and the tolerance test" % len(tests))
    return 1
