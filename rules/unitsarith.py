"""C16: the dimension-algebra skeleton of unit conversion and Number arithmetic.

What is decided is the *shape* of the arithmetic, as a necessary condition of dimensional soundness:
which fields are combined with which operator, under which guard, and which results may be returned.
Numerical accuracy and the name-matching fall-backs of Unit * / are not decided."""
import re

from rules import guards as G
from vlib import mir
from vlib.mir import strip_generics

U = "haystack::units::"


# ---------------------------------------------------------------------- tiny exact algebra: rational functions over named leaves
class Poly(dict):
    """monomial (sorted tuple of (var, power)) -> integer coefficient"""

    @staticmethod
    def const(c):
        p = Poly()
        if c:
            p[()] = c
        return p

    @staticmethod
    def var(v):
        p = Poly()
        p[((v, 1),)] = 1
        return p

    def add(self, o, sign=1):
        r = Poly(self)
        for m, c in o.items():
            r[m] = r.get(m, 0) + sign * c
            if r[m] == 0:
                del r[m]
        return r

    def mul(self, o):
        r = Poly()
        for m1, c1 in self.items():
            for m2, c2 in o.items():
                d = dict(m1)
                for v, k in m2:
                    d[v] = d.get(v, 0) + k
                m = tuple(sorted(d.items()))
                r[m] = r.get(m, 0) + c1 * c2
                if r[m] == 0:
                    del r[m]
        return r


class Frac:
    def __init__(self, num, den=None):
        self.n = num
        self.d = den if den is not None else Poly.const(1)

    def __eq__(self, o):
        return self.n.mul(o.d) == o.n.mul(self.d)

    @staticmethod
    def of(val, leaf):
        """Val tree (binop Add/Sub/Mul/Div over leaves) -> Frac, or None if another operator occurs"""
        if val.kind == "binop" and val.v in ("Add", "Sub", "Mul", "Div") and len(val.args) == 2:
            a, b = Frac.of(val.args[0], leaf), Frac.of(val.args[1], leaf)
            if a is None or b is None:
                return None
            if val.v == "Add":
                return Frac(a.n.mul(b.d).add(b.n.mul(a.d)), a.d.mul(b.d))
            if val.v == "Sub":
                return Frac(a.n.mul(b.d).add(b.n.mul(a.d), -1), a.d.mul(b.d))
            if val.v == "Mul":
                return Frac(a.n.mul(b.n), a.d.mul(b.d))
            return Frac(a.n.mul(b.d), a.d.mul(b.n))
        if val.kind == "const":
            return Frac(Poly.const(int(val.v)))
        name = leaf(val)
        if name is None:
            return None
        return Frac(Poly.var(name))


def _leaf_namer(mapping):
    def leaf(val):
        r = repr(val)
        for pat, name in mapping:
            if re.fullmatch(pat, r):
                return name
        return None
    return leaf


def _ret_payload(body, variant):
    """[(block, Val of payload)] for every `_0 = <variant>(payload)`"""
    out = []
    for bi in range(body.n):
        for st in body.blocks[bi]["stmts"]:
            if st["k"] == "assign" and not st["lhs"]["p"] and st["lhs"]["l"] == 0 and st["rv"]["k"] == "agg" and st["rv"].get("variant") == variant:
                out.append((bi, G.describe(body, st["rv"]["ops"][0]) if st["rv"]["ops"] else None))
    return out


def _impl_body(prog, trait, adt_suffix, name, rhs=None):
    for b in prog.bodies.values():
        im = b.rec.get("impl") or {}
        if b.rec["kind"] != "Closure" and b.rec.get("name") == name and (im.get("trait") or "").startswith(trait) and (im.get("self_ty") or im.get("self_adt") or "").endswith(adt_suffix):
            return b
    return None


# ---------------------------------------------------------------------- U1 field-wise dimension vectors
def check_dimension_vectors(ctx, rep):
    prog = ctx.prog
    n = 0
    dim_adt = U + "unit_dimension::UnitDimensions"
    fields = [f["name"] for f in prog.adts[dim_adt]["variants"][0]["fields"]] if dim_adt in prog.adts else []
    rep.floor("base dimensions of UnitDimensions", len(fields), 7)
    for trait, meth, op in (("std::ops::Add", "add", "Add"), ("std::ops::Sub", "sub", "Sub")):
        b = _impl_body(prog, trait, "UnitDimensions", meth)
        if b is None:
            rep.gap("UnitDimensions::%s" % meth, "-", "impl not found")
            continue
        agg = None
        for bi in range(b.n):
            for st in b.blocks[bi]["stmts"]:
                if st["k"] == "assign" and not st["lhs"]["p"] and st["lhs"]["l"] == 0 and st["rv"]["k"] == "agg" and st["rv"].get("adt") == dim_adt:
                    agg = (bi, st["rv"])
        if agg is None:
            rep.gap("UnitDimensions::%s result" % meth, b.where(), "result aggregate not found")
            continue
        bi, rv = agg
        for f, o in zip(rv["fields"], rv["ops"]):
            n += 1
            v = G.describe(b, o)
            key = "dimension-%s:%s" % (meth, f)
            want = ("_1.%s" % f, "_2.%s" % f)
            got = (repr(v.args[0]), repr(v.args[1])) if v.kind == "binop" and len(v.args) == 2 else None
            if v.kind == "binop" and v.v == op and got == want:
                rep.ok("R-DIM", key, b.where(bi), "%s = self.%s %s other.%s" % (f, f, "+" if op == "Add" else "-", f))
            else:
                rep.bad("R-DIM", "R-DIM:" + key, b.where(bi), "UnitDimensions::%s computes .%s as %s, expected self.%s %s other.%s: products / quotients of units get the wrong dimension" % (meth, f, v, f, "+" if op == "Add" else "-", f))
        missing = [f for f in fields if f not in rv["fields"]]
        if missing:
            rep.bad("R-DIM", "R-DIM:dimension-%s:missing" % meth, b.where(bi), "fields %s are not set" % missing)
    return n


# ---------------------------------------------------------------------- U2 / U3 convert_to
def check_convert(ctx, rep):
    prog = ctx.prog
    b = prog.get(U + "unit::Unit::convert_to")
    if b is None:
        rep.gap("Unit::convert_to", "-", "not found")
        return 0
    n = 0
    oks = _ret_payload(b, "Ok")
    errs = _ret_payload(b, "Err")
    if len(oks) != 1 or not errs:
        rep.gap("Unit::convert_to results", b.where(), "expected one Ok and at least one Err result, found %d / %d" % (len(oks), len(errs)))
        return 0
    okb, val = oks[0]
    # U3 formula, compared as a rational function (any algebraically equal rearrangement is the same formula)
    leaf = _leaf_namer([(r"_2", "x"), (r"_1\*\.scale", "sa"), (r"_1\*\.offset", "oa"), (r"_3\*\.scale", "sb"), (r"_3\*\.offset", "ob")])
    got = Frac.of(val, leaf)
    x, sa, oa, sb, ob = (Poly.var(v) for v in ("x", "sa", "oa", "sb", "ob"))
    want = Frac(x.mul(sa).add(oa).add(ob, -1), sb)
    n += 1
    if got is not None and got == want:
        rep.ok("R-DIM", "convert:formula", b.where(okb), "result = (x * self.scale + self.offset - to.offset) / to.scale (as a rational function)")
    else:
        rep.bad("R-DIM", "R-DIM:convert:formula", b.where(okb), "convert_to returns %s, which is not (x * self.scale + self.offset - to.offset) / to.scale: the conversion is not the affine map between the two units (nor its own inverse the other way)" % repr(val)[:160])
    # U2 the guard: Ok only with equal dimensions or two byte units; Err only with different dimensions
    n += 1
    dims_ne = None
    for bi in range(b.n):
        t = b.term(bi)
        if t["k"] == "switch":
            d = G.describe(b, t["op"])
            r = repr(d)
            if d.kind == "call" and (d.v.endswith("PartialEq::ne") or d.v.endswith("PartialEq>::ne") or d.v.endswith("PartialEq::eq") or d.v.endswith("PartialEq>::eq")) and "_1*.dimensions" in r and "_3*.dimensions" in r:
                dims_ne = (bi, d.v.endswith("ne"), t)
    if dims_ne is None:
        rep.bad("R-DIM", "R-DIM:convert:dimension-guard", b.where(), "convert_to never compares self.dimensions with to.dimensions: quantities of different dimensions convert into each other")
    else:
        sw, is_ne, t = dims_ne
        vals = {int(v): tb for v, tb in t["targets"]}
        differ_edge = (t["otherwise"] if 0 in vals else vals.get(1)) if is_ne else vals.get(0)
        same_edge = vals.get(0) if is_ne else (t["otherwise"] if 0 in vals else vals.get(1))
        err_blocks = {bi for bi, _ in errs}
        r_differ = b.reachable(differ_edge) if differ_edge is not None else set()
        r_same = b.reachable(same_edge) if same_edge is not None else set()
        ok_from_differ = okb in r_differ
        err_from_same = bool(err_blocks & r_same)
        if not ok_from_differ and not err_from_same and okb in r_same and (err_blocks & r_differ):
            rep.ok("R-DIM", "convert:dimension-guard", b.where(sw), "different dimensions lead only to Err, equal dimensions only to Ok")
        else:
            rep.bad("R-DIM", "R-DIM:convert:dimension-guard", b.where(sw), "the dimension test does not separate success from failure (Ok reachable with different dimensions: %s; Err reachable with equal dimensions: %s)" % (ok_from_differ, err_from_same))
        # the only way around the dimension test is the byte-unit escape on *both* units
        n += 1
        around = []
        paths = []

        def walk(x, conds, seen):
            if x == okb:
                paths.append(conds)
                return
            if x == sw or x in seen or len(paths) > 64:
                return
            tt = b.term(x)
            if tt["k"] == "switch":
                sc = G.switch_conditions(b, x)
                for y in set([tb for _v, tb in tt["targets"]] + [tt["otherwise"]]):
                    walk(y, conds + sc.get(y, []), seen | {x})
            else:
                for y in b.succ(x):
                    walk(y, conds, seen | {x})

        walk(0, [], frozenset())
        for conds in paths:
            who = {repr(g.a.args[0]) for g in conds if g.op == "True" and g.a is not None and g.a.kind == "call" and g.a.v.endswith("Unit::is_byte_unit") and g.a.args}
            if not ({"_1*", "_3*"} <= who):
                around.append((0, sorted(who)))
        if around:
            rep.bad("R-DIM", "R-DIM:convert:byte-escape", b.where(around[0][0]), "the dimension test can be bypassed without both units being byte units (is_byte_unit holds for %s only)" % around[0][1])
        else:
            rep.ok("R-DIM", "convert:byte-escape", b.where(sw), "the dimension test is skipped only when self and to are both byte units")
    return n


# ---------------------------------------------------------------------- U4 / U5 products and quotients of units
def check_unit_products(ctx, rep):
    prog = ctx.prog
    n = 0
    for trait, meth, dimop, sop in (("std::ops::Mul", "mul", "Add>::add", "Mul"), ("std::ops::Div", "div", "Sub>::sub", "Div")):
        b = _impl_body(prog, trait, "unit::Unit", meth)
        if b is None:
            rep.gap("Unit::%s" % meth, "-", "impl not found")
            continue
        mu = [(bi, t) for bi, t in b.calls() if strip_generics(mir.callee_name(t) or "").endswith("units::match_units")]
        if len(mu) != 1:
            rep.gap("Unit::%s: match_units call" % meth, b.where(), "expected one call, found %d" % len(mu))
            continue
        bi, t = mu[0]
        dim, scale = G.describe(b, t["args"][0]), G.describe(b, t["args"][1])
        n += 1
        key = "unit-%s:dimension" % meth
        rd = repr(dim)
        m = re.search(r"UnitDimensions as std::ops::(Add>::add|Sub>::sub)\((.*)\)$", rd)
        okd = False
        if dim.kind == "call" and dim.v.endswith("UnitDimensions as std::ops::" + dimop) and len(dim.args) == 2:
            a0, a1 = repr(dim.args[0]), repr(dim.args[1])
            # operands are the Some payloads of (self.dimensions, other.dimensions), in that order
            okd = bool(re.search(r"(^|[^0-9])(_\d+\.0|_1\*?\.dimensions)", a0)) and bool(re.search(r"(_\d+\.1|_2\*?\.dimensions)", a1)) and a0 != a1
        if okd:
            rep.ok("R-DIM", key, b.where(bi), "looked-up dimension = self.dimensions %s other.dimensions" % ("+" if meth == "mul" else "-"))
        else:
            rep.bad("R-DIM", "R-DIM:" + key, b.where(bi), "Unit %s looks up dimension %s, expected self.dimensions %s other.dimensions (in that order)" % (meth, rd[:120], "+" if meth == "mul" else "-"))
        n += 1
        key = "unit-%s:scale" % meth
        if scale.kind == "binop" and scale.v == sop and repr(scale.args[0]) == "_1*.scale" and repr(scale.args[1]) == "_2*.scale":
            rep.ok("R-DIM", key, b.where(bi), "looked-up scale = self.scale %s other.scale" % ("*" if meth == "mul" else "/"))
        else:
            rep.bad("R-DIM", "R-DIM:" + key, b.where(bi), "Unit %s looks up scale %s, expected self.scale %s other.scale" % (meth, scale, "*" if meth == "mul" else "/"))
        # every Ok result is an element of what match_units returned
        n += 1
        key = "unit-%s:result-from-matches" % meth
        bad = []
        for okb, val in _ret_payload(b, "Ok"):
            r = repr(val)
            m2 = re.match(r"^_(\d+)(\*| as Some\.0|\.\d+)*$", r)
            if m2:
                r = repr(G.describe_place(b, {"l": int(m2.group(1)), "p": []}))
            if "match_units" not in r:
                bad.append((okb, r[:100]))
        if bad:
            rep.bad("R-DIM", "R-DIM:" + key, b.where(bad[0][0]), "Unit %s can return %s, which is not one of the units match_units found for the computed dimension and scale" % (meth, bad[0][1]))
        else:
            rep.ok("R-DIM", key, b.where(bi), "every Ok result is an element of match_units(dim, scale)")
    # U5 match_units keeps a unit only if dimension and scale both match
    mb = prog.get(U + "match_units")
    if mb is None:
        rep.gap("match_units", "-", "not found")
        return n
    n += 1
    okc = False
    why = "no filtering closure found"
    for cid in prog.closures_of.get(mb.id, []):
        cb = prog.bodies[cid]
        somes = _ret_payload(cb, "Some")
        if not somes:
            continue
        why = "the Some(unit) result is not guarded by both tests"
        for sb, _v in somes:
            gs = G.guards_at(cb, sb)
            dim_ok = any(g.op == "True" and g.a is not None and g.a.kind == "call" and g.a.v.endswith("::eq") and ".dimensions" in repr(g.a) for g in gs)
            sc_ok = any(g.op == "True" and g.a is not None and g.a.kind == "call" and g.a.v.endswith("units::approx_eq") and ".scale" in repr(g.a) for g in gs)
            if dim_ok and sc_ok:
                okc = True
    if okc:
        rep.ok("R-DIM", "match_units:filter", mb.where(), "a unit is kept only if its dimensions equal the wanted ones and its scale is approx_eq")
    else:
        rep.bad("R-DIM", "R-DIM:match_units:filter", mb.where(), "match_units: %s" % why)
    return n


# ---------------------------------------------------------------------- U6 Number + - * /
def check_number_ops(ctx, rep):
    prog = ctx.prog
    n = 0
    for trait, meth, op in (("std::ops::Add", "add", "Add"), ("std::ops::Sub", "sub", "Sub"), ("std::ops::Mul", "mul", "Mul"), ("std::ops::Div", "div", "Div")):
        b = _impl_body(prog, trait, "number::Number", meth)
        if b is None:
            rep.gap("Number::%s" % meth, "-", "impl not found")
            continue
        # value
        n += 1
        key = "number-%s:value" % meth
        mk = [(bi, t) for bi, t in b.calls() if strip_generics(mir.callee_name(t) or "").endswith("Number::make_with_unit")]
        vals = [G.describe(b, t["args"][0]) for _bi, t in mk]
        good = bool(vals) and all(v.kind == "binop" and v.v == op and repr(v.args[0]) == "_1.value" and repr(v.args[1]) == "_2.value" for v in vals)
        if good:
            rep.ok("R-DIM", key, b.where(mk[0][0]), "value = self.value %s other.value" % {"Add": "+", "Sub": "-", "Mul": "*", "Div": "/"}[op])
        else:
            rep.bad("R-DIM", "R-DIM:" + key, b.where(mk[0][0]) if mk else b.where(), "Number::%s computes %s, expected self.value %s other.value" % (meth, [repr(v) for v in vals], {"Add": "+", "Sub": "-", "Mul": "*", "Div": "/"}[op]))
        errs = _ret_payload(b, "Err")
        if meth in ("add", "sub"):
            # fails exactly for two different units: the Err result lies under unit != unit, self.unit is Some, other.unit is Some
            n += 1
            key = "number-%s:fails-for-different-units" % meth
            ok_all = bool(errs)
            why = "no Err result"
            for eb, _v in errs:
                gs = G.guards_at(b, eb)
                differ = any(g.op == "False" and g.a is not None and g.a.kind == "call" and g.a.v.endswith("::eq") and "_1.unit" in repr(g.a) and "_2.unit" in repr(g.a) for g in gs)
                s_some = any(g.op == "False" and g.a is not None and g.a.kind == "call" and g.a.v.endswith("Option::is_none") and "_1.unit" in repr(g.a) for g in gs)
                o_some = any(g.op == "False" and g.a is not None and g.a.kind == "call" and g.a.v.endswith("Option::is_none") and "_2.unit" in repr(g.a) for g in gs)
                if not (differ and s_some and o_some):
                    ok_all = False
                    why = "an Err result is not confined to `units differ and both are present` (differ=%s self-present=%s other-present=%s)" % (differ, s_some, o_some)
            # and equal units never fail: no Err reachable from the equal edge
            for bi in range(b.n):
                t = b.term(bi)
                if t["k"] == "switch":
                    d = G.describe(b, t["op"])
                    if d.kind == "call" and d.v.endswith("::eq") and "_1.unit" in repr(d) and "_2.unit" in repr(d):
                        tv = {int(v): tb for v, tb in t["targets"]}
                        eq_edge = t["otherwise"] if 0 in tv else tv.get(1)
                        if eq_edge is not None and any(eb in b.reachable(eq_edge) for eb, _ in errs):
                            ok_all = False
                            why = "Err is reachable although the units are equal"
            if ok_all:
                rep.ok("R-DIM", key, b.where(errs[0][0]), "Err exactly on the path `units differ, both present`")
            else:
                rep.bad("R-DIM", "R-DIM:" + key, b.where(errs[0][0]) if errs else b.where(), "Number::%s: %s" % (meth, why))
            # the unit of the result is one of the operands' units
            n += 1
            key = "number-%s:keeps-unit" % meth
            units = []
            for _bi, t in mk:
                u = G.describe(b, t["args"][1])
                # unit.unwrap_or(&DEFAULT_UNIT) where `unit` is assigned self.unit / other.unit in the branches
                if u.kind == "call" and u.v.endswith("Option::unwrap_or") and u.args and re.fullmatch(r"_\d+", repr(u.args[0])):
                    l = int(repr(u.args[0])[1:])
                    for _db, si, rv in b.defs().get(l, []):
                        units.append(repr(G.describe(b, rv["op"])) if si != "term" and rv["k"] == "use" else "?")
                else:
                    units.append(repr(u))
            if units and all(("_1.unit" in u or "_2.unit" in u) for u in units):
                rep.ok("R-DIM", key, b.where(mk[0][0]), "the result carries self.unit / other.unit")
            else:
                rep.bad("R-DIM", "R-DIM:" + key, b.where(), "the unit of the result is %s, not one of the operands' units" % units)
        else:
            n += 1
            key = "number-%s:unit-from-unit-%s" % (meth, meth)
            want = "Unit as std::ops::%s" % ("Mul" if meth == "mul" else "Div")
            uc = [(bi, t) for bi, t in b.calls() if want in strip_generics(mir.callee_name(t) or "")]
            good = False
            if len(uc) == 1:
                a0, a1 = repr(G.describe(b, uc[0][1]["args"][0])), repr(G.describe(b, uc[0][1]["args"][1]))
                good = "_1.unit" in a0 and "_2.unit" in a1 and "_2.unit" not in a0 and "_1.unit" not in a1
            if good:
                rep.ok("R-DIM", key, b.where(uc[0][0]), "two units combine through Unit %s Unit with self on the left" % ("*" if meth == "mul" else "/"))
            else:
                rep.bad("R-DIM", "R-DIM:" + key, b.where(), "Number::%s does not combine the units as self.unit %s other.unit" % (meth, "*" if meth == "mul" else "/"))
    return n


# ---------------------------------------------------------------------- U7 table facts convert_to relies on
SI_PREFIX = {"yotta": 1e24, "zetta": 1e21, "exa": 1e18, "peta": 1e15, "tera": 1e12, "giga": 1e9, "mega": 1e6, "kilo": 1e3, "hecto": 1e2, "deca": 1e1, "deka": 1e1,
             "deci": 1e-1, "centi": 1e-2, "milli": 1e-3, "micro": 1e-6, "nano": 1e-9, "pico": 1e-12, "femto": 1e-15}
# names whose composition is not what the words say, with the reason (reviewed one by one)
NAME_EXCEPTIONS = {
    "kilobyte": "binary prefix by convention (1024)", "megabyte": "binary prefix by convention", "gigabyte": "binary prefix by convention",
    "terabyte": "binary prefix by convention", "petabyte": "binary prefix by convention",
    "pounds_per_square_inch": "the pound of psi is pound-force, not the mass unit `pound`",
}


def check_table(ctx, rep):
    """facts of the unit table the arithmetic relies on, evaluated for every unit: (a) finite non-zero scale (convert_to divides by
    it); (b) a name made of an SI prefix and another unit's name has that unit's scale times the prefix; (c) a name `a_per_b`
    whose parts are units has scale(a) / scale(b) and dimension dim(a) - dim(b). (b) and (c) are internal consistency of the
    table: two entries that contradict each other cannot both be the physical conversion"""
    from rules import units as UN

    prog = ctx.prog
    table = UN.unit_table(prog)
    table.pop("UNITS", None)
    bad = []
    for name, u in sorted(table.items()):
        sc = u.get("scale_f")
        if sc is None or sc != sc or sc in (float("inf"), float("-inf")) or sc == 0.0:
            bad.append((name, sc))
    if bad:
        for name, sc in bad[:5]:
            rep.bad("R-DIM", "R-DIM:table:scale:%s" % name, table[name]["where"], "unit %s has scale %r: converting to it divides by that" % (name, sc))
    else:
        rep.ok("R-DIM", "table:scales-finite-nonzero", "-", "all %d units have a finite, non-zero scale (convert_to divides by it)" % len(table))
    byname = {u["ids"][0]: u for u in table.values() if u["ids"]}

    def lookup(x):
        for cand in (x, x[:-1] if x.endswith("s") else None, x[:-2] if x.endswith("es") else None):
            if cand and cand in byname:
                return byname[cand]
        return None

    npre = nper = 0
    for name, u in sorted(byname.items()):
        for p, fct in SI_PREFIX.items():
            base = byname.get(name[len(p):]) if name.startswith(p) else None
            if base is None or base["dims"] != u["dims"] or (base["offset_f"] or 0) != 0 or (u["offset_f"] or 0) != 0 or not base["scale_f"] or not u["scale_f"]:
                continue
            npre += 1
            want = base["scale_f"] * fct
            key = "table:prefix:%s" % name
            if abs(u["scale_f"] / want - 1) <= 1e-6:
                rep.ok("R-DIM", key, u["where"], "%s = %s x %g" % (name, name[len(p):], fct))
            elif name in NAME_EXCEPTIONS:
                rep.ok("R-DIM", key, u["where"], "exception: " + NAME_EXCEPTIONS[name])
            else:
                rep.bad("R-DIM", "R-DIM:" + key, u["where"], "%s has scale %g but %s has %g: by its name it is %g times that unit (%g), so converting between the two is off by a factor %g" % (name, u["scale_f"], name[len(p):], base["scale_f"], fct, want, u["scale_f"] / want))
        if "_per_" in name:
            a, b2 = name.split("_per_", 1)
            ua, ub = lookup(a), lookup(b2)
            if not (ua and ub and ua["scale_f"] and ub["scale_f"] and u["scale_f"] and ua["dims"] is not None and ub["dims"] is not None and u["dims"] is not None):
                continue
            if (ua["offset_f"] or 0) != 0 or (ub["offset_f"] or 0) != 0:
                continue
            nper += 1
            want = ua["scale_f"] / ub["scale_f"]
            dwant = tuple(x - y for x, y in zip(ua["dims"], ub["dims"]))
            key = "table:per:%s" % name
            if abs(u["scale_f"] / want - 1) <= 1e-3 and dwant == u["dims"]:
                rep.ok("R-DIM", key, u["where"], "%s = %s / %s in scale and dimension" % (name, a, b2))
            elif name in NAME_EXCEPTIONS:
                rep.ok("R-DIM", key, u["where"], "exception: " + NAME_EXCEPTIONS[name])
            else:
                rep.bad("R-DIM", "R-DIM:" + key, u["where"], "%s has scale %g / dimension %s, but %s / %s is %g / %s: the table contradicts itself, one of the conversions is not the physical one" % (name, u["scale_f"], u["dims"], a, b2, want, dwant))
    rep.floor("units named <SI prefix><unit> compared with their base unit", npre, 70)
    rep.floor("units named a_per_b compared with their parts", nper, 60)
    return len(table)


def check_unit_identity(ctx, rep):
    """Number + and - decide 'same unit' with Unit::eq: two database units are the same only if every identifying field is
    equal, so eq must read all fields of Unit (quantity, ids, dimensions, scale, offset); an eq that ignores `ids` makes every
    pair of currencies, or mL and cm3, the same unit"""
    from rules import eqrule

    prog = ctx.prog
    tab = eqrule.impl_table(prog)
    adt = U + "unit::Unit"
    ms = tab.get(adt, {})
    fields = set(eqrule.field_types(prog, adt))
    if "eq" not in ms or not fields:
        rep.gap("Unit::eq", "-", "impl or fields not found")
        return 0
    body, derived = ms["eq"]
    if derived:
        rep.ok("R-DIM", "unit-identity:eq-reads-all-fields", "-", "PartialEq for Unit is derived over %s" % sorted(fields))
        return 1
    read = eqrule.all_fields(body, prog)
    if fields <= read:
        rep.ok("R-DIM", "unit-identity:eq-reads-all-fields", body.where(), "Unit::eq compares %s" % sorted(read))
    else:
        rep.bad("R-DIM", "R-DIM:unit-identity:eq-reads-all-fields", body.where(), "Unit::eq ignores %s: distinct database units compare equal, so Number + and - accept operands of different units" % sorted(fields - read))
    return 1
