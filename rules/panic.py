"""R-PANIC: no reachable panic site (DESIGN 2.1)."""
import re

from vlib import mir
from vlib.mir import callee_of, op_const, op_place, strip_generics

ASSERT_KINDS = ("BoundsCheck", "Overflow", "OverflowNeg", "DivisionByZero", "RemainderByZero")
NOISE_ASSERTS = ("NullPointerDereference", "MisalignedPointerDereference")

# may-panic API table (callee path with generics stripped -> class)
MAY_PANIC = {
    "std::option::Option::unwrap": "unwrap",
    "std::option::Option::expect": "unwrap",
    "std::result::Result::unwrap": "unwrap",
    "std::result::Result::expect": "unwrap",
    "std::result::Result::unwrap_err": "unwrap",
    "std::result::Result::expect_err": "unwrap",
    "std::option::Option::unwrap_unchecked": "unwrap",
    "<std::string::String as std::ops::Index>::index": "str-index",
    "<std::string::String as std::ops::IndexMut>::index_mut": "str-index",
    "core::str::traits::<impl std::ops::Index for str>::index": "str-index",
    "core::str::traits::<impl std::ops::IndexMut for str>::index_mut": "str-index",
    "<std::vec::Vec as std::ops::Index>::index": "vec-index",
    "<std::vec::Vec as std::ops::IndexMut>::index_mut": "vec-index",
    "core::slice::index::<impl std::ops::Index for [T]>::index": "vec-index",
    "core::slice::index::<impl std::ops::IndexMut for [T]>::index_mut": "vec-index",
    "<std::collections::BTreeMap as std::ops::Index>::index": "map-index",
    "<std::collections::HashMap as std::ops::Index>::index": "map-index",
    "std::vec::Vec::remove": "vec-pos",
    "std::vec::Vec::insert": "vec-pos",
    "std::vec::Vec::swap_remove": "vec-pos",
    "std::vec::Vec::drain": "vec-pos",
    "std::vec::Vec::split_off": "vec-pos",
    "std::vec::Vec::truncate": None,
    "std::string::String::remove": "str-pos",
    "std::string::String::truncate": "str-pos",
    "std::string::String::insert": "str-pos",
    "std::string::String::insert_str": "str-pos",
    "std::string::String::split_off": "str-pos",
    "std::string::String::drain": "str-pos",
    "std::string::String::replace_range": "str-pos",
    "core::str::<impl str>::split_at": "str-pos",
    "core::slice::<impl [T]>::split_at": "vec-pos",
    "core::slice::<impl [T]>::copy_from_slice": "vec-pos",
    "core::slice::<impl [T]>::chunks": "vec-pos",
    "core::slice::<impl [T]>::windows": "vec-pos",
    "core::slice::<impl [T]>::swap": "vec-pos",
    "std::cell::RefCell::borrow": "refcell",
    "std::cell::RefCell::borrow_mut": "refcell",
    "chrono::TimeDelta::hours": "chrono-range",
    "chrono::TimeDelta::minutes": "chrono-range",
    "chrono::TimeDelta::seconds": "chrono-range",
    "chrono::TimeDelta::days": "chrono-range",
    "chrono::TimeDelta::weeks": "chrono-range",
    "chrono::TimeDelta::milliseconds": "chrono-range",
    "<chrono::TimeDelta as std::ops::Add>::add": "chrono-range",
    "<chrono::TimeDelta as std::ops::Sub>::sub": "chrono-range",
    "<chrono::DateTime as std::ops::Add>::add": "chrono-range",
    "<chrono::DateTime as std::ops::Sub>::sub": "chrono-range",
    "<chrono::NaiveDateTime as std::ops::Add>::add": "chrono-range",
    "<chrono::NaiveDateTime as std::ops::Sub>::sub": "chrono-range",
    "chrono::NaiveDate::from_ymd": "chrono-range",
    "chrono::NaiveTime::from_hms": "chrono-range",
    "chrono::FixedOffset::east": "chrono-range",
    "chrono::FixedOffset::west": "chrono-range",
    "chrono::TimeZone::ymd": "chrono-range",
    "chrono::offset::LocalResult::unwrap": "unwrap",
    # documented: panic when the UTC offset pushes the local date-time out of NaiveDateTime's range (chrono 0.4.39 datetime/mod.rs)
    "chrono::DateTime::naive_local": "chrono-local-range",
    "chrono::DateTime::date_naive": "chrono-local-range",
    "chrono::DateTime::date": "chrono-local-range",
    "chrono::DateTime::to_rfc3339": "chrono-local-range",
    "chrono::DateTime::to_rfc3339_opts": "chrono-local-range",
    "chrono::DateTime::to_rfc2822": "chrono-local-range",
    "std::fmt::format": "fmt-to-string",
    "<T as std::string::ToString>::to_string": "fmt-to-string",
    "std::iter::Iterator::step_by": "vec-pos",
    "std::char::methods::<impl char>::encode_utf8": "buf-size",
    "std::char::methods::<impl char>::encode_utf16": "buf-size",
    "std::option::Option::unwrap_or_else": None,
}
MAY_PANIC = {k: v for k, v in MAY_PANIC.items() if v}
PANIC_FNS = re.compile(
    r"^(core::panicking::|std::rt::begin_panic|std::rt::panic_|std::panicking::|core::option::expect_failed|core::option::unwrap_failed|"
    r"core::result::unwrap_failed|std::process::abort|std::process::exit|core::intrinsics::abort)"
)


class Site:
    __slots__ = ("body", "block", "kind", "cls", "what", "key", "line", "term")

    def __init__(self, body, block, kind, cls, what, term):
        self.body = body
        self.block = block
        self.kind = kind  # 'assert' | 'call'
        self.cls = cls
        self.what = what
        self.term = term
        self.line = term.get("line", body.line)
        self.key = None

    def where(self):
        return "%s:%d" % (self.body.file, self.line)


def sites_of(body):
    """all potential panic sites of one body (normal blocks only), with stable keys"""
    out = []
    for bi, blk in enumerate(body.blocks):
        if blk.get("cleanup"):
            continue
        t = blk["term"]
        if t["k"] == "assert":
            if t["msg"] in NOISE_ASSERTS:
                continue
            cls = t["msg"]
            what = cls
            if cls == "Overflow":
                what = "Overflow(%s)" % t["detail"].get("op", "?")
            out.append(Site(body, bi, "assert", cls if cls in ASSERT_KINDS else "assert-other", what, t))
        elif t["k"] in ("call", "tailcall"):
            c = callee_of(t)
            if c is None:
                continue
            name = strip_generics(c.get("res") or c["fn"])
            gname = strip_generics(c["fn"])
            if PANIC_FNS.match(name) or PANIC_FNS.match(gname):
                out.append(Site(body, bi, "call", "explicit-panic", name, t))
                continue
            cls = MAY_PANIC.get(name) or MAY_PANIC.get(gname)
            if cls:
                out.append(Site(body, bi, "call", cls, name, t))
    # stable keys: function : class/what : ordinal among equal (what) in block order
    seen = {}
    for s in out:
        base = "%s:%s" % (body.short, s.what)
        n = seen.get(base, 0)
        seen[base] = n + 1
        s.key = "%s#%d" % (base, n)
    return out


# ====================================================================== discharge

import json
import os

from rules import guards as G
from vlib import fmtargs
from vlib.dataflow import forward

LEN_FNS = (
    "std::vec::Vec::len",
    "core::str::<impl str>::len",
    "std::string::String::len",
    "std::collections::BTreeMap::len",
    "core::slice::<impl [T]>::len",
    "len",
)
TABLE = os.path.join(os.path.dirname(os.path.dirname(os.path.abspath(__file__))), "tables", "panic_discharge.json")


def _contains_token(hay, needle):
    """needle occurs in hay as a whole place (not as the prefix of a longer place)"""
    i = hay.find(needle)
    while i >= 0:
        j = i + len(needle)
        before_ok = i == 0 or not (hay[i - 1].isalnum() or hay[i - 1] in "_.*")
        after_ok = j >= len(hay) or not (hay[j].isalnum() or hay[j] in "_.*[ ")
        if j < len(hay) and hay[j : j + 4] == " as ":
            after_ok = False
        if before_ok and after_ok:
            return True
        i = hay.find(needle, i + 1)
    return False


def is_len_of(v, r):
    return v.kind == "call" and v.v in LEN_FNS and v.args and v.args[0].same(r)


def operand_type(body, op):
    pl = mir.op_place(op)
    if pl is None:
        c = mir.op_const(op)
        return c.get("ty") if c else None
    ty = body.locals[pl["l"]]["ty"]
    for pr in pl["p"]:
        if isinstance(pr, dict) and "ty" in pr:
            ty = pr["ty"]
        elif pr == "*":
            ty = ty[1:].lstrip() if ty.startswith("&") else ty
            if ty.startswith("mut "):
                ty = ty[4:]
    return ty


class PanicRule:
    """discharges panic sites reachable from an entry set"""

    def __init__(self, ctx, parsed_timestamps_only=False):
        self.ctx = ctx
        self.prog = ctx.prog
        # properties whose inputs are text: the only DateTimes that exist are the ones the decoders build, whose years are the
        # four digits of the date token (0000-9999), far inside chrono's range; the chrono-local-range class needs a DateTime within
        # a day of chrono's +-262143-year limits
        self.parsed_timestamps_only = parsed_timestamps_only
        self.table = {}
        if os.path.exists(TABLE):
            for e in json.load(open(TABLE))["entries"]:
                self.table[e["key"]] = e
        self.used_table = set()
        self._fmt_cache = {}
        self._site_cache = {}
        self._originators = None
        self._field_writes = None

    # ------------------------------------------------------------------ public
    def run(self, entries, rep, label="", data_bounded=False, skip_bodies=()):
        prog = self.prog
        reach, parent = prog.reachable_from(entries)
        rep.analysed.setdefault("panic_entries", 0)
        rep.analysed["panic_entries"] += len(entries)
        rep.analysed["panic_reachable_bodies" + label] = len(reach)
        nsites = 0
        for fid in sorted(reach):
            body = prog.bodies[fid]
            if fid in skip_bodies:
                continue
            for s in self.sites(body):
                nsites += 1
                ok, how = self.discharge(s)
                if ok:
                    rep.ok("R-PANIC", s.key, s.where(), how)
                else:
                    path = prog.path_to(parent, fid)
                    rep.bad(
                        "R-PANIC",
                        "R-PANIC:" + s.key,
                        s.where(),
                        "possible panic (%s: %s) not discharged; reachable from entry %s via %s%s"
                        % (s.cls, s.what, mir.strip_generics(path[0]), " -> ".join(mir.strip_generics(x).split("::")[-1] for x in path[-4:]), ("; " + how) if how else ""),
                        {"class": s.cls, "what": s.what, "path": [mir.strip_generics(x) for x in path]},
                    )
        return reach, nsites

    def sites(self, body):
        if body.id not in self._site_cache:
            self._site_cache[body.id] = sites_of(body)
        return self._site_cache[body.id]

    # ------------------------------------------------------------------ dispatcher
    def discharge(self, s):
        b = s.body
        t = s.term
        # table first (its predicate is re-validated on every run)
        e = self.table.get(s.key)
        if e is not None:
            pred = getattr(self, "pred_" + e["predicate"], None)
            if pred is None:
                return False, "table entry names unknown predicate %s" % e["predicate"]
            ok, why = pred(s, e.get("args", {}))
            self.used_table.add(s.key)
            if ok:
                return True, "table:%s (%s)" % (e["predicate"], why)
            return False, "table predicate %s no longer holds: %s" % (e["predicate"], why)
        if s.cls == "chrono-local-range" and self.parsed_timestamps_only:
            return True, "D-domain:timestamps reaching this site were built by the decoders (years 0000-9999)"
        # predicates that establish the safety of a site from the site's own operands alone (no global invariant, no knowledge of
        # which function it is in), with the site class they speak about
        self._pred_names = {"regex_literal_valid": ("unwrap",), "find_plus_one": ("Overflow",), "slice_from_find_plus_one": ("str-index",)}
        for rule in (self.auto_const_bounds, self.auto_const_divisor, self.auto_index_guarded, self.auto_sep_in_iteration,
                     self.auto_counter, self.auto_add_under_bound, self.auto_captures_get0, self.auto_fmt, self.auto_buf_size):
            r = rule(s)
            if r:
                return True, r
        # the table names the sites that were reviewed; when code moves (a helper is extracted, a closure is renumbered) the key
        # changes but the argument does not: every table predicate validates its own applicability from the site, so it may
        # discharge a site of the same shape under a new key
        for pn, classes in sorted(self._pred_names.items()):
            pred = getattr(self, "pred_" + pn, None)
            if pred is None or s.cls not in classes:
                continue
            try:
                ok, why = pred(s, {})
            except Exception:
                continue
            if ok:
                return True, "pattern:%s (%s; site not in the reviewed table under this key)" % (pn, why)
        return False, ""

    # ------------------------------------------------------------------ automatic rules
    def auto_const_bounds(self, s):
        if s.cls != "BoundsCheck":
            return None
        d = s.term["detail"]
        ln = G.describe(s.body, d["len"])
        ix = G.describe(s.body, d["index"])
        if ln.kind == "const" and ix.kind == "const" and 0 <= ix.v < ln.v:
            return "D-auto-1:const index %d < const length %d" % (ix.v, ln.v)
        gs = G.guards_at(s.body, s.block)
        for g in gs:
            if g.op == "Lt" and g.a.same(ix) and g.b.same(ln):
                return "D-auto-1:index < len guard"
        return None

    def auto_buf_size(self, s):
        """char::encode_utf8 / encode_utf16 into a fixed array that holds the longest encoding (4 bytes / 2 units)"""
        if s.cls != "buf-size":
            return None
        need = 4 if s.what.endswith("encode_utf8") else 2
        tys = s.term.get("arg_tys", [])
        b = s.body
        # the buffer argument is `&mut [u8; N]` unsized to a slice: find the array local behind it
        if len(s.term["args"]) < 2:
            return None
        pl = op_place(s.term["args"][1])
        seen = 0
        while pl is not None and seen < 8:
            seen += 1
            ty = b.local_ty(pl["l"]) if not pl["p"] or pl["p"] == ["*"] else ""
            m = re.search(r"\[(u8|u16); (\d+)\]", ty or "")
            if m:
                n = int(m.group(2))
                if n >= need:
                    return "D-auto:buffer is a [%s; %d], the longest encoding needs %d" % (m.group(1), n, need)
                return None
            sd = b.single_def(pl["l"])
            if sd is None or sd[1] == "term":
                return None
            rv = sd[2]
            if rv["k"] in ("ref", "rawptr"):
                pl = rv["place"]
            elif rv["k"] in ("use", "cast"):
                pl = op_place(rv["op"])
            else:
                return None
        return None

    def auto_const_divisor(self, s):
        if s.cls not in ("DivisionByZero", "RemainderByZero"):
            return None
        c = G.describe(s.body, s.term["cond"])
        if c.kind == "binop" and c.v == "Eq" and all(a.kind == "const" for a in c.args):
            if c.args[0].v != c.args[1].v and s.term["expected"] is False:
                return "D-auto:constant non-zero divisor %s" % c.args[0].v
        return None

    def _mutated_between(self, body, guard_block, site_block, r):
        """some call between the guard and the site takes &mut of place r"""
        for bi in G.blocks_between(body, guard_block, site_block):
            if bi == site_block:
                continue
            t = body.term(bi)
            if t["k"] != "call":
                continue
            for a, ty in zip(t["args"], t.get("arg_tys", [])):
                if ty.startswith("&mut") and G.describe(body, a).same(r):
                    return True
        return False

    def auto_index_guarded(self, s):
        if s.cls not in ("vec-index", "vec-pos", "str-index"):
            return None
        b = s.body
        args = s.term["args"]
        if len(args) < 2:
            return None
        r = G.describe(b, args[0])
        ix = G.describe(b, args[1])
        gs = G.guards_at(b, s.block)
        insert = s.what.endswith("::insert")
        need = None  # minimal length required, for constant indices
        if ix.kind == "const":
            need = ix.v + (0 if insert else 1)
        elif ix.kind == "agg" and ix.v in ("Range", "RangeFrom", "RangeTo", "RangeInclusive") and s.cls != "str-index":
            if all(a.kind == "const" for a in ix.args):
                need = max(a.v for a in ix.args) + (1 if ix.v == "RangeInclusive" else 0)
                if ix.v == "Range" and ix.args[0].v > ix.args[1].v:
                    return None
        for g in gs:
            if need is not None:
                if g.op == "Eq" and g.b is not None and g.b.kind == "const" and is_len_of(g.a, r) and g.b.v >= need:
                    if not self._mutated_between(b, g.block, s.block, r):
                        return "D-auto-1:len == %d dominates constant index (needs >= %d)" % (g.b.v, need)
                if g.op in ("Ge", "Gt") and g.b is not None and g.b.kind == "const" and is_len_of(g.a, r):
                    have = g.b.v + (1 if g.op == "Gt" else 0)
                    if have >= need and not self._mutated_between(b, g.block, s.block, r):
                        return "D-auto-1:len >= %d dominates constant index" % have
            else:
                if g.op == "Lt" and g.a.same(ix) and is_len_of(g.b, r):
                    if not self._mutated_between(b, g.block, s.block, r):
                        return "D-auto-1:index < len() guard on the same collection dominates, no intervening &mut use"
                if g.op == "Gt" and g.b is not None and g.b.same(ix) and is_len_of(g.a, r):
                    if not self._mutated_between(b, g.block, s.block, r):
                        return "D-auto-1:len() > index guard dominates"
                if insert and g.op == "Le" and g.a.same(ix) and is_len_of(g.b, r):
                    return "D-auto-1:index <= len() guard dominates insert"
        return None

    def _closure_parent(self, body):
        """(parent body, aggregate rvalue creating this closure, block) or None"""
        if body.rec["kind"] != "Closure":
            return None
        par = self.prog.bodies.get(body.rec.get("parent"))
        if par is None:
            return None
        for bi, blk in enumerate(par.blocks):
            for st in blk["stmts"]:
                if st["k"] == "assign" and st["rv"]["k"] == "agg" and st["rv"].get("closure") == body.id:
                    return par, st["rv"], bi, st["lhs"]
        return None

    def _translate_upvar(self, body, v_repr):
        """closure place '_1*.K*rest' or '_1.K*rest' -> parent's place repr, else None"""
        import re as _re

        m = _re.match(r"^_1\*?\.(\d+)\*?(.*)$", v_repr)
        cp = self._closure_parent(body)
        if not m or not cp:
            return None
        par, agg, _bi, _lhs = cp
        k = int(m.group(1))
        if k >= len(agg["ops"]):
            return None
        base = G.describe(par, agg["ops"][k])
        return par, repr(base) + "*" + m.group(2) if not repr(base).endswith("*") or True else None

    def auto_sep_in_iteration(self, s):
        """`len(R) - 1` evaluated only while an iteration over R has just yielded an element"""
        if s.cls != "Overflow" or s.term["detail"].get("op") != "Sub":
            return None
        b = s.body
        a = G.describe(b, s.term["detail"]["a"])
        c = G.describe(b, s.term["detail"]["b"])
        if not (c.kind == "const" and c.v == 1 and a.kind == "call" and a.v in LEN_FNS and a.args):
            return None
        r = repr(a.args[0])
        for g in G.guards_at(b, s.block):
            if g.op == "Eq" and g.b is not None and g.b.kind == "const" and g.b.v == 1 and g.a.kind == "discr" and g.a.args:
                nx = g.a.args[0]
                if nx.kind == "call" and nx.v.endswith("::next") and _contains_token(repr(nx), r):
                    return "D-auto-2:len()-1 inside the body of an iteration over the same collection (%s)" % r
        # closure form: the closure is passed to an iterator adaptor over the same collection
        tr = self._translate_upvar(b, r)
        if tr:
            par, pr = tr
            cp = self._closure_parent(b)
            clos_lhs = cp[3]
            for bi, t in par.calls():
                nm = mir.strip_generics(mir.callee_name(t) or "")
                if not nm.startswith("std::iter::Iterator::") and "Iterator>::" not in nm:
                    continue
                uses = any(
                    (mir.op_place(x) or {}).get("l") == clos_lhs["l"] or self._is_ref_of(par, x, clos_lhs["l"]) for x in t["args"][1:]
                )
                if uses and _contains_token(repr(G.describe(par, t["args"][0])), pr.replace("**", "*")):
                    return "D-auto-2:len()-1 inside a closure run per element of the same collection (%s via %s)" % (pr, nm.split("::")[-1])
            # normalise one level of deref difference
        return None

    def _is_ref_of(self, body, op, local):
        pl = mir.op_place(op)
        if pl is None or pl["p"]:
            return False
        sd = body.single_def(pl["l"])
        if sd and sd[1] != "term" and sd[2]["k"] == "ref":
            return sd[2]["place"]["l"] == local
        return False

    def field_writes(self):
        """(adt, field) -> list of (body, rvalue description) for every assignment to that field, crate-wide;
        aggregates constructing the ADT count as writes of each field"""
        if self._field_writes is not None:
            return self._field_writes
        fw = {}
        for body in self.prog.bodies.values():
            for bi, blk in enumerate(body.blocks):
                for st in blk["stmts"]:
                    if st["k"] != "assign":
                        continue
                    lhs = st["lhs"]
                    if lhs["p"]:
                        last = lhs["p"][-1]
                        if isinstance(last, dict) and "n" in last and "a" in last:
                            fw.setdefault((last["a"], last["n"]), []).append((body, st["rv"], bi))
                    rv = st["rv"]
                    if rv["k"] == "agg" and rv.get("ak") == "adt":
                        for fname, o in zip(rv.get("fields", []), rv["ops"]):
                            fw.setdefault((rv["adt"], fname), []).append((body, {"k": "use", "op": o}, bi))
                t = blk["term"]
                if t["k"] == "call" and t["dest"]["p"]:
                    last = t["dest"]["p"][-1]
                    if isinstance(last, dict) and "n" in last and "a" in last:
                        fw.setdefault((last["a"], last["n"]), []).append((body, {"k": "call", "t": t}, bi))
        self._field_writes = fw
        return fw

    def _is_plus_one_of(self, body, rv, place_repr):
        """rv is `move (_t.0)` with _t = AddWithOverflow(copy <place>, const 1), or a small constant"""
        if rv["k"] != "use":
            return False
        c = mir.op_const(rv["op"])
        if c is not None:
            i = mir.const_int(c)
            return i is not None and 0 <= i < (1 << 32)
        pl = mir.op_place(rv["op"])
        if pl is None or len(pl["p"]) != 1 or not isinstance(pl["p"][0], dict) or pl["p"][0].get("f") != 0:
            return False
        sd = body.single_def(pl["l"])
        if not sd or sd[1] == "term" or sd[2]["k"] != "binop" or not sd[2]["op"].startswith("Add"):
            return False
        x, y = G.describe(body, sd[2]["a"]), G.describe(body, sd[2]["b"])
        return repr(x) == place_repr and y.kind == "const" and y.v == 1

    def auto_counter(self, s):
        """x + 1 on a 64-bit unsigned counter that is only ever initialised with a constant and incremented by
        one: overflow needs 2^64 executed increments (assumption A6)"""
        if s.cls != "Overflow" or s.term["detail"].get("op") != "Add":
            return None
        b = s.body
        da, db = s.term["detail"]["a"], s.term["detail"]["b"]
        cb = G.describe(b, db)
        if not (cb.kind == "const" and cb.v == 1):
            return None
        ty = operand_type(b, da)
        if ty not in ("u64", "usize"):
            return None
        pl = mir.op_place(da)
        if pl is None:
            return None
        if not pl["p"]:
            l = pl["l"]
            if l <= b.arg_count:
                return None
            ds = b.defs().get(l, [])
            if ds and all(d[1] != "term" and self._is_plus_one_of(b, d[2], "_%d" % l) for d in ds):
                return "D-auto:counter (local %s: constant init, +1 steps only; A6)" % ty
            return None
        last = pl["p"][-1]
        if isinstance(last, dict) and "a" in last:
            ws = self.field_writes().get((last["a"], last["n"]), [])
            ok = bool(ws)
            for wb, rv, _bi in ws:
                if rv["k"] == "call":
                    ok = False
                    break
                if rv["k"] == "use":
                    c = mir.op_const(rv["op"])
                    if c is not None and mir.const_int(c) is not None and 0 <= mir.const_int(c) < (1 << 32):
                        continue
                    p2 = mir.op_place(rv["op"])
                    if p2 is not None and len(p2["p"]) == 1 and isinstance(p2["p"][0], dict):
                        sd = wb.single_def(p2["l"])
                        if sd and sd[1] != "term" and sd[2]["k"] == "binop" and sd[2]["op"].startswith("Add"):
                            x, y = G.describe(wb, sd[2]["a"]), G.describe(wb, sd[2]["b"])
                            if y.kind == "const" and y.v == 1 and repr(x).endswith("." + last["n"]):
                                continue
                ok = False
                break
            if ok:
                return "D-auto:counter (field %s.%s: %d writes crate-wide, all constant or +1; A6)" % (last["a"].split("::")[-1], last["n"], len(ws))
        return None

    def auto_captures_get0(self, s):
        if s.cls != "unwrap":
            return None
        v = G.describe(s.body, s.term["args"][0])
        if v.kind == "call" and v.v == "regex::Captures::get" and len(v.args) == 2 and v.args[1].kind == "const" and v.args[1].v == 0:
            return "D-auto-3:regex capture group 0 always participates in a match"
        return None

    # ------------------------------------------------------------------ formatting to a String
    def fmt_originators(self):
        """local bodies that can *originate* a fmt::Error (construct one), as opposed to propagating
        the formatter's own error"""
        if self._originators is not None:
            return self._originators
        out = {}
        for body in self.prog.bodies.values():
            if "units_generated" in body.id:
                continue
            for bi, blk in enumerate(body.blocks):
                if blk.get("cleanup"):
                    continue
                for st in blk["stmts"]:
                    if st["k"] != "assign":
                        continue
                    rv = st["rv"]
                    made = False
                    if rv["k"] == "agg" and rv.get("adt") == "std::fmt::Error":
                        made = True
                    for cc in mir._consts_in_rvalue(rv):
                        if cc.get("ty") == "std::fmt::Error":
                            made = True
                    if made:
                        out.setdefault(body.id, []).append(bi)
        self._originators = out
        return out

    def fmt_roots(self, trait, ty):
        """local fmt bodies that formatting a value of type `ty` through `trait` may run"""
        import re as _re

        roots = set()
        tpath = {"Display": "std::fmt::Display", "Debug": "std::fmt::Debug", "LowerHex": "std::fmt::LowerHex"}.get(trait, "std::fmt::Display")
        for adt in set(_re.findall(r"(?:haystack|c_api|poscontrol)::[A-Za-z0-9_:]+", ty)):
            for im in self.prog.impls:
                if im.get("self_adt") == adt and im.get("trait") in (tpath, "std::fmt::Debug" if trait == "Debug" else tpath):
                    for it in im["items"]:
                        if it["id"] in self.prog.bodies:
                            roots.add(it["id"])
        return roots

    def auto_fmt(self, s):
        """format!/to_string panic only if a formatting impl returns Err while writing to a String;
        discharged when no reachable local fmt impl can originate an error"""
        if s.cls != "fmt-to-string":
            return None
        b = s.body
        t = s.term
        c = callee_of(t)
        types = []
        if "to_string" in s.what:
            tys = [x for x in c.get("targs", []) if not x.startswith("'")]
            types.append(("Display", tys[0] if tys else "?"))
        else:
            a = fmtargs.arguments_of(b, t["args"][0])
            if a is None or a[1] is None:
                return None
            for tr, ty, _op in a[1]:
                types.append((tr or "Display", ty))
        roots = set()
        generic = []
        for tr, ty in types:
            core = ty.replace("&", "").replace("mut ", "").strip()
            if "::" not in core and core[:1].isupper() and core not in ("String",):
                generic.append(core)
            roots |= self.fmt_roots(tr, ty)
        key = frozenset(roots)
        if key not in self._fmt_cache:
            reach, parent = self.prog.reachable_from(sorted(roots))
            orig = [f for f in reach if f in self.fmt_originators()]
            self._fmt_cache[key] = (orig, parent)
        orig, parent = self._fmt_cache[key]
        bad = []
        for f in orig:
            for bi in self.fmt_originators()[f]:
                ok, why = self.originator_discharged(f, bi)
                if not ok:
                    bad.append("%s (%s)" % (mir.strip_generics(f), why))
        if bad:
            self._last_fmt_reason = "formatting may fail in: " + "; ".join(sorted(set(bad)))
            return None
        how = "D-fmt:no reachable formatting impl can originate fmt::Error (%d local fmt roots)" % len(roots)
        if generic:
            how += "; caller-supplied Display %s assumed not to fail (A2)" % ",".join(sorted(set(generic)))
        return how

    def originator_discharged(self, fid, bi):
        """Value::fmt constructs fmt::Error only when to_zinc_string() failed; that is impossible when the
        Zinc writer into a Vec<u8> is infallible (rules/zincwriter.py)"""
        body = self.prog.bodies[fid]
        gs = G.guards_at(body, bi)
        for g in gs:
            if g.a is not None and g.a.kind == "discr" and g.a.args:
                v = g.a.args[0]
                if v.kind == "call" and v.v.endswith("to_zinc_string") and ((g.op == "Eq" and g.b.v == 1) or (g.op == "Ne" and g.b.v == 0)):
                    from rules import zincwriter

                    ok, why = zincwriter.infallible(self.ctx)
                    return ok, ("Err arm of to_zinc_string; " + why)
        return False, "constructs fmt::Error unconditionally or under an unrecognised guard"


# ====================================================================== table predicates
# Every predicate re-validates, on the current MIR, the guard that makes its allow-listed site safe.

import subprocess

RXTOOL = os.path.join(os.path.dirname(os.path.dirname(os.path.abspath(__file__))), "engine", "rxtool", "target", "debug", "rxtool")


def rx(*args):
    # a pattern printed back by the tool may contain a literal NUL (the lower bound of a negated class); argv cannot
    args = [a.replace("\x00", "\\x00") if isinstance(a, str) else a for a in args]
    out = subprocess.run([RXTOOL] + list(args), capture_output=True, text=True)
    try:
        return json.loads(out.stdout)
    except Exception:
        return {"ok": False, "error": "rxtool failed: " + out.stderr[:200]}


def _pred(fn):
    setattr(PanicRule, "pred_" + fn.__name__, fn)
    return fn


@_pred
def regex_literal_valid(self, s, args):
    v = G.describe(s.body, s.term["args"][0])
    if v.kind == "call" and v.v == "regex::Regex::new" and v.args and v.args[0].kind == "conststr":
        r = rx("analyze", v.args[0].v)
        if r.get("ok"):
            return True, "regex-syntax parses the literal (%d capture groups)" % len(r.get("captures", []))
        return False, "literal does not parse: %s" % r.get("error")
    return False, "receiver is not Regex::new(<literal>)"


def _closure_is_plus_one(prog, cid):
    b = prog.bodies.get(cid)
    if b is None:
        return False
    adds = [t for blk in b.blocks for t in [blk["term"]] if t["k"] == "assert" and t["msg"] == "Overflow"]
    calls = list(b.calls())
    return len(adds) == 1 and not calls and adds[0]["detail"].get("op") == "Add" and G.describe(b, adds[0]["detail"]["b"]).v == 1


@_pred
def find_plus_one(self, s, args):
    """`v + 1` where v is the byte offset returned by str::find: v < len <= isize::MAX"""
    if s.kind == "assert" and s.term["detail"].get("op") == "Add":
        a = G.describe(s.body, s.term["detail"]["a"])
        one = G.describe(s.body, s.term["detail"]["b"])
        m = re.fullmatch(r"_(\d+) as Some\.0", repr(a))
        if m and one.kind == "const" and one.v == 1:
            src = G.describe_place(s.body, {"l": int(m.group(1)), "p": []})
            if src.kind == "call" and src.v in ("core::str::<impl str>::find", "core::str::<impl str>::rfind"):
                return True, "Some(offset) of str::find; offset < len <= isize::MAX"
    cp = self._closure_parent(s.body)
    if not cp:
        return False, "not a closure"
    par, agg, bi, lhs = cp
    for cbi, t in par.calls():
        nm = mir.strip_generics(mir.callee_name(t) or "")
        if nm in ("std::option::Option::map_or", "std::option::Option::map") and any((mir.op_place(a) or {}).get("l") == lhs["l"] for a in t["args"]):
            r = G.describe(par, t["args"][0])
            if r.kind == "call" and r.v == "core::str::<impl str>::find":
                return True, "closure maps the Some(offset) of str::find; offset < len <= isize::MAX"
    return False, "closure is not applied to the result of str::find"


@_pred
def slice_from_find_plus_one(self, s, args):
    """s[k..] with k = s.find(<ASCII char>).map_or(0, |v| v + 1): k <= len and on a char boundary"""
    b = s.body
    recv = G.describe(b, s.term["args"][0])
    rng = G.describe(b, s.term["args"][1])
    if not (rng.kind == "agg" and rng.v == "RangeFrom" and rng.args):
        return False, "not a RangeFrom slice"
    k = rng.args[0]
    if k.kind == "binop" and k.v == "Add" and len(k.args) == 2 and k.args[1].kind == "const" and k.args[1].v == 1:
        m = re.fullmatch(r"_(\d+) as Some\.0", repr(k.args[0]))
        src = G.describe_place(b, {"l": int(m.group(1)), "p": []}) if m else None
        if src is not None and src.kind == "call" and src.v in ("core::str::<impl str>::find", "core::str::<impl str>::rfind") and src.args[0].same(recv) and src.args[1].kind == "const" and 0 < src.args[1].v < 0x80:
            return True, "start = offset of an ASCII %r found in the same string, plus its one byte" % chr(src.args[1].v)
    if not (k.kind == "call" and k.v == "std::option::Option::map_or" and len(k.args) == 3):
        return False, "start is not map_or(...)"
    f, dflt, clo = k.args
    if not (f.kind == "call" and f.v == "core::str::<impl str>::find" and f.args[0].same(recv)):
        return False, "find() is not on the sliced string"
    if not (dflt.kind == "const" and dflt.v == 0):
        return False, "default is not 0"
    if not (f.args[1].kind == "const" and 0 < f.args[1].v < 0x80):
        return False, "delimiter is not an ASCII char constant"
    cids = [c for c in self.prog.closures_of.get(b.id, [])]
    if not any(_closure_is_plus_one(self.prog, c) for c in cids):
        return False, "closure is not |v| v + 1"
    return True, "start = find(ASCII %r)+1 or 0 on the same string" % chr(f.args[1].v)


# ---------------------------------------------------------------------- more predicates

EXPECT_FNS = {
    "haystack::encoding::zinc::decode::scanner::Scanner::expect_and_consume": "byte",
    "haystack::encoding::zinc::decode::scanner::Scanner::expect_and_consume_any_of": "str",
    "haystack::encoding::zinc::decode::scanner::Scanner::expect_and_consume_any_in_range": "range",
}


def _range_const(body, op):
    """(lo, hi) of a constant RangeInclusive<u8> operand (promoted / named const), else None"""
    r = fmtargs.chase(body, op)
    if r is None:
        return None
    if r[0] == "const":
        c = r[1]
        if "raw" in c and "field_offsets" in c:
            offs = dict((n, o) for n, o in c["field_offsets"])
            if "start" in offs and "end" in offs:
                return c["raw"][offs["start"]], c["raw"][offs["end"]]
    if r[0] == "agg" and r[1].get("adt", "").endswith("RangeInclusive"):
        vals = [G.describe(body, o) for o in r[1]["ops"][:2]]
        if all(v.kind == "const" for v in vals):
            return vals[0].v, vals[1].v
    return None


def expect_summary_ok(prog):
    """each Scanner::expect_and_consume* returns Ok(x) only with x = a copy of self.cur taken under the passing edge of
    the membership test against its argument"""
    why = []
    for fid, kind in EXPECT_FNS.items():
        body = prog.get(fid)
        if body is None:
            return False, "missing " + fid
        oks = 0
        for bi, blk in enumerate(body.blocks):
            for st in blk["stmts"]:
                if st["k"] == "assign" and st["rv"]["k"] == "agg" and st["rv"].get("adt") == "std::result::Result" and st["rv"].get("variant") == "Ok":
                    oks += 1
                    v = G.describe(body, st["rv"]["ops"][0])
                    if repr(v) != "_1*.cur":
                        # the value must be the local copy `cur` taken right after the test
                        pl = mir.op_place(st["rv"]["ops"][0])
                        sd = body.single_def(pl["l"]) if pl and not pl["p"] else None
                        if not (sd and sd[1] != "term" and sd[2]["k"] == "use" and repr(G.describe(body, sd[2]["op"])) == "_1*.cur"):
                            return False, "%s: Ok(%r) is not the current byte" % (fid.split("::")[-1], v)
                        defblk = sd[0]
                    else:
                        defblk = bi
                    gs = G.guards_at(body, defblk)
                    good = False
                    for g in gs:
                        r = repr(g)
                        if kind == "byte" and g.op == "Eq" and "_1*.cur" in r and "_2" in r:
                            good = True
                        if kind == "str" and g.op == "True" and "is_any_of(_1*, _2" in r:
                            good = True
                        if kind == "range" and g.op == "True" and "is_in_range(_1*, _2" in r:
                            good = True
                    if not good:
                        return False, "%s: Ok value not guarded by the membership test" % fid.split("::")[-1]
        if oks == 0:
            return False, "%s: no Ok return found" % fid
        why.append("%s:%d" % (fid.split("::")[-1], oks))
    return True, ",".join(why)


def _ascii_array_source(self, s):
    """(N, why) when the sliced string is from_utf8_lossy of a vec! of N bytes each returned by expect_and_consume*
    with an all-ASCII constant argument"""
    b = s.body
    recv = repr(G.describe(b, s.term["args"][0]))
    if "from_utf8_lossy(" not in recv:
        return None, "receiver is not String::from_utf8_lossy(..)"
    arrays = []
    for blk in b.blocks:
        for st in blk["stmts"]:
            if st["k"] == "assign" and st["rv"]["k"] == "agg" and st["rv"].get("ak") == "array" and st["rv"].get("ty") == "u8":
                arrays.append(st["rv"])
    if len(arrays) != 1:
        return None, "expected exactly one byte-array literal, found %d" % len(arrays)
    ok, why = expect_summary_ok(self.prog)
    if not ok:
        return None, why
    for o in arrays[0]["ops"]:
        r = fmtargs.chase(b, o)
        # value comes out of `?` on a call: (_b as Continue).0 with _b = Try::branch(call)
        pl = r[1] if r and r[0] == "place" else None
        call = None
        if pl is not None:
            sd = b.single_def(pl["l"])
            if sd and sd[1] == "term":
                inner = sd[2]["args"][0] if sd[2]["args"] else None
                rr = fmtargs.chase(b, inner) if inner else None
                if rr and rr[0] == "call":
                    call = rr[1]
        if call is None:
            return None, "array element is not the Ok value of a call"
        nm = mir.strip_generics(mir.callee_name(call) or "")
        kind = EXPECT_FNS.get(nm)
        if kind is None:
            return None, "array element comes from %s" % nm
        a = call["args"][1]
        if kind == "byte":
            v = G.describe(b, a)
            if not (v.kind == "const" and v.v < 0x80):
                return None, "expect_and_consume argument is not an ASCII constant"
        elif kind == "str":
            v = G.describe(b, a)
            if not (v.kind == "conststr" and all(ord(ch) < 0x80 for ch in v.v)):
                return None, "expect_and_consume_any_of argument is not an ASCII literal"
        else:
            rg = _range_const(b, a)
            if rg is None or rg[1] >= 0x80:
                return None, "expect_and_consume_any_in_range argument is not a constant ASCII range"
    return len(arrays[0]["ops"]), "vec! of %d ASCII bytes" % len(arrays[0]["ops"])


@_pred
def ascii_fixed_array_slices(self, s, args):
    n, why = _ascii_array_source(self, s)
    if n is None:
        return False, why
    rng = G.describe(s.body, s.term["args"][1])
    if not (rng.kind == "agg" and rng.v in ("Range", "RangeFrom", "RangeTo") and all(a.kind == "const" for a in rng.args)):
        return False, "slice bounds are not constants"
    if max(a.v for a in rng.args) > n or (rng.v == "Range" and rng.args[0].v > rng.args[1].v):
        return False, "slice bounds %s exceed the %d bytes" % ([a.v for a in rng.args], n)
    return True, "%s; constant bounds %s within it; from_utf8_lossy keeps ASCII bytes one-to-one" % (why, [a.v for a in rng.args])


def _small_parsed(body, op, maxwidth=4):
    v = G.describe(body, op)
    if v.kind == "call" and v.v == "std::result::Result::unwrap_or" and v.args[0].kind == "call" and v.args[0].v == "core::str::<impl str>::parse":
        ix = v.args[0].args[0]
        if ix.kind == "call" and ix.v.endswith("::index") and ix.args[1].kind == "agg" and ix.args[1].v == "Range":
            a, b2 = ix.args[1].args
            if a.kind == "const" and b2.kind == "const" and 0 <= b2.v - a.v <= maxwidth and v.args[1].kind == "const":
                return True
    return False


@_pred
def chrono_small_args(self, s, args):
    """TimeDelta::hours/minutes of a number parsed from at most 4 characters, or the sum of two such"""
    b = s.body
    if s.what.endswith("::add"):
        for a in s.term["args"]:
            v = G.describe(b, a)
            if not (v.kind == "call" and v.v in ("chrono::TimeDelta::hours", "chrono::TimeDelta::minutes") and _small_parsed_val(v.args[0])):
                return False, "operand is not hours/minutes of a short parsed number"
        return True, "sum of two TimeDeltas each below 10^4 hours"
    if _small_parsed(b, s.term["args"][0]):
        return True, "argument parsed from <= 4 characters: |x| < 10^4, far inside TimeDelta's range"
    return False, "argument is not a number parsed from a short slice"


def _small_parsed_val(v):
    if v.kind == "call" and v.v == "std::result::Result::unwrap_or" and v.args[0].kind == "call" and v.args[0].v == "core::str::<impl str>::parse":
        ix = v.args[0].args[0]
        if ix.kind == "call" and ix.v.endswith("::index") and ix.args[1].kind == "agg" and ix.args[1].v == "Range":
            a, b2 = ix.args[1].args
            return a.kind == "const" and b2.kind == "const" and 0 <= b2.v - a.v <= 4
    return False


@_pred
def counter_in_const_range_loop(self, s, args):
    """+1 on a local counter inside a `for _ in <const>..<const>` loop: at most (end-start) increments"""
    from rules import scanai

    b = s.body
    da = s.term["detail"]["a"]
    pl = mir.op_place(da)
    if pl is None or pl["p"]:
        return False, "not a local counter"
    l = pl["l"]
    ds = b.defs().get(l, [])
    if not (ds and all(d[1] != "term" and self._is_plus_one_of(b, d[2], "_%d" % l) for d in ds)):
        return False, "counter has writes other than constant init / +1"
    for scc in b.sccs():
        if s.block not in scc:
            continue
        for blk in scc:
            t = b.term(blk)
            if t["k"] == "call" and "Range" in (mir.callee_name(t) or "") and (mir.callee_name(t) or "").endswith("::next"):
                r = fmtargs.chase(b, t["args"][0])
                # &mut iter where iter = into_iter(Range{start,end})
                v = G.describe(b, t["args"][0])
                rs = repr(v)
                import re as _re

                m = _re.search(r"agg:Range\(const (-?\d+), const (-?\d+)\)", rs)
                if m and not scanai.sub_sccs(b, scc, [blk]):
                    n = int(m.group(2)) - int(m.group(1))
                    if 0 <= n < (1 << 30):
                        return True, "every cycle of the loop passes Range::next over %s..%s: at most %d increments" % (m.group(1), m.group(2), n)
    return False, "increment is not inside a constant-range for loop"


@_pred
def peek_buffer_invariant(self, s, args):
    """Scanner.next is Some(v) only with v non-empty, so `v.remove(0)` cannot panic. Inductive check over every write
    of the field and every mutation of the buffered vector, crate-wide."""
    prog = self.prog
    SC = "haystack::encoding::zinc::decode::scanner::Scanner"
    ws = self.field_writes().get((SC, "next"), [])
    if not ws:
        return False, "no writes of Scanner.next found"
    some_sites = []
    for wb, rv, bi in ws:
        v = G.describe(wb, rv["op"]) if rv["k"] == "use" else None
        if v is None:
            return False, "Scanner.next written by a call in %s" % wb.short
        if v.kind == "agg" and v.v == "None":
            continue
        if v.kind == "agg" and v.v == "Some":
            inner = v.args[0] if v.args else None
            if inner is not None and inner.kind == "call" and inner.v == "std::vec::Vec::new":
                some_sites.append((wb, bi))
                continue
        return False, "Scanner.next assigned %r in %s" % (v, wb.short)
    # (1) after every `next = Some(Vec::new())` a push on the buffer follows on all paths before returning
    for wb, bi in some_sites:
        pushes = [b2 for b2, t in wb.calls() if mir.strip_generics(mir.callee_name(t) or "") == "std::vec::Vec::push" and ".next" in repr(G.describe(wb, t["args"][0]))]
        rets = [i for i, blk in enumerate(wb.blocks) if blk["term"]["k"] == "return"]
        from vlib.dataflow import must_pass

        avoid = _next_some_infeasible_edges(wb)
        for r in rets:
            ok, path = must_pass(wb, [bi], r, pushes, avoid_edges=avoid)
            if not ok:
                return False, "%s: path from `next = Some(Vec::new())` to return without push: %s" % (wb.short, path)
    # (2) every removal from the buffer is followed by `if is_empty { next = None }`; no other shrinking calls
    muts = []
    for body in prog.bodies.values():
        if "units_generated" in body.id:
            continue
        for bi, t in body.calls():
            nm = mir.strip_generics(mir.callee_name(t) or "")
            if nm in ("std::vec::Vec::remove", "std::vec::Vec::pop", "std::vec::Vec::clear", "std::vec::Vec::truncate", "std::vec::Vec::drain", "std::vec::Vec::swap_remove", "std::vec::Vec::retain") and t["args"]:
                if ".next" in repr(G.describe(body, t["args"][0])) and "Scanner" in body.id:
                    muts.append((body, bi, nm))
    for body, bi, nm in muts:
        if not nm.endswith("::remove"):
            return False, "%s shrinks the peek buffer with %s" % (body.short, nm)
        # the block after remove tests is_empty and resets next to None on the true edge, on every path to return
        none_blocks = []
        for i, blk in enumerate(body.blocks):
            for st in blk["stmts"]:
                if st["k"] == "assign" and st["lhs"]["p"] and isinstance(st["lhs"]["p"][-1], dict) and st["lhs"]["p"][-1].get("n") == "next":
                    v = G.describe(body, st["rv"]["op"]) if st["rv"]["k"] == "use" else None
                    if v is not None and v.kind == "agg" and v.v == "None":
                        none_blocks.append(i)
        empties = [i for i, t in body.calls() if mir.strip_generics(mir.callee_name(t) or "") == "std::vec::Vec::is_empty" and ".next" in repr(G.describe(body, t["args"][0]))]
        if not empties:
            return False, "%s: no is_empty test after remove" % body.short
        # from the true edge of the is_empty switch every path to return passes a `next = None`
        for eb in empties:
            sw = body.term(eb)["t"]
            st = body.term(sw)
            if st["k"] != "switch":
                return False, "is_empty result not branched on"
            true_edge = st["otherwise"]
            rets = [i for i, blk in enumerate(body.blocks) if blk["term"]["k"] == "return"]
            from vlib.dataflow import must_pass

            for r in rets:
                if true_edge in none_blocks:
                    continue
                ok, path = must_pass(body, [true_edge], r, none_blocks)
                if not ok and true_edge not in none_blocks:
                    return False, "%s: buffer emptied but next not reset on path %s" % (body.short, path)
    return True, "%d writes of Scanner.next (None or Some(Vec::new())+push), %d removal site(s) each followed by the empty->None reset" % (len(ws), len(muts))


@_pred
def callers_pass_fixed_offset_display(self, s, args):
    """fixed_timezone(offset) is only called with FixedOffset::to_string(): '+HH:MM' or '+HH:MM:SS' (chrono's Display),
    ASCII, at least 6 bytes with ':' at index 3, so [0..1] and [2..find(':') or 3] are in range (assumption A7)"""
    b = s.body
    recv = repr(G.describe(b, s.term["args"][0]))
    if recv != "_1*":
        return False, "sliced string is not the function's parameter"
    rng = G.describe(b, s.term["args"][1])
    if not (rng.kind == "agg" and rng.v == "Range"):
        return False, "not a Range slice"
    lo, hi = rng.args
    ok_bounds = lo.kind == "const" and (
        (hi.kind == "const" and lo.v <= hi.v <= 3)
        or (hi.kind == "call" and hi.v == "std::option::Option::unwrap_or" and hi.args[1].kind == "const" and hi.args[1].v == 3 and lo.v <= 3
            and hi.args[0].kind == "call" and hi.args[0].v == "core::str::<impl str>::find" and hi.args[0].args[1].kind == "const" and hi.args[0].args[1].v == 58)
    )
    if not ok_bounds:
        return False, "bounds %r are not the audited ones" % rng
    n = 0
    for cb in self.prog.bodies.values():
        for bi, t in cb.calls():
            if (mir.callee_name(t) or "") == b.id:
                n += 1
                v = G.describe(cb, t["args"][0])
                c = callee_of(cb.single_def(mir.op_place(t["args"][0])["l"])[2]) if False else None
                if not (v.kind == "call" and v.v == "<T as std::string::ToString>::to_string" and v.args and v.args[0].kind == "call" and v.args[0].v == "chrono::DateTime::offset"):
                    return False, "caller %s passes %r" % (cb.short, v)
                # the DateTime must be over FixedOffset
                if "chrono::FixedOffset" not in " ".join(cb.rec.get("sig_inputs", [])):
                    return False, "caller's DateTime is not DateTime<FixedOffset>"
    if n == 0:
        return False, "no callers"
    return True, "%d caller(s), all pass DateTime<FixedOffset>::offset().to_string()" % n


def _next_some_infeasible_edges(body):
    """edges (switch block -> None arm) of `match self.next` that cannot be taken because Scanner.next is known to be
    Some there: it was just assigned Some(..) or `self.next.is_none()` just returned false on every incoming path"""
    def is_next_place(pl):
        return pl is not None and pl["p"] and isinstance(pl["p"][-1], dict) and pl["p"][-1].get("n") == "next" and "Scanner" in pl["p"][-1].get("a", "")

    def transfer(b, facts):
        f = set(facts)
        blk = body.blocks[b]
        for st in blk["stmts"]:
            if st["k"] == "assign" and is_next_place(st["lhs"]):
                v = G.describe(body, st["rv"]["op"]) if st["rv"]["k"] == "use" else None
                if v is not None and v.kind == "agg" and v.v == "Some":
                    f.add("some")
                else:
                    f.discard("some")
        t = blk["term"]
        outs = {}
        succs = body.succ(b)
        for s2 in succs:
            outs[s2] = frozenset(f)
        if t["k"] == "call":
            nm = mir.strip_generics(mir.callee_name(t) or "")
            if any(ty.startswith("&mut") and "Scanner" in ty for ty in t.get("arg_tys", [])):
                f.discard("some")
                for s2 in succs:
                    outs[s2] = frozenset(f)
        if t["k"] == "switch":
            v = G.describe(body, t["op"])
            if v.kind == "call" and v.v == "std::option::Option::is_none" and "next" in repr(v):
                for val, tb in t["targets"]:
                    if int(val) == 0:
                        outs[tb] = frozenset(f | {"some"})
        return outs

    IN = forward(body, frozenset(), transfer, must=True)
    avoid = set()
    for b, facts in IN.items():
        t = body.term(b)
        if t["k"] == "switch" and "some" in facts:
            v = G.describe(body, t["op"])
            if v.kind == "discr" and v.args and repr(v.args[0]).endswith(".next"):
                for val, tb in t["targets"]:
                    if int(val) == 0:
                        avoid.add((b, tb))
                if not any(int(val) == 0 for val, _ in t["targets"]):
                    if any(int(val) == 1 for val, _ in t["targets"]):
                        avoid.add((b, t["otherwise"]))
    return avoid


_orig_pbi = PanicRule.pred_peek_buffer_invariant


@_pred
def balanced_counter(self, s, args):
    """`field -= 1` in a function that is the only writer of the field, where a `field += 1` dominates the decrement and
    every path from the increment to a return passes the decrement: each call restores the field, so by induction on
    the call depth the value at the decrement is (value at the increment) + 1 >= 1"""
    b = s.body
    pl = mir.op_place(s.term["detail"]["a"])
    if pl is None or not pl["p"] or not isinstance(pl["p"][-1], dict) or "a" not in pl["p"][-1]:
        return False, "not a field"
    fld = (pl["p"][-1]["a"], pl["p"][-1]["n"])
    ws = self.field_writes().get(fld, [])
    incs, decs, inits = [], [], []
    for wb, rv, bi in ws:
        if rv["k"] != "use":
            return False, "field written by a call"
        c = mir.op_const(rv["op"])
        if c is not None:
            inits.append(bi)
            continue
        p2 = mir.op_place(rv["op"])
        sd = wb.single_def(p2["l"]) if p2 is not None and len(p2["p"]) == 1 else None
        if not (sd and sd[1] != "term" and sd[2]["k"] == "binop"):
            return False, "unrecognised write in %s" % wb.short
        y = G.describe(wb, sd[2]["b"])
        if not (y.kind == "const" and y.v == 1 and repr(G.describe(wb, sd[2]["a"])).endswith("." + fld[1])):
            return False, "write is not +-1"
        if wb.id != b.id:
            return False, "%s also writes the counter" % wb.short
        (incs if sd[2]["op"].startswith("Add") else decs).append(bi)
    if len(incs) != 1 or len(decs) != 1:
        return False, "expected one increment and one decrement, found %d/%d" % (len(incs), len(decs))
    if not b.dominates(incs[0], decs[0]):
        return False, "increment does not dominate the decrement"
    from vlib.dataflow import must_pass

    for r in [i for i, blk in enumerate(b.blocks) if blk["term"]["k"] == "return"]:
        ok, path = must_pass(b, [incs[0]], r, [decs[0]])
        if not ok:
            return False, "path %s leaves the function between += 1 and -= 1" % path
    return True, "%s.%s: only %s writes it (+1 at bb%d, -1 at bb%d, balanced on all paths)" % (fld[0].split("::")[-1], fld[1], b.short.split("::")[-1], incs[0], decs[0])


def _auto_add_under_bound(self, s):
    """x + 1 where a dominating guard says x < K (K a constant that fits the type)"""
    if s.cls != "Overflow" or s.term["detail"].get("op") != "Add":
        return None
    b = s.body
    a = G.describe(b, s.term["detail"]["a"])
    c = G.describe(b, s.term["detail"]["b"])
    if not (c.kind == "const" and 0 <= c.v <= 1024):
        return None
    for g in G.guards_at(b, s.block):
        if g.op in ("Lt", "Le") and g.b is not None and g.b.kind == "const" and g.a.same(a) and g.b.v + c.v < (1 << 31):
            return "D-auto:dominating guard %r bounds the sum" % g
        if g.op in ("Gt", "Ge") and g.a.kind == "const" and g.b is not None and g.b.same(a) and g.a.v + c.v < (1 << 31):
            return "D-auto:dominating guard %r bounds the sum" % g
    return None


PanicRule.auto_add_under_bound = _auto_add_under_bound


@_pred
def refcell_borrow_scoped(self, s, args):
    """RefCell::borrow_mut on the thread-local LAST_ERROR: the RefMut is dropped before any crate-local code runs, so the
    cell is never borrowed twice on one thread (values dropped while it is held are Box<dyn Error> of external types, A2)"""
    b = s.body
    dest = s.term["dest"]["l"]
    drops = [i for i, blk in enumerate(b.blocks) if blk["term"]["k"] == "drop" and blk["term"]["place"]["l"] == dest and not blk.get("cleanup")]
    if not drops:
        return False, "RefMut is never dropped in this function (escapes)"
    start = s.term["t"]
    seen = {start}
    st = [start]
    while st:
        x = st.pop()
        t = b.term(x)
        if t["k"] == "drop" and t["place"]["l"] == dest:
            continue
        if t["k"] == "return":
            return False, "a path returns while the RefMut is still alive"
        if t["k"] == "call":
            tg, cb, ext = self.prog.site_targets(b, t)
            if tg or cb:
                return False, "crate-local code (%s) runs while the RefMut is held" % mir.strip_generics(sorted(tg | cb)[0])
        for n in b.succ(x):
            if n not in seen:
                seen.add(n)
                st.append(n)
    return True, "RefMut dropped at bb%s with only std calls in between (%d blocks)" % (drops, len(seen))


@_pred
def collected_from_array(self, s, args):
    """v[i] with constant i where v is the Ok payload of `[a, b, ..].iter().map(..).collect::<Result<Vec<_>, _>>()`:
    no filtering adaptor, so the vector has exactly as many elements as the array"""
    b = s.body
    ix = G.describe(b, s.term["args"][1])
    if ix.kind != "const":
        return False, "index is not constant"
    import re as _re

    recv = repr(G.describe(b, s.term["args"][0]))
    m0 = _re.fullmatch(r"_(\d+) as Ok\.0", recv)
    # root must be (<local> as Ok).0 with local = collect(map(iter(array[N])))
    if not m0:
        return False, "receiver is not the Ok payload of a collected Result"
    v = G.describe(b, {"cp": {"l": int(m0.group(1)), "p": []}})
    r = repr(v)

    if not r.startswith("std::iter::Iterator::collect(std::iter::Iterator::map(core::slice::<impl [T]>::iter("):
        return False, "vector is not collect(map(iter(array))): %s" % r[:80]
    if "filter" in r or "take" in r or "skip" in r:
        return False, "adaptor chain may drop elements"
    m = _re.search(r"iter\(agg:array\((.*?)\)\), agg:closure", r)
    n = None
    for blk in b.blocks:
        for st in blk["stmts"]:
            if st["k"] == "assign" and st["rv"]["k"] == "agg" and st["rv"].get("ak") == "array" and "fmt::rt::Argument" not in st["rv"].get("ty", ""):
                n = len(st["rv"]["ops"]) if n is None else -1
    if n is None or n < 0:
        return False, "could not find a unique array literal"
    if ix.v >= n:
        return False, "index %d >= array length %d" % (ix.v, n)
    return True, "collected 1:1 from an array literal of %d elements; index %d" % (n, ix.v)


@_pred
def kind_filtered_args(self, s, args):
    """`Date::try_from(args[0]).expect()` / `Time::try_from(args[1]).expect()` where args was filtered by a closure that
    keeps index 0 only if is_date() and index 1 only if is_time(), and args.len() == 2 dominates"""
    b = s.body
    v = G.describe(b, s.term["args"][0])
    if not (v.kind == "call" and v.v.endswith("as std::convert::TryFrom>::try_from") and v.args and v.args[0].kind == "call" and v.args[0].v.endswith("::index")):
        return False, "receiver is not T::try_from(args[i])"
    idx = v.args[0].args[1]
    vec = v.args[0].args[0]
    want = {0: "is_date", 1: "is_time"}.get(idx.v if idx.kind == "const" else -1)
    if want is None:
        return False, "index is not 0/1"
    tname = "Date" if want == "is_date" else "Time"
    if ("::%s as" % tname) not in v.v:
        return False, "conversion type does not match the filtered kind"
    if not any(g.op == "Eq" and g.b is not None and g.b.kind == "const" and g.b.v == 2 and is_len_of(g.a, vec) for g in G.guards_at(b, s.block)):
        return False, "len() == 2 guard does not dominate"
    if "std::iter::Iterator::filter(std::iter::Iterator::enumerate(" not in repr(vec):
        return False, "args is not filter(enumerate(..))"
    # the filter closure must test both kinds, each tied to its index
    for cid in self.prog.closures_of.get(b.id, []):
        cb = self.prog.bodies[cid]
        names = {mir.strip_generics(mir.callee_name(t) or "").split("::")[-1] for _, t in cb.calls()}
        if {"is_date", "is_time"} <= names:
            consts = set()
            for blk in cb.blocks:
                t = blk["term"]
                if t["k"] == "switch":
                    consts |= {int(x[0]) for x in t["targets"]}
                for st in blk["stmts"]:
                    if st["k"] == "assign" and st["rv"]["k"] == "binop" and st["rv"]["op"] == "Eq":
                        for o in (st["rv"]["a"], st["rv"]["b"]):
                            c = mir.op_const(o)
                            if c is not None and mir.const_int(c) is not None:
                                consts.add(mir.const_int(c))
            if {0, 1} <= consts:
                return True, "filter closure keeps (0, is_date) and (1, is_time); len()==2 dominates; try_from(%s) on a %s cannot fail" % (tname, tname)
    return False, "no filter closure testing is_date and is_time found"


@_pred
def present_in_map(self, s, args):
    """cache.get(k).expect(): on every path to the site either contains_key(k) was true or insert(k, ..) was executed
    on the same DashMap field, and nothing in the crate ever removes from that map (R-LOCK K3)"""
    b = s.body
    v = G.describe(b, s.term["args"][0])
    if not (v.kind == "call" and v.v == "dashmap::DashMap::get" and len(v.args) == 2):
        return False, "receiver is not DashMap::get(..)"
    m, k = repr(v.args[0]), repr(v.args[1])
    get_block = None
    for bi, t in b.calls():
        if t["dest"] == {"l": mir.op_place(s.term["args"][0])["l"], "p": []} and mir.strip_generics(mir.callee_name(t) or "") == "dashmap::DashMap::get":
            get_block = bi
    def transfer(bi, facts):
        f = set(facts)
        t = b.term(bi)
        outs = None
        if t["k"] == "call":
            nm = mir.strip_generics(mir.callee_name(t) or "")
            if nm == "dashmap::DashMap::insert" and repr(G.describe(b, t["args"][0])) == m:
                kk = G.describe(b, t["args"][1])
                if repr(kk) == k or (kk.kind == "call" and kk.v.endswith("::clone") and repr(kk.args[0]) == k):
                    f.add("present")
            if nm == "dashmap::DashMap::entry" and repr(G.describe(b, t["args"][0])) == m:
                # map.entry(k).or_insert(v): the key is present afterwards (established at the or_insert call)
                from rules import locks as _L

                kk = G.describe(b, t["args"][1])
                if (repr(kk) == k or (kk.kind == "call" and kk.v.endswith("::clone") and repr(kk.args[0]) == k)) and _L.insert_if_absent_via_entry(b, bi) is not None:
                    f.add("present")
        if t["k"] == "switch":
            vv = G.describe(b, t["op"])
            if vv.kind == "call" and vv.v == "dashmap::DashMap::contains_key" and repr(vv.args[0]) == m and repr(vv.args[1]) == k:
                outs = {}
                for val, tb in t["targets"]:
                    outs[tb] = frozenset(f | ({"present"} if int(val) != 0 else set()))
                vals = {int(x[0]) for x in t["targets"]}
                outs[t["otherwise"]] = frozenset(f | ({"present"} if 0 in vals else set()))
                return outs
        return frozenset(f)
    IN = forward(b, frozenset(), transfer, must=True)
    tgt = get_block if get_block is not None else s.block
    if "present" not in IN.get(tgt, frozenset()):
        return False, "a path reaches the lookup without contains_key(k)==true or insert(k, ..) on %s" % m
    # K3: no removal anywhere
    field = m.split(".")[-1]
    for body in self.prog.bodies.values():
        if "units_generated" in body.id:
            continue
        for bi, t in body.calls():
            nm = mir.strip_generics(mir.callee_name(t) or "")
            if nm.startswith("dashmap::DashMap::") and nm.split("::")[-1] in ("remove", "remove_if", "clear", "retain", "alter", "alter_all", "shrink_to_fit", "get_mut", "entry", "iter_mut") and t["args"]:
                if nm.split("::")[-1] == "entry":
                    from rules import locks as _L2

                    if _L2.insert_if_absent_via_entry(body, bi) is not None:
                        continue
                if repr(G.describe(body, t["args"][0])).endswith("." + field):
                    return False, "%s calls %s on the cache" % (body.short, nm)
    return True, "insert/contains_key of the same key precedes the lookup on every path; no remove/clear/retain on .%s in the crate" % field


@_pred
def fold_arg_filtered_nonempty(self, s, args):
    """parts[0] / parts[1..] inside a fold closure whose items passed `.filter(|parts| !parts.is_empty())`"""
    b = s.body
    ix = G.describe(b, s.term["args"][1])
    ok_ix = (ix.kind == "const" and ix.v == 0) or (ix.kind == "agg" and ix.v == "RangeFrom" and ix.args and ix.args[0].kind == "const" and ix.args[0].v <= 1)
    if not ok_ix:
        return False, "index needs more than one element"
    recv = mir.op_place(s.term["args"][0])
    rr = repr(G.describe(b, s.term["args"][0]))
    if not re.fullmatch(r"_[23]\**", rr):
        return False, "indexed vector is not the closure's item parameter (%s)" % rr
    cp = self._closure_parent(b)
    if not cp:
        return False, "not a closure"
    par, agg, bi, lhs = cp
    for cbi, t in par.calls():
        nm = mir.strip_generics(mir.callee_name(t) or "")
        if nm.endswith("::fold") and any((mir.op_place(a) or {}).get("l") == lhs["l"] for a in t["args"]):
            chain = repr(G.describe(par, t["args"][0]))
            if "std::iter::Iterator::filter(" not in chain:
                return False, "no filter adaptor in front of fold"
            for cid in self.prog.closures_of.get(par.id, []):
                cb = self.prog.bodies[cid]
                calls = [mir.strip_generics(mir.callee_name(tt) or "") for _, tt in cb.calls()]
                if calls == ["std::vec::Vec::is_empty"]:
                    nots = [st for blk in cb.blocks for st in blk["stmts"] if st["k"] == "assign" and st["rv"]["k"] == "unop" and st["rv"]["op"] == "Not"]
                    if nots:
                        return True, "items reach fold only through filter(|p| !p.is_empty())"
            return False, "filter closure is not `!is_empty()`"
    return False, "closure is not the fold callback"
