"""R-PANIC: no reachable panic site (DESIGN 2.1)."""
import re

from vlib import mir
from vlib.mir import callee_of, op_const, op_place, strip_generics

ASSERT_KINDS = ("BoundsCheck", "Overflow", "OverflowNeg", "DivisionByZero", "RemainderByZero")
NOISE_ASSERTS = ("NullPointerDereference", "MisalignedPointerDereference")

# may-panic API table (callee path with generics stripped -> class)
MAY_PANIC = {
    "std::option::Option::unwrap": "unwrap",
    "std::option::Option::expect": "unwrap",
    "std::result::Result::unwrap": "unwrap",
    "std::result::Result::expect": "unwrap",
    "std::result::Result::unwrap_err": "unwrap",
    "std::result::Result::expect_err": "unwrap",
    "std::option::Option::unwrap_unchecked": "unwrap",
    "<std::string::String as std::ops::Index>::index": "str-index",
    "<std::string::String as std::ops::IndexMut>::index_mut": "str-index",
    "core::str::traits::<impl std::ops::Index for str>::index": "str-index",
    "core::str::traits::<impl std::ops::IndexMut for str>::index_mut": "str-index",
    "<std::vec::Vec as std::ops::Index>::index": "vec-index",
    "<std::vec::Vec as std::ops::IndexMut>::index_mut": "vec-index",
    "core::slice::index::<impl std::ops::Index for [T]>::index": "vec-index",
    "core::slice::index::<impl std::ops::IndexMut for [T]>::index_mut": "vec-index",
    "<std::collections::BTreeMap as std::ops::Index>::index": "map-index",
    "<std::collections::HashMap as std::ops::Index>::index": "map-index",
    "std::vec::Vec::remove": "vec-pos",
    "std::vec::Vec::insert": "vec-pos",
    "std::vec::Vec::swap_remove": "vec-pos",
    "std::vec::Vec::drain": "vec-pos",
    "std::vec::Vec::split_off": "vec-pos",
    "std::vec::Vec::truncate": None,
    "std::string::String::remove": "str-pos",
    "std::string::String::insert": "str-pos",
    "std::string::String::insert_str": "str-pos",
    "std::string::String::split_off": "str-pos",
    "std::string::String::drain": "str-pos",
    "std::string::String::replace_range": "str-pos",
    "core::str::<impl str>::split_at": "str-pos",
    "core::slice::<impl [T]>::split_at": "vec-pos",
    "core::slice::<impl [T]>::copy_from_slice": "vec-pos",
    "core::slice::<impl [T]>::chunks": "vec-pos",
    "core::slice::<impl [T]>::windows": "vec-pos",
    "core::slice::<impl [T]>::swap": "vec-pos",
    "std::cell::RefCell::borrow": "refcell",
    "std::cell::RefCell::borrow_mut": "refcell",
    "chrono::TimeDelta::hours": "chrono-range",
    "chrono::TimeDelta::minutes": "chrono-range",
    "chrono::TimeDelta::seconds": "chrono-range",
    "chrono::TimeDelta::days": "chrono-range",
    "chrono::TimeDelta::weeks": "chrono-range",
    "chrono::TimeDelta::milliseconds": "chrono-range",
    "<chrono::TimeDelta as std::ops::Add>::add": "chrono-range",
    "<chrono::TimeDelta as std::ops::Sub>::sub": "chrono-range",
    "<chrono::DateTime as std::ops::Add>::add": "chrono-range",
    "<chrono::DateTime as std::ops::Sub>::sub": "chrono-range",
    "<chrono::NaiveDateTime as std::ops::Add>::add": "chrono-range",
    "<chrono::NaiveDateTime as std::ops::Sub>::sub": "chrono-range",
    "chrono::NaiveDate::from_ymd": "chrono-range",
    "chrono::NaiveTime::from_hms": "chrono-range",
    "chrono::FixedOffset::east": "chrono-range",
    "chrono::FixedOffset::west": "chrono-range",
    "chrono::TimeZone::ymd": "chrono-range",
    "chrono::offset::LocalResult::unwrap": "unwrap",
    "std::fmt::format": "fmt-to-string",
    "<T as std::string::ToString>::to_string": "fmt-to-string",
    "std::iter::Iterator::step_by": "vec-pos",
    "std::option::Option::unwrap_or_else": None,
}
MAY_PANIC = {k: v for k, v in MAY_PANIC.items() if v}
PANIC_FNS = re.compile(
    r"^(core::panicking::|std::rt::begin_panic|std::panicking::|core::option::expect_failed|core::option::unwrap_failed|"
    r"core::result::unwrap_failed|std::process::abort|std::process::exit|core::intrinsics::abort)"
)


class Site:
    __slots__ = ("body", "block", "kind", "cls", "what", "key", "line", "term")

    def __init__(self, body, block, kind, cls, what, term):
        self.body = body
        self.block = block
        self.kind = kind  # 'assert' | 'call'
        self.cls = cls
        self.what = what
        self.term = term
        self.line = term.get("line", body.line)
        self.key = None

    def where(self):
        return "%s:%d" % (self.body.file, self.line)


def sites_of(body):
    """all potential panic sites of one body (normal blocks only), with stable keys"""
    out = []
    for bi, blk in enumerate(body.blocks):
        if blk.get("cleanup"):
            continue
        t = blk["term"]
        if t["k"] == "assert":
            if t["msg"] in NOISE_ASSERTS:
                continue
            cls = t["msg"]
            what = cls
            if cls == "Overflow":
                what = "Overflow(%s)" % t["detail"].get("op", "?")
            out.append(Site(body, bi, "assert", cls if cls in ASSERT_KINDS else "assert-other", what, t))
        elif t["k"] in ("call", "tailcall"):
            c = callee_of(t)
            if c is None:
                continue
            name = strip_generics(c.get("res") or c["fn"])
            gname = strip_generics(c["fn"])
            if PANIC_FNS.match(name) or PANIC_FNS.match(gname):
                out.append(Site(body, bi, "call", "explicit-panic", name, t))
                continue
            cls = MAY_PANIC.get(name) or MAY_PANIC.get(gname)
            if cls:
                out.append(Site(body, bi, "call", cls, name, t))
    # stable keys: function : class/what : ordinal among equal (what) in block order
    seen = {}
    for s in out:
        base = "%s:%s" % (body.short, s.what)
        n = seen.get(base, 0)
        seen[base] = n + 1
        s.key = "%s#%d" % (base, n)
    return out
