"""R-PANIC: no reachable panic site (DESIGN 2.1)."""
import re

from vlib import mir
from vlib.mir import callee_of, op_const, op_place, strip_generics

ASSERT_KINDS = ("BoundsCheck", "Overflow", "OverflowNeg", "DivisionByZero", "RemainderByZero")
NOISE_ASSERTS = ("NullPointerDereference", "MisalignedPointerDereference")

# may-panic API table (callee path with generics stripped -> class)
MAY_PANIC = {
    "std::option::Option::unwrap": "unwrap",
    "std::option::Option::expect": "unwrap",
    "std::result::Result::unwrap": "unwrap",
    "std::result::Result::expect": "unwrap",
    "std::result::Result::unwrap_err": "unwrap",
    "std::result::Result::expect_err": "unwrap",
    "std::option::Option::unwrap_unchecked": "unwrap",
    "<std::string::String as std::ops::Index>::index": "str-index",
    "<std::string::String as std::ops::IndexMut>::index_mut": "str-index",
    "core::str::traits::<impl std::ops::Index for str>::index": "str-index",
    "core::str::traits::<impl std::ops::IndexMut for str>::index_mut": "str-index",
    "<std::vec::Vec as std::ops::Index>::index": "vec-index",
    "<std::vec::Vec as std::ops::IndexMut>::index_mut": "vec-index",
    "core::slice::index::<impl std::ops::Index for [T]>::index": "vec-index",
    "core::slice::index::<impl std::ops::IndexMut for [T]>::index_mut": "vec-index",
    "<std::collections::BTreeMap as std::ops::Index>::index": "map-index",
    "<std::collections::HashMap as std::ops::Index>::index": "map-index",
    "std::vec::Vec::remove": "vec-pos",
    "std::vec::Vec::insert": "vec-pos",
    "std::vec::Vec::swap_remove": "vec-pos",
    "std::vec::Vec::drain": "vec-pos",
    "std::vec::Vec::split_off": "vec-pos",
    "std::vec::Vec::truncate": None,
    "std::string::String::remove": "str-pos",
    "std::string::String::insert": "str-pos",
    "std::string::String::insert_str": "str-pos",
    "std::string::String::split_off": "str-pos",
    "std::string::String::drain": "str-pos",
    "std::string::String::replace_range": "str-pos",
    "core::str::<impl str>::split_at": "str-pos",
    "core::slice::<impl [T]>::split_at": "vec-pos",
    "core::slice::<impl [T]>::copy_from_slice": "vec-pos",
    "core::slice::<impl [T]>::chunks": "vec-pos",
    "core::slice::<impl [T]>::windows": "vec-pos",
    "core::slice::<impl [T]>::swap": "vec-pos",
    "std::cell::RefCell::borrow": "refcell",
    "std::cell::RefCell::borrow_mut": "refcell",
    "chrono::TimeDelta::hours": "chrono-range",
    "chrono::TimeDelta::minutes": "chrono-range",
    "chrono::TimeDelta::seconds": "chrono-range",
    "chrono::TimeDelta::days": "chrono-range",
    "chrono::TimeDelta::weeks": "chrono-range",
    "chrono::TimeDelta::milliseconds": "chrono-range",
    "<chrono::TimeDelta as std::ops::Add>::add": "chrono-range",
    "<chrono::TimeDelta as std::ops::Sub>::sub": "chrono-range",
    "<chrono::DateTime as std::ops::Add>::add": "chrono-range",
    "<chrono::DateTime as std::ops::Sub>::sub": "chrono-range",
    "<chrono::NaiveDateTime as std::ops::Add>::add": "chrono-range",
    "<chrono::NaiveDateTime as std::ops::Sub>::sub": "chrono-range",
    "chrono::NaiveDate::from_ymd": "chrono-range",
    "chrono::NaiveTime::from_hms": "chrono-range",
    "chrono::FixedOffset::east": "chrono-range",
    "chrono::FixedOffset::west": "chrono-range",
    "chrono::TimeZone::ymd": "chrono-range",
    "chrono::offset::LocalResult::unwrap": "unwrap",
    "std::fmt::format": "fmt-to-string",
    "<T as std::string::ToString>::to_string": "fmt-to-string",
    "std::iter::Iterator::step_by": "vec-pos",
    "std::option::Option::unwrap_or_else": None,
}
MAY_PANIC = {k: v for k, v in MAY_PANIC.items() if v}
PANIC_FNS = re.compile(
    r"^(core::panicking::|std::rt::begin_panic|std::panicking::|core::option::expect_failed|core::option::unwrap_failed|"
    r"core::result::unwrap_failed|std::process::abort|std::process::exit|core::intrinsics::abort)"
)


class Site:
    __slots__ = ("body", "block", "kind", "cls", "what", "key", "line", "term")

    def __init__(self, body, block, kind, cls, what, term):
        self.body = body
        self.block = block
        self.kind = kind  # 'assert' | 'call'
        self.cls = cls
        self.what = what
        self.term = term
        self.line = term.get("line", body.line)
        self.key = None

    def where(self):
        return "%s:%d" % (self.body.file, self.line)


def sites_of(body):
    """all potential panic sites of one body (normal blocks only), with stable keys"""
    out = []
    for bi, blk in enumerate(body.blocks):
        if blk.get("cleanup"):
            continue
        t = blk["term"]
        if t["k"] == "assert":
            if t["msg"] in NOISE_ASSERTS:
                continue
            cls = t["msg"]
            what = cls
            if cls == "Overflow":
                what = "Overflow(%s)" % t["detail"].get("op", "?")
            out.append(Site(body, bi, "assert", cls if cls in ASSERT_KINDS else "assert-other", what, t))
        elif t["k"] in ("call", "tailcall"):
            c = callee_of(t)
            if c is None:
                continue
            name = strip_generics(c.get("res") or c["fn"])
            gname = strip_generics(c["fn"])
            if PANIC_FNS.match(name) or PANIC_FNS.match(gname):
                out.append(Site(body, bi, "call", "explicit-panic", name, t))
                continue
            cls = MAY_PANIC.get(name) or MAY_PANIC.get(gname)
            if cls:
                out.append(Site(body, bi, "call", cls, name, t))
    # stable keys: function : class/what : ordinal among equal (what) in block order
    seen = {}
    for s in out:
        base = "%s:%s" % (body.short, s.what)
        n = seen.get(base, 0)
        seen[base] = n + 1
        s.key = "%s#%d" % (base, n)
    return out


# ====================================================================== discharge

import json
import os

from rules import guards as G
from vlib import fmtargs
from vlib.dataflow import forward

LEN_FNS = (
    "std::vec::Vec::len",
    "core::str::<impl str>::len",
    "std::string::String::len",
    "std::collections::BTreeMap::len",
    "core::slice::<impl [T]>::len",
    "len",
)
TABLE = os.path.join(os.path.dirname(os.path.dirname(os.path.abspath(__file__))), "tables", "panic_discharge.json")


def _contains_token(hay, needle):
    """needle occurs in hay as a whole place (not as the prefix of a longer place)"""
    i = hay.find(needle)
    while i >= 0:
        j = i + len(needle)
        before_ok = i == 0 or not (hay[i - 1].isalnum() or hay[i - 1] in "_.*")
        after_ok = j >= len(hay) or not (hay[j].isalnum() or hay[j] in "_.*[ ")
        if j < len(hay) and hay[j : j + 4] == " as ":
            after_ok = False
        if before_ok and after_ok:
            return True
        i = hay.find(needle, i + 1)
    return False


def is_len_of(v, r):
    return v.kind == "call" and v.v in LEN_FNS and v.args and v.args[0].same(r)


def operand_type(body, op):
    pl = mir.op_place(op)
    if pl is None:
        c = mir.op_const(op)
        return c.get("ty") if c else None
    ty = body.locals[pl["l"]]["ty"]
    for pr in pl["p"]:
        if isinstance(pr, dict) and "ty" in pr:
            ty = pr["ty"]
        elif pr == "*":
            ty = ty[1:].lstrip() if ty.startswith("&") else ty
            if ty.startswith("mut "):
                ty = ty[4:]
    return ty


class PanicRule:
    """discharges panic sites reachable from an entry set"""

    def __init__(self, ctx):
        self.ctx = ctx
        self.prog = ctx.prog
        self.table = {}
        if os.path.exists(TABLE):
            for e in json.load(open(TABLE))["entries"]:
                self.table[e["key"]] = e
        self.used_table = set()
        self._fmt_cache = {}
        self._site_cache = {}
        self._originators = None
        self._field_writes = None

    # ------------------------------------------------------------------ public
    def run(self, entries, rep, label="", data_bounded=False, skip_bodies=()):
        prog = self.prog
        reach, parent = prog.reachable_from(entries)
        rep.analysed.setdefault("panic_entries", 0)
        rep.analysed["panic_entries"] += len(entries)
        rep.analysed["panic_reachable_bodies" + label] = len(reach)
        nsites = 0
        for fid in sorted(reach):
            body = prog.bodies[fid]
            if fid in skip_bodies:
                continue
            for s in self.sites(body):
                nsites += 1
                ok, how = self.discharge(s)
                if ok:
                    rep.ok("R-PANIC", s.key, s.where(), how)
                else:
                    path = prog.path_to(parent, fid)
                    rep.bad(
                        "R-PANIC",
                        "R-PANIC:" + s.key,
                        s.where(),
                        "possible panic (%s: %s) not discharged; reachable from entry %s via %s%s"
                        % (s.cls, s.what, mir.strip_generics(path[0]), " -> ".join(mir.strip_generics(x).split("::")[-1] for x in path[-4:]), ("; " + how) if how else ""),
                        {"class": s.cls, "what": s.what, "path": [mir.strip_generics(x) for x in path]},
                    )
        return reach, nsites

    def sites(self, body):
        if body.id not in self._site_cache:
            self._site_cache[body.id] = sites_of(body)
        return self._site_cache[body.id]

    # ------------------------------------------------------------------ dispatcher
    def discharge(self, s):
        b = s.body
        t = s.term
        # table first (its predicate is re-validated on every run)
        e = self.table.get(s.key)
        if e is not None:
            pred = getattr(self, "pred_" + e["predicate"], None)
            if pred is None:
                return False, "table entry names unknown predicate %s" % e["predicate"]
            ok, why = pred(s, e.get("args", {}))
            self.used_table.add(s.key)
            if ok:
                return True, "table:%s (%s)" % (e["predicate"], why)
            return False, "table predicate %s no longer holds: %s" % (e["predicate"], why)
        for rule in (self.auto_const_bounds, self.auto_const_divisor, self.auto_index_guarded, self.auto_sep_in_iteration,
                     self.auto_counter, self.auto_captures_get0, self.auto_fmt):
            r = rule(s)
            if r:
                return True, r
        return False, ""

    # ------------------------------------------------------------------ automatic rules
    def auto_const_bounds(self, s):
        if s.cls != "BoundsCheck":
            return None
        d = s.term["detail"]
        ln = G.describe(s.body, d["len"])
        ix = G.describe(s.body, d["index"])
        if ln.kind == "const" and ix.kind == "const" and 0 <= ix.v < ln.v:
            return "D-auto-1:const index %d < const length %d" % (ix.v, ln.v)
        gs = G.guards_at(s.body, s.block)
        for g in gs:
            if g.op == "Lt" and g.a.same(ix) and g.b.same(ln):
                return "D-auto-1:index < len guard"
        return None

    def auto_const_divisor(self, s):
        if s.cls not in ("DivisionByZero", "RemainderByZero"):
            return None
        c = G.describe(s.body, s.term["cond"])
        if c.kind == "binop" and c.v == "Eq" and all(a.kind == "const" for a in c.args):
            if c.args[0].v != c.args[1].v and s.term["expected"] is False:
                return "D-auto:constant non-zero divisor %s" % c.args[0].v
        return None

    def _mutated_between(self, body, guard_block, site_block, r):
        """some call between the guard and the site takes &mut of place r"""
        for bi in G.blocks_between(body, guard_block, site_block):
            if bi == site_block:
                continue
            t = body.term(bi)
            if t["k"] != "call":
                continue
            for a, ty in zip(t["args"], t.get("arg_tys", [])):
                if ty.startswith("&mut") and G.describe(body, a).same(r):
                    return True
        return False

    def auto_index_guarded(self, s):
        if s.cls not in ("vec-index", "vec-pos", "str-index"):
            return None
        b = s.body
        args = s.term["args"]
        if len(args) < 2:
            return None
        r = G.describe(b, args[0])
        ix = G.describe(b, args[1])
        gs = G.guards_at(b, s.block)
        insert = s.what.endswith("::insert")
        need = None  # minimal length required, for constant indices
        if ix.kind == "const":
            need = ix.v + (0 if insert else 1)
        elif ix.kind == "agg" and ix.v in ("Range", "RangeFrom", "RangeTo", "RangeInclusive") and s.cls != "str-index":
            if all(a.kind == "const" for a in ix.args):
                need = max(a.v for a in ix.args) + (1 if ix.v == "RangeInclusive" else 0)
                if ix.v == "Range" and ix.args[0].v > ix.args[1].v:
                    return None
        for g in gs:
            if need is not None:
                if g.op == "Eq" and g.b is not None and g.b.kind == "const" and is_len_of(g.a, r) and g.b.v >= need:
                    if not self._mutated_between(b, g.block, s.block, r):
                        return "D-auto-1:len == %d dominates constant index (needs >= %d)" % (g.b.v, need)
                if g.op in ("Ge", "Gt") and g.b is not None and g.b.kind == "const" and is_len_of(g.a, r):
                    have = g.b.v + (1 if g.op == "Gt" else 0)
                    if have >= need and not self._mutated_between(b, g.block, s.block, r):
                        return "D-auto-1:len >= %d dominates constant index" % have
            else:
                if g.op == "Lt" and g.a.same(ix) and is_len_of(g.b, r):
                    if not self._mutated_between(b, g.block, s.block, r):
                        return "D-auto-1:index < len() guard on the same collection dominates, no intervening &mut use"
                if g.op == "Gt" and g.b is not None and g.b.same(ix) and is_len_of(g.a, r):
                    if not self._mutated_between(b, g.block, s.block, r):
                        return "D-auto-1:len() > index guard dominates"
                if insert and g.op == "Le" and g.a.same(ix) and is_len_of(g.b, r):
                    return "D-auto-1:index <= len() guard dominates insert"
        return None

    def _closure_parent(self, body):
        """(parent body, aggregate rvalue creating this closure, block) or None"""
        if body.rec["kind"] != "Closure":
            return None
        par = self.prog.bodies.get(body.rec.get("parent"))
        if par is None:
            return None
        for bi, blk in enumerate(par.blocks):
            for st in blk["stmts"]:
                if st["k"] == "assign" and st["rv"]["k"] == "agg" and st["rv"].get("closure") == body.id:
                    return par, st["rv"], bi, st["lhs"]
        return None

    def _translate_upvar(self, body, v_repr):
        """closure place '_1*.K*rest' or '_1.K*rest' -> parent's place repr, else None"""
        import re as _re

        m = _re.match(r"^_1\*?\.(\d+)\*?(.*)$", v_repr)
        cp = self._closure_parent(body)
        if not m or not cp:
            return None
        par, agg, _bi, _lhs = cp
        k = int(m.group(1))
        if k >= len(agg["ops"]):
            return None
        base = G.describe(par, agg["ops"][k])
        return par, repr(base) + "*" + m.group(2) if not repr(base).endswith("*") or True else None

    def auto_sep_in_iteration(self, s):
        """`len(R) - 1` evaluated only while an iteration over R has just yielded an element"""
        if s.cls != "Overflow" or s.term["detail"].get("op") != "Sub":
            return None
        b = s.body
        a = G.describe(b, s.term["detail"]["a"])
        c = G.describe(b, s.term["detail"]["b"])
        if not (c.kind == "const" and c.v == 1 and a.kind == "call" and a.v in LEN_FNS and a.args):
            return None
        r = repr(a.args[0])
        for g in G.guards_at(b, s.block):
            if g.op == "Eq" and g.b is not None and g.b.kind == "const" and g.b.v == 1 and g.a.kind == "discr" and g.a.args:
                nx = g.a.args[0]
                if nx.kind == "call" and nx.v.endswith("::next") and _contains_token(repr(nx), r):
                    return "D-auto-2:len()-1 inside the body of an iteration over the same collection (%s)" % r
        # closure form: the closure is passed to an iterator adaptor over the same collection
        tr = self._translate_upvar(b, r)
        if tr:
            par, pr = tr
            cp = self._closure_parent(b)
            clos_lhs = cp[3]
            for bi, t in par.calls():
                nm = mir.strip_generics(mir.callee_name(t) or "")
                if not nm.startswith("std::iter::Iterator::") and "Iterator>::" not in nm:
                    continue
                uses = any(
                    (mir.op_place(x) or {}).get("l") == clos_lhs["l"] or self._is_ref_of(par, x, clos_lhs["l"]) for x in t["args"][1:]
                )
                if uses and _contains_token(repr(G.describe(par, t["args"][0])), pr.replace("**", "*")):
                    return "D-auto-2:len()-1 inside a closure run per element of the same collection (%s via %s)" % (pr, nm.split("::")[-1])
            # normalise one level of deref difference
        return None

    def _is_ref_of(self, body, op, local):
        pl = mir.op_place(op)
        if pl is None or pl["p"]:
            return False
        sd = body.single_def(pl["l"])
        if sd and sd[1] != "term" and sd[2]["k"] == "ref":
            return sd[2]["place"]["l"] == local
        return False

    def field_writes(self):
        """(adt, field) -> list of (body, rvalue description) for every assignment to that field, crate-wide;
        aggregates constructing the ADT count as writes of each field"""
        if self._field_writes is not None:
            return self._field_writes
        fw = {}
        for body in self.prog.bodies.values():
            for bi, blk in enumerate(body.blocks):
                for st in blk["stmts"]:
                    if st["k"] != "assign":
                        continue
                    lhs = st["lhs"]
                    if lhs["p"]:
                        last = lhs["p"][-1]
                        if isinstance(last, dict) and "n" in last and "a" in last:
                            fw.setdefault((last["a"], last["n"]), []).append((body, st["rv"], bi))
                    rv = st["rv"]
                    if rv["k"] == "agg" and rv.get("ak") == "adt":
                        for fname, o in zip(rv.get("fields", []), rv["ops"]):
                            fw.setdefault((rv["adt"], fname), []).append((body, {"k": "use", "op": o}, bi))
                t = blk["term"]
                if t["k"] == "call" and t["dest"]["p"]:
                    last = t["dest"]["p"][-1]
                    if isinstance(last, dict) and "n" in last and "a" in last:
                        fw.setdefault((last["a"], last["n"]), []).append((body, {"k": "call", "t": t}, bi))
        self._field_writes = fw
        return fw

    def _is_plus_one_of(self, body, rv, place_repr):
        """rv is `move (_t.0)` with _t = AddWithOverflow(copy <place>, const 1), or a small constant"""
        if rv["k"] != "use":
            return False
        c = mir.op_const(rv["op"])
        if c is not None:
            i = mir.const_int(c)
            return i is not None and 0 <= i < (1 << 32)
        pl = mir.op_place(rv["op"])
        if pl is None or len(pl["p"]) != 1 or not isinstance(pl["p"][0], dict) or pl["p"][0].get("f") != 0:
            return False
        sd = body.single_def(pl["l"])
        if not sd or sd[1] == "term" or sd[2]["k"] != "binop" or not sd[2]["op"].startswith("Add"):
            return False
        x, y = G.describe(body, sd[2]["a"]), G.describe(body, sd[2]["b"])
        return repr(x) == place_repr and y.kind == "const" and y.v == 1

    def auto_counter(self, s):
        """x + 1 on a 64-bit unsigned counter that is only ever initialised with a constant and incremented by
        one: overflow needs 2^64 executed increments (assumption A6)"""
        if s.cls != "Overflow" or s.term["detail"].get("op") != "Add":
            return None
        b = s.body
        da, db = s.term["detail"]["a"], s.term["detail"]["b"]
        cb = G.describe(b, db)
        if not (cb.kind == "const" and cb.v == 1):
            return None
        ty = operand_type(b, da)
        if ty not in ("u64", "usize"):
            return None
        pl = mir.op_place(da)
        if pl is None:
            return None
        if not pl["p"]:
            l = pl["l"]
            if l <= b.arg_count:
                return None
            ds = b.defs().get(l, [])
            if ds and all(d[1] != "term" and self._is_plus_one_of(b, d[2], "_%d" % l) for d in ds):
                return "D-auto:counter (local %s: constant init, +1 steps only; A6)" % ty
            return None
        last = pl["p"][-1]
        if isinstance(last, dict) and "a" in last:
            ws = self.field_writes().get((last["a"], last["n"]), [])
            ok = bool(ws)
            for wb, rv, _bi in ws:
                if rv["k"] == "call":
                    ok = False
                    break
                if rv["k"] == "use":
                    c = mir.op_const(rv["op"])
                    if c is not None and mir.const_int(c) is not None and 0 <= mir.const_int(c) < (1 << 32):
                        continue
                    p2 = mir.op_place(rv["op"])
                    if p2 is not None and len(p2["p"]) == 1 and isinstance(p2["p"][0], dict):
                        sd = wb.single_def(p2["l"])
                        if sd and sd[1] != "term" and sd[2]["k"] == "binop" and sd[2]["op"].startswith("Add"):
                            x, y = G.describe(wb, sd[2]["a"]), G.describe(wb, sd[2]["b"])
                            if y.kind == "const" and y.v == 1 and repr(x).endswith("." + last["n"]):
                                continue
                ok = False
                break
            if ok:
                return "D-auto:counter (field %s.%s: %d writes crate-wide, all constant or +1; A6)" % (last["a"].split("::")[-1], last["n"], len(ws))
        return None

    def auto_captures_get0(self, s):
        if s.cls != "unwrap":
            return None
        v = G.describe(s.body, s.term["args"][0])
        if v.kind == "call" and v.v == "regex::Captures::get" and len(v.args) == 2 and v.args[1].kind == "const" and v.args[1].v == 0:
            return "D-auto-3:regex capture group 0 always participates in a match"
        return None

    # ------------------------------------------------------------------ formatting to a String
    def fmt_originators(self):
        """local bodies that can *originate* a fmt::Error (construct one), as opposed to propagating
        the formatter's own error"""
        if self._originators is not None:
            return self._originators
        out = {}
        for body in self.prog.bodies.values():
            if "units_generated" in body.id:
                continue
            for bi, blk in enumerate(body.blocks):
                if blk.get("cleanup"):
                    continue
                for st in blk["stmts"]:
                    if st["k"] != "assign":
                        continue
                    rv = st["rv"]
                    made = False
                    if rv["k"] == "agg" and rv.get("adt") == "std::fmt::Error":
                        made = True
                    for cc in mir._consts_in_rvalue(rv):
                        if cc.get("ty") == "std::fmt::Error":
                            made = True
                    if made:
                        out.setdefault(body.id, []).append(bi)
        self._originators = out
        return out

    def fmt_roots(self, trait, ty):
        """local fmt bodies that formatting a value of type `ty` through `trait` may run"""
        import re as _re

        roots = set()
        tpath = {"Display": "std::fmt::Display", "Debug": "std::fmt::Debug", "LowerHex": "std::fmt::LowerHex"}.get(trait, "std::fmt::Display")
        for adt in set(_re.findall(r"(?:haystack|c_api|poscontrol)::[A-Za-z0-9_:]+", ty)):
            for im in self.prog.impls:
                if im.get("self_adt") == adt and im.get("trait") in (tpath, "std::fmt::Debug" if trait == "Debug" else tpath):
                    for it in im["items"]:
                        if it["id"] in self.prog.bodies:
                            roots.add(it["id"])
        return roots

    def auto_fmt(self, s):
        """format!/to_string panic only if a formatting impl returns Err while writing to a String;
        discharged when no reachable local fmt impl can originate an error"""
        if s.cls != "fmt-to-string":
            return None
        b = s.body
        t = s.term
        c = callee_of(t)
        types = []
        if "to_string" in s.what:
            tys = [x for x in c.get("targs", []) if not x.startswith("'")]
            types.append(("Display", tys[0] if tys else "?"))
        else:
            a = fmtargs.arguments_of(b, t["args"][0])
            if a is None or a[1] is None:
                return None
            for tr, ty, _op in a[1]:
                types.append((tr or "Display", ty))
        roots = set()
        generic = []
        for tr, ty in types:
            core = ty.replace("&", "").replace("mut ", "").strip()
            if "::" not in core and core[:1].isupper() and core not in ("String",):
                generic.append(core)
            roots |= self.fmt_roots(tr, ty)
        key = frozenset(roots)
        if key not in self._fmt_cache:
            reach, parent = self.prog.reachable_from(sorted(roots))
            orig = [f for f in reach if f in self.fmt_originators()]
            self._fmt_cache[key] = (orig, parent)
        orig, parent = self._fmt_cache[key]
        bad = []
        for f in orig:
            for bi in self.fmt_originators()[f]:
                ok, why = self.originator_discharged(f, bi)
                if not ok:
                    bad.append("%s (%s)" % (mir.strip_generics(f), why))
        if bad:
            self._last_fmt_reason = "formatting may fail in: " + "; ".join(sorted(set(bad)))
            return None
        how = "D-fmt:no reachable formatting impl can originate fmt::Error (%d local fmt roots)" % len(roots)
        if generic:
            how += "; caller-supplied Display %s assumed not to fail (A2)" % ",".join(sorted(set(generic)))
        return how

    def originator_discharged(self, fid, bi):
        """Value::fmt constructs fmt::Error only when to_zinc_string() failed; that is impossible when the
        Zinc writer into a Vec<u8> is infallible (rules/zincwriter.py)"""
        body = self.prog.bodies[fid]
        gs = G.guards_at(body, bi)
        for g in gs:
            if g.a is not None and g.a.kind == "discr" and g.a.args:
                v = g.a.args[0]
                if v.kind == "call" and v.v.endswith("to_zinc_string") and g.op == "Eq" and g.b.v == 1:
                    from rules import zincwriter

                    ok, why = zincwriter.infallible(self.ctx)
                    return ok, ("Err arm of to_zinc_string; " + why)
        return False, "constructs fmt::Error unconditionally or under an unrecognised guard"


# ====================================================================== table predicates
# Every predicate re-validates, on the current MIR, the guard that makes its allow-listed site safe.

import subprocess

RXTOOL = os.path.join(os.path.dirname(os.path.dirname(os.path.abspath(__file__))), "engine", "rxtool", "target", "debug", "rxtool")


def rx(*args):
    out = subprocess.run([RXTOOL] + list(args), capture_output=True, text=True)
    try:
        return json.loads(out.stdout)
    except Exception:
        return {"ok": False, "error": "rxtool failed: " + out.stderr[:200]}


def _pred(fn):
    setattr(PanicRule, "pred_" + fn.__name__, fn)
    return fn


@_pred
def regex_literal_valid(self, s, args):
    v = G.describe(s.body, s.term["args"][0])
    if v.kind == "call" and v.v == "regex::Regex::new" and v.args and v.args[0].kind == "conststr":
        r = rx("analyze", v.args[0].v)
        if r.get("ok"):
            return True, "regex-syntax parses the literal (%d capture groups)" % len(r.get("captures", []))
        return False, "literal does not parse: %s" % r.get("error")
    return False, "receiver is not Regex::new(<literal>)"


def _closure_is_plus_one(prog, cid):
    b = prog.bodies.get(cid)
    if b is None:
        return False
    adds = [t for blk in b.blocks for t in [blk["term"]] if t["k"] == "assert" and t["msg"] == "Overflow"]
    calls = list(b.calls())
    return len(adds) == 1 and not calls and adds[0]["detail"].get("op") == "Add" and G.describe(b, adds[0]["detail"]["b"]).v == 1


@_pred
def find_plus_one(self, s, args):
    """`v + 1` where v is the byte offset returned by str::find: v < len <= isize::MAX"""
    cp = self._closure_parent(s.body)
    if not cp:
        return False, "not a closure"
    par, agg, bi, lhs = cp
    for cbi, t in par.calls():
        nm = mir.strip_generics(mir.callee_name(t) or "")
        if nm in ("std::option::Option::map_or", "std::option::Option::map") and any((mir.op_place(a) or {}).get("l") == lhs["l"] for a in t["args"]):
            r = G.describe(par, t["args"][0])
            if r.kind == "call" and r.v == "core::str::<impl str>::find":
                return True, "closure maps the Some(offset) of str::find; offset < len <= isize::MAX"
    return False, "closure is not applied to the result of str::find"


@_pred
def slice_from_find_plus_one(self, s, args):
    """s[k..] with k = s.find(<ASCII char>).map_or(0, |v| v + 1): k <= len and on a char boundary"""
    b = s.body
    recv = G.describe(b, s.term["args"][0])
    rng = G.describe(b, s.term["args"][1])
    if not (rng.kind == "agg" and rng.v == "RangeFrom" and rng.args):
        return False, "not a RangeFrom slice"
    k = rng.args[0]
    if not (k.kind == "call" and k.v == "std::option::Option::map_or" and len(k.args) == 3):
        return False, "start is not map_or(...)"
    f, dflt, clo = k.args
    if not (f.kind == "call" and f.v == "core::str::<impl str>::find" and f.args[0].same(recv)):
        return False, "find() is not on the sliced string"
    if not (dflt.kind == "const" and dflt.v == 0):
        return False, "default is not 0"
    if not (f.args[1].kind == "const" and 0 < f.args[1].v < 0x80):
        return False, "delimiter is not an ASCII char constant"
    cids = [c for c in self.prog.closures_of.get(b.id, [])]
    if not any(_closure_is_plus_one(self.prog, c) for c in cids):
        return False, "closure is not |v| v + 1"
    return True, "start = find(ASCII %r)+1 or 0 on the same string" % chr(f.args[1].v)
