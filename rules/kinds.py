"""C19: the finite tables that make kinds, predicates, typed conversions and typed dict getters coherent."""
import re

from rules import guards as G
from vlib import mir
from vlib.mir import callee_of, op_const, op_place, strip_generics

VAL = "haystack::val::value::Value"
KIND = "haystack::val::kind::HaystackKind"


def variants(prog, adt):
    a = prog.adts.get(adt)
    return [(v["name"], int(v["discr"])) for v in a["variants"]] if a else []


def value_switches(body, adt=VAL):
    """switch blocks whose operand is the discriminant of a place of type `adt`: [(block, terminator, place repr)]"""
    out = []
    for b in body.rpo():
        t = body.term(b)
        if t["k"] != "switch":
            continue
        pl = op_place(t["op"])
        if pl is None or pl["p"]:
            continue
        sd = body.single_def(pl["l"])
        if sd and sd[1] != "term" and sd[2]["k"] == "discr" and sd[2].get("adt") == adt:
            out.append((b, t, repr(G.describe_place(body, sd[2]["place"]))))
    return out


def arm_result(body, start, limit=30):
    """first definition of the return place reached from `start`: ('variant', name) | ('const', v) | ('str', s) | None"""
    seen = {start}
    st = [start]
    n = 0
    while st and n < limit:
        b = st.pop(0)
        n += 1
        blk = body.blocks[b]
        for s in blk["stmts"]:
            if s["k"] == "assign" and not s["lhs"]["p"] and s["lhs"]["l"] == 0:
                rv = s["rv"]
                if rv["k"] == "agg" and rv.get("ak") == "adt":
                    inner = None
                    if rv["ops"]:
                        v = G.describe(body, rv["ops"][0])
                        if v.kind == "agg":
                            inner = v.v
                        elif v.kind == "conststr":
                            inner = "str:" + v.v
                    return ("variant", rv["variant"], inner)
                if rv["k"] == "use":
                    v = G.describe(body, rv["op"])
                    if v.kind == "const":
                        return ("const", v.v, None)
                    if v.kind == "conststr":
                        return ("str", v.v, None)
                    if v.kind == "agg":
                        return ("variant", v.v, None)
                return ("other", rv["k"], None)
        t = blk["term"]
        if t["k"] == "call" and not t["dest"]["p"] and t["dest"]["l"] == 0:
            return ("call", strip_generics(mir.callee_name(t) or "?"), None)
        if t["k"] == "return":
            return None
        for x in body.succ(b):
            if x not in seen:
                seen.add(x)
                st.append(x)
    return None


def arm_results_all(body, start, limit=200):
    """every definition of the return place reachable from `start` (not only the first): set of ('variant', name) etc."""
    out = set()
    seen = {start}
    st = [start]
    n = 0
    while st and n < limit:
        b = st.pop()
        n += 1
        r = None
        blk = body.blocks[b]
        for s in blk["stmts"]:
            if s["k"] == "assign" and not s["lhs"]["p"] and s["lhs"]["l"] == 0:
                r = arm_result(body, b, limit=1)
                break
        t = blk["term"]
        if r is None and t["k"] == "call" and not t["dest"]["p"] and t["dest"]["l"] == 0:
            r = ("call", strip_generics(mir.callee_name(t) or "?"), None)
        if r is not None:
            out.add(r[:2])
            continue
        if t["k"] in ("return", "resume", "unreachable", "abort"):
            continue
        for x in body.succ(b):
            if x not in seen:
                seen.add(x)
                st.append(x)
    return out


def conditional_positive_arms(body, names_by_discr, adt=VAL):
    """variants whose arm yields the positive outcome on some paths and a negative one on others (an extra guard inside the arm)"""
    sws = value_switches(body, adt)
    if not sws:
        return []
    b, t, place = sws[-1] if len(sws) > 1 and sws[-1][2] != sws[0][2] else sws[0]
    out = []
    for val, tb in t["targets"]:
        rs = arm_results_all(body, tb)
        pos = any((r[0] == "variant" and r[1] in ("Ok", "Some")) or (r[0] == "const" and r[1] == 1) for r in rs)
        neg = any((r[0] == "variant" and r[1] in ("Err", "None")) or (r[0] == "const" and r[1] == 0) for r in rs)
        if pos and neg:
            out.append(names_by_discr.get(int(val), "?"))
    return out


def positive_variants(body, names_by_discr, adt=VAL):
    """variants of `adt` on which the function yields its positive outcome (true / Ok / Some): from the innermost switch on a
    discriminant of that type; returns (set of names, set of names leading to a negative outcome explicitly, has_default_positive)"""
    sws = value_switches(body, adt)
    if not sws:
        return None
    b, t, place = sws[-1] if len(sws) > 1 and sws[-1][2] != sws[0][2] else sws[0]
    pos, neg = set(), set()
    def is_pos(r):
        if r is None:
            return None
        if r[0] == "variant":
            return r[1] in ("Ok", "Some")
        if r[0] == "const":
            return r[1] == 1
        return None
    for val, tb in t["targets"]:
        nm = names_by_discr.get(int(val), "?")
        r = is_pos(arm_result(body, tb))
        if r is True:
            pos.add(nm)
        elif r is False:
            neg.add(nm)
        else:
            pos.add(nm + "?")
    dflt = is_pos(arm_result(body, t["otherwise"]))
    explicit = {names_by_discr.get(int(v), "?") for v, _ in t["targets"]}
    if dflt is True:
        pos |= set(names_by_discr.values()) - explicit
    return pos, neg, dflt


def table_of_switch(body, adt, names_by_discr):
    """{variant name: result} for a function that maps each variant of `adt` to a constant"""
    sws = value_switches(body, adt)
    if not sws:
        return None
    b, t, _ = sws[0]
    out = {}
    for val, tb in t["targets"]:
        out[names_by_discr.get(int(val), "?")] = arm_result(body, tb)
    return out


def str_match_table(body):
    """{string literal: result} for `match s { "lit" => .., }` compiled to a chain of str == comparisons"""
    out = {}
    for b in body.rpo():
        t = body.term(b)
        if t["k"] != "call":
            continue
        nm = strip_generics(mir.callee_name(t) or "")
        if nm.endswith("for str>::eq") or nm.endswith("PartialEq for &A>::eq") or nm.endswith("for &str>::eq"):
            lits = [G.describe(body, a) for a in t["args"]]
            lit = [v.v for v in lits if v.kind == "conststr"]
            if not lit or "t" not in t:
                continue
            sw = body.term(t["t"])
            if sw["k"] != "switch":
                continue
            vals = {int(x[0]): x[1] for x in sw["targets"]}
            true_edge = sw["otherwise"] if 0 in vals else vals.get(1)
            if true_edge is not None:
                out[lit[0]] = arm_result(body, true_edge)
    return out


def u8_match_table(body, kind_names):
    """{u8 value: result} for the `variant if variant == K as u8` chain"""
    out = {}
    for b in body.rpo():
        blk = body.blocks[b]
        for st in blk["stmts"]:
            if st["k"] == "assign" and st["rv"]["k"] == "binop" and st["rv"]["op"] == "Eq":
                a, c = G.describe(body, st["rv"]["a"]), G.describe(body, st["rv"]["b"])
                val = None
                def fold(x):
                    # an explicit discriminant (`Remove = 1`) compiles `K as u8` to <its constant> + <offset>, two constants added
                    if x.kind == "const" and isinstance(x.v, int):
                        return x.v
                    if x.kind == "binop" and str(x.v).replace("WithOverflow", "") == "Add" and len(x.args) == 2:
                        l, r = fold(x.args[0]), fold(x.args[1])
                        return l + r if l is not None and r is not None else None
                    if x.kind in ("cast",) and x.args:
                        return fold(x.args[0])
                    return None

                for v in (a, c):
                    if fold(v) is not None:
                        val = fold(v)
                    elif v.kind == "const":
                        val = v.v
                    elif v.kind == "discr" and v.args and v.args[0].kind == "agg":
                        val = kind_names.get(v.args[0].v)
                    elif v.kind == "agg" and v.v in kind_names:
                        val = kind_names[v.v]
                if val is None:
                    continue
                sw = body.term(b)
                if sw["k"] != "switch":
                    continue
                vals = {int(x[0]): x[1] for x in sw["targets"]}
                true_edge = sw["otherwise"] if 0 in vals else vals.get(1)
                if true_edge is not None:
                    out[val] = arm_result(body, true_edge)
    return out


def _indexed_name_table(b, knames):
    """{kind name: text} for `_0 = CONST_ARRAY[discr(_1) as usize]`"""
    strs = None
    arr_local = None
    for bi in range(b.n):
        for st in b.blocks[bi]["stmts"]:
            if st["k"] == "assign" and not st["lhs"]["p"] and st["rv"]["k"] == "use":
                c = op_const(st["rv"]["op"])
                if c is not None and isinstance(c.get("strs"), list):
                    strs, arr_local = c["strs"], st["lhs"]["l"]
    if strs is None:
        return None
    for _bi, si, rv in b.defs().get(0, []):
        if si == "term" or rv["k"] != "use":
            return None
        pl = op_place(rv["op"])
        if pl is None or pl["l"] != arr_local or len(pl["p"]) != 1 or not isinstance(pl["p"][0], dict) or "idx" not in pl["p"][0]:
            return None
        iv = G.describe_place(b, {"l": pl["p"][0]["idx"], "p": []})
        if not re.fullmatch(r"discr:\(_1\**\)", repr(iv)):
            return None
    if len(b.defs().get(0, [])) != 1:
        return None
    return {knames[i]: s for i, s in enumerate(strs) if i in knames}


def _try_from_other_forms(prog, b, payload, vnames):
    """(positive set, negative set, default) of a TryFrom<&Value> that does not match on the value itself:
    (a) `if value.is_k() { Ok(..) } else { Err(..) }` - Ok exactly under the kind predicate (whose own table is a separate
        obligation), by truth table; (b) `K::try_from(value).map(|v| ..)` - succeeds exactly when the wrapper's conversion does"""
    from rules import pathcond as PC

    rv = G.describe_place(b, {"l": 0, "p": []})
    if rv.kind == "call" and strip_generics(rv.v).endswith(("Result::map", "Result::and_then")) and rv.args and rv.args[0].kind == "call":
        inner = rv.args[0]
        m = re.match(r"^<(haystack::val::[A-Za-z_:]+) as std::convert::TryFrom(<[^>]*>)?>::try_from$", strip_generics(inner.v))
        if m and inner.args and re.fullmatch(r"_1\**", repr(inner.args[0])) and strip_generics(rv.v).endswith("Result::map"):
            k = payload.get(m.group(1))
            if k:
                return ({k}, set(), False)
    oks = {bi for bi in range(b.n) for st in b.blocks[bi]["stmts"] if st["k"] == "assign" and not st["lhs"]["p"] and st["lhs"]["l"] == 0 and st["rv"]["k"] == "agg" and st["rv"].get("variant") == "Ok"}
    errs = {bi for bi in range(b.n) for st in b.blocks[bi]["stmts"] if st["k"] == "assign" and not st["lhs"]["p"] and st["lhs"]["l"] == 0 and st["rv"]["k"] == "agg" and st["rv"].get("variant") == "Err"}
    if oks and errs:
        p_ok = PC.enumerate_paths(b, lambda x: x in oks)
        p_err = PC.enumerate_paths(b, lambda x: x in errs)
        atoms = PC.atoms_of(p_ok + p_err)
        if len(atoms) == 1 and re.match(r"is_[a-z_]+\(_1\**\)$", atoms[0]):
            a = atoms[0]
            o1, _ = PC.entails(p_ok, lambda asg: bool(asg.get(a)), atoms)
            o2, _ = PC.entails(p_err, lambda asg: not asg.get(a), atoms)
            kind = a[3:a.index("(")]
            name = next((nm for nm in vnames.values() if nm.lower() == kind.replace("_", "")), None)
            if o1 and o2 and name:
                return ({name}, set(), False)
    return None


def _kind_eq_is_discriminant_eq(prog):
    """HaystackKind's == compares the two discriminants and nothing else (the derived implementation of a field-less enum)"""
    for b in prog.bodies.values():
        im = b.rec.get("impl") or {}
        if b.rec.get("name") == "eq" and im.get("self_adt") == KIND and "PartialEq" in im.get("trait_ref", ""):
            discr = [st for blk in b.blocks for st in blk["stmts"] if st["k"] == "assign" and st["rv"]["k"] == "discr"]
            eqs = [st for blk in b.blocks for st in blk["stmts"] if st["k"] == "assign" and st["rv"]["k"] == "binop" and st["rv"]["op"] == "Eq"]
            return len(discr) == 2 and len(eqs) == 1 and not list(b.calls())
    return False


GETTER_KIND = {
    "get_bool": "Bool", "get_num": "Number", "get_str": "Str", "get_xstr": "XStr", "get_ref": "Ref", "get_uri": "Uri", "get_symbol": "Symbol",
    "get_date": "Date", "get_time": "Time", "get_date_time": "DateTime", "get_coord": "Coord", "get_dict": "Dict", "get_list": "List", "get_grid": "Grid",
    "has_marker": "Marker", "has_na": "Na", "has_remove": "Remove",
}
PRIM = {"bool": "Bool", "f64": "Number", "std::string::String": "Str"}


def check(ctx, rep):
    prog = ctx.prog
    vv = variants(prog, VAL)
    kk = variants(prog, KIND)
    vnames = {d: n for n, d in vv}
    knames = {d: n for n, d in kk}
    kdis = {n: d for n, d in kk}
    where_k = prog.adts[KIND]["file"] + ":%d" % prog.adts[KIND]["line"] if KIND in prog.adts else "-"
    if sorted(n for n, _ in vv) == sorted(n for n, _ in kk) and len({n for n, _ in vv}) == len(vv):
        rep.ok("R-KINDS", "kind-enum-mirrors-value-enum", where_k, "%d variants, same set of names" % len(vv))
    else:
        rep.bad("R-KINDS", "R-KINDS:kind-enum-mirrors-value-enum", where_k, "HaystackKind variants %s differ from Value variants %s" % ([n for n, _ in kk], [n for n, _ in vv]))
    nt = 0

    def find(pred):
        return [b for b in prog.bodies.values() if pred(b)]

    # From<&Value> for HaystackKind
    bs = find(lambda b: (b.rec.get("impl") or {}).get("self_adt") == KIND and "From<&" in (b.rec.get("impl") or {}).get("trait_ref", "") and "Value" in (b.rec.get("impl") or {}).get("trait_ref", "") and b.rec.get("name") == "from")
    kov = None
    if len(bs) != 1:
        rep.gap("From<&Value> for HaystackKind", "-", "found %d" % len(bs))
    else:
        tab = table_of_switch(bs[0], VAL, vnames)
        kov = {k: v[1] for k, v in (tab or {}).items() if v and v[0] == "variant"}
        nt += 1
        bad = {k: v for k, v in (tab or {}).items() if not (v and v[0] == "variant" and v[1] == k)}
        if tab and not bad and len(tab) == len(vv):
            rep.ok("R-KINDS", "kind-of-value", bs[0].where(), "each of the %d Value variants maps to the like-named kind" % len(tab))
        else:
            rep.bad("R-KINDS", "R-KINDS:kind-of-value", bs[0].where(), "From<&Value> for HaystackKind maps %s (covers %d of %d variants)" % (bad, len(tab or {}), len(vv)))
    # kind -> &str, Display, &str -> kind
    def kind_body(trait_sub, name):
        r = find(lambda b: b.rec.get("name") == name and trait_sub in (b.rec.get("impl") or {}).get("trait_ref", "") and KIND.split("::")[-1] in (b.rec.get("impl") or {}).get("trait_ref", "") and b.rec["kind"] != "Closure")
        return r[0] if len(r) == 1 else None
    b_to = kind_body("From<haystack::val::kind::HaystackKind>", "from")
    b_disp = kind_body("HaystackKind as std::fmt::Display", "fmt")
    b_from = kind_body("HaystackKind as std::convert::TryFrom<&str>", "try_from")
    b_u8 = kind_body("HaystackKind as std::convert::TryFrom<u8>", "try_from")
    t_to = t_disp = t_from = None
    if b_to is not None:
        tab = table_of_switch(b_to, KIND, knames)
        t_to = {k: v[1] for k, v in (tab or {}).items() if v and v[0] == "str"}
        if not t_to:
            # the table spelling: `NAMES[kind as usize]` with a constant array of texts - entry i belongs to the kind whose
            # discriminant is i (the texts are read from the constant's memory by the extraction engine)
            t_to = _indexed_name_table(b_to, knames) or {}
    if b_disp is not None:
        # Display assigns a local, not _0: read the constant reaching write!
        t_disp = {}
        sws = value_switches(b_disp, KIND)
        if sws:
            bb, t, _ = sws[0]
            for val, tb in t["targets"]:
                for st in b_disp.blocks[tb]["stmts"]:
                    if st["k"] == "assign" and st["rv"]["k"] == "use":
                        v = G.describe(b_disp, st["rv"]["op"])
                        if v.kind == "conststr":
                            t_disp[knames.get(int(val), "?")] = v.v
        if not t_disp and t_to is not None:
            # Display may reuse the name table instead of repeating it: what it writes is From<HaystackKind>::from(*self)
            for _bi, tt in b_disp.calls():
                c = callee_of(tt)
                nm2 = strip_generics((c.get("res") or c["fn"]) if c else "")
                targs = [x for x in (c.get("targs", []) if c else []) if not x.startswith("'")]
                is_table = (b_to is not None and nm2 == strip_generics(b_to.id)) or ((nm2.endswith("Into<U>>::into") or nm2.endswith("Into>::into")) and len(targs) == 2 and targs[0].endswith("kind::HaystackKind") and targs[1].replace("'static ", "") in ("&str", "&'static str"))
                if is_table and tt["args"] and re.fullmatch(r"_1\**", repr(G.describe(b_disp, tt["args"][0]))):
                    t_disp = dict(t_to)
    if b_from is not None:
        tab = str_match_table(b_from)
        t_from = {s: v[2] for s, v in tab.items() if v and v[0] == "variant" and v[1] == "Ok"}
        if not t_from and t_to is not None:
            # the inverse by construction: search a constant array of all kinds for the one whose name (the From table) equals
            # the text. It is the inverse of the name table exactly if the array holds every kind
            arr = None
            for pb in b_from.promoted:
                for blk in pb.blocks:
                    for st in blk["stmts"]:
                        if st["k"] == "assign" and st["rv"]["k"] == "use":
                            c = op_const(st["rv"]["op"])
                            if c is not None and "raw" in c and str(c.get("ty", "")).startswith("[" + KIND):
                                arr = list(c["raw"])
            finds = [t for _bi, t in b_from.calls() if strip_generics(mir.callee_name(t) or "").endswith("Iterator::find") or strip_generics(mir.callee_name(t) or "").endswith("Iterator>::find")]
            by_name = False
            for cid in prog.closures_of.get(b_from.id, []):
                cb = prog.bodies[cid]
                for _bi, tt in cb.calls():
                    nm2 = strip_generics(mir.callee_name(tt) or "")
                    if nm2.endswith("::eq"):
                        a = [repr(G.describe(cb, x)) for x in tt["args"]]
                        if any(("From for &'static str>::from(_2" in x or (b_to is not None and strip_generics(b_to.id) + "(_2" in x)) for x in a) and any(re.fullmatch(r"_1\*?\.0\**", x) for x in a):
                            by_name = True
            if arr is not None and len(finds) == 1 and by_name and sorted(arr) == sorted(knames) and len(set(arr)) == len(arr):
                t_from = {v: k for k, v in t_to.items()}
    for nm, tb, body in (("kind-to-str", t_to, b_to), ("kind-display", t_disp, b_disp)):
        if tb is None or body is None:
            rep.gap("HaystackKind:" + nm, "-", "table not found")
            continue
        nt += 1
        if len(tb) == len(kk) and len(set(tb.values())) == len(tb):
            rep.ok("R-KINDS", nm + ":total-injective", body.where(), "%d kinds -> %d distinct names" % (len(tb), len(set(tb.values()))))
        else:
            rep.bad("R-KINDS", "R-KINDS:" + nm + ":total-injective", body.where(), "table %s is not a total injective map of the %d kinds" % (tb, len(kk)))
    if t_to is not None and t_disp is not None:
        if t_to == t_disp:
            rep.ok("R-KINDS", "to-str-equals-display", b_disp.where(), "the two name tables are identical")
        else:
            rep.bad("R-KINDS", "R-KINDS:to-str-equals-display", b_disp.where(), "From<HaystackKind> for &str and Display disagree on %s" % sorted(k for k in set(t_to) | set(t_disp) if t_to.get(k) != t_disp.get(k)))
    if t_from is not None and t_to is not None:
        nt += 1
        inv = {v: k for k, v in t_to.items()}
        if t_from == inv:
            rep.ok("R-KINDS", "from-str-inverts-to-str", b_from.where(), "TryFrom<&str> is exactly the inverse of the name table (%d names)" % len(inv))
        else:
            diff = sorted(k for k in set(t_from) | set(inv) if t_from.get(k) != inv.get(k))
            rep.bad("R-KINDS", "R-KINDS:from-str-inverts-to-str", b_from.where(), "TryFrom<&str> is not the inverse of the name table: differs on %s (parses to %s, printed from %s)" % (diff, [t_from.get(k) for k in diff], [inv.get(k) for k in diff]))
    if b_u8 is not None:
        nt += 1
        tab = u8_match_table(b_u8, kdis)
        tu = {k: v[2] for k, v in tab.items() if v and v[0] == "variant" and v[1] == "Ok"}
        want = {d: n for n, d in kk}
        if not tu:
            # the inverse by construction: search a constant array of kinds for the one whose own numeric code equals the value
            arr = None
            for pb in b_u8.promoted:
                for blk in pb.blocks:
                    for st in blk["stmts"]:
                        if st["k"] == "assign" and st["rv"]["k"] == "use":
                            c = op_const(st["rv"]["op"])
                            if c is not None and "raw" in c and str(c.get("ty", "")).startswith("[" + KIND):
                                arr = list(c["raw"])
            finds = [t for _bi, t in b_u8.calls() if strip_generics(mir.callee_name(t) or "").endswith(("Iterator::find", "Iterator>::find"))]
            others = [strip_generics(mir.callee_name(t) or "") for _bi, t in b_u8.calls()]
            plumbing = all(x.endswith(("::iter", "::copied", "::cloned", "::find", "::ok_or_else", "::ok_or", "::into_iter", "IntoIterator>::into_iter")) for x in others)
            by_code = False
            for cid in prog.closures_of.get(b_u8.id, []):
                cb = prog.bodies[cid]
                rv = G.describe_place(cb, {"l": 0, "p": []})
                if rv.kind == "binop" and rv.v == "Eq":
                    a = [repr(x) for x in rv.args]
                    if any(re.fullmatch(r"discr:\(_2\**\)", x) for x in a) and any(re.fullmatch(r"_1\*?\.0\**", x) for x in a):
                        by_code = True
            if arr is not None and len(finds) == 1 and by_code and plumbing and len(set(arr)) == len(arr):
                tu = {c: knames[c] for c in arr if c in knames}
        if tu == want:
            rep.ok("R-KINDS", "u8-code-table", b_u8.where(), "TryFrom<u8> pairs each of the %d codes with its own kind" % len(tu))
        else:
            diff = sorted(k for k in set(tu) | set(want) if tu.get(k) != want.get(k))
            rep.bad("R-KINDS", "R-KINDS:u8-code-table", b_u8.where(), "TryFrom<u8> disagrees with the enum's numeric codes on %s: gives %s, enum says %s" % (diff, [tu.get(k) for k in diff], [want.get(k) for k in diff]))
    else:
        rep.gap("HaystackKind:TryFrom<u8>", "-", "not found")
    # Value::is_<k>
    npred = 0
    for n, d in vv:
        fn = VAL + "::is_" + n.lower()
        b = prog.get(fn)
        if b is None:
            rep.gap("Value::is_" + n.lower(), "-", "predicate not found")
            continue
        npred += 1
        r = positive_variants(b, vnames)
        key = "predicate:is_%s" % n.lower()
        if r is None and kov:
            # `HaystackKind::from(self) == HaystackKind::K`: true exactly for the variants the (checked) kind table sends to K
            rv = G.describe_place(b, {"l": 0, "p": []})
            if rv.kind == "call" and strip_generics(rv.v).endswith("kind::HaystackKind as std::cmp::PartialEq>::eq") and len(rv.args) == 2 and _kind_eq_is_discriminant_eq(prog):
                kc = [a for a in rv.args if a.kind == "agg" and a.v in kdis]
                fc = [a for a in rv.args if a.kind == "call" and strip_generics(a.v).startswith("<" + KIND + " as std::convert::From") and a.args and re.fullmatch(r"_1\**", repr(a.args[0]))]
                if len(kc) == 1 and len(fc) == 1:
                    r = ({vn for vn, kn in kov.items() if kn == kc[0].v}, set(), False)
        if r is None:
            rep.gap(key, b.where(), "no switch on the value's discriminant")
            continue
        pos, neg, dflt = r
        cond = conditional_positive_arms(b, vnames) if value_switches(b) else []
        if cond:
            rep.bad("R-KINDS", "R-KINDS:" + key + ":unconditional", b.where(), "Value::is_%s is true for Value::%s only under a further condition on the payload: some values of that kind satisfy no kind predicate" % (n.lower(), "/".join(cond)))
        elif pos == {n} and not dflt:
            rep.ok("R-KINDS", key, b.where(), "true exactly for Value::%s" % n)
        else:
            rep.bad("R-KINDS", "R-KINDS:" + key, b.where(), "Value::is_%s is true for %s%s, expected exactly {%s}" % (n.lower(), sorted(pos), " and by default" if dflt else "", n))
    # TryFrom<&Value> for T
    payload = {}
    for v in prog.adts[VAL]["variants"]:
        if v["fields"]:
            payload[v["fields"][0]["ty"]] = v["name"]
    nconv = 0
    for im in prog.impls:
        tr = im.get("trait_ref", "")
        if "std::convert::TryFrom<&" not in tr or "value::Value>" not in tr:
            continue
        ty = im["self_ty"]
        b = next((prog.bodies[it["id"]] for it in im["items"] if it["name"] == "try_from" and it["id"] in prog.bodies), None)
        if b is None:
            continue
        nconv += 1
        want = payload.get(ty) or PRIM.get(ty) or ty.split("::")[-1]
        r = positive_variants(b, vnames)
        key = "try_from:%s" % ty.split("::")[-1].rstrip(">")
        if r is None:
            r = _try_from_other_forms(prog, b, payload, vnames)
        if r is None:
            rep.gap(key, b.where(), "no switch on the value's discriminant")
            continue
        pos, neg, dflt = r
        cond = conditional_positive_arms(b, vnames)
        if cond:
            rep.bad("R-KINDS", "R-KINDS:" + key + ":unconditional", b.where(), "TryFrom<&Value> for %s succeeds for Value::%s only under a further condition inside the arm: some values of the right kind are refused" % (ty, "/".join(cond)))
        elif pos == {want} and not dflt:
            rep.ok("R-KINDS", key, b.where(), "succeeds exactly for Value::%s" % want)
        else:
            rep.bad("R-KINDS", "R-KINDS:" + key, b.where(), "TryFrom<&Value> for %s succeeds for %s%s, expected exactly {%s}" % (ty, sorted(pos), " and by default" if dflt else "", want))
    # typed dict getters
    nget = 0
    for b in prog.bodies.values():
        im = b.rec.get("impl") or {}
        if im.get("trait") != "haystack::val::dict::HaystackDict" or im.get("self_adt") != "haystack::val::dict::Dict":
            continue
        nm = b.rec.get("name")
        if nm not in GETTER_KIND:
            continue
        nget += 1
        want = GETTER_KIND[nm]
        r = positive_variants(b, vnames)
        key = "dict-getter:%s" % nm
        if r is None:
            rep.gap(key, b.where(), "no switch on the value's discriminant")
            continue
        pos, neg, dflt = r
        pos = {x.rstrip("?") for x in pos}
        if pos == {want} and not dflt:
            rep.ok("R-KINDS", key, b.where(), "yields a value exactly for Value::%s" % want)
        else:
            rep.bad("R-KINDS", "R-KINDS:" + key, b.where(), "HaystackDict::%s accepts %s%s, expected exactly {%s}" % (nm, sorted(pos), " and by default" if dflt else "", want))
    # the named shortcuts of the dict: id() / ts() are the typed getters on the conventional tags; safe_id() hands out a *copy of the
    # stored Ref* (or the default when there is none) - a Ref rebuilt from parts of it is a different value (the display name is a field)
    from rules import defsrules as _DR

    for b in prog.bodies.values():
        im = b.rec.get("impl") or {}
        if im.get("trait") != "haystack::val::dict::HaystackDict" or im.get("self_adt") != "haystack::val::dict::Dict" or b.rec["kind"] == "Closure":
            continue
        nm = b.rec.get("name")
        if nm in ("id", "ts"):
            want = {"id": "get_ref(_1*, conststr:id)", "ts": "get_date_time(_1*, conststr:mod)"}[nm]
            ret = repr(G.describe_place(b, {"l": 0, "p": []}))
            nget += 1
            tag, kindname = {"id": ("id", "Ref"), "ts": ("mod", "DateTime")}[nm]
            direct = False
            if not ret.endswith("HaystackDict>::" + want):
                # written out: the value stored under the conventional tag, yielded exactly when it is of the kind
                keys = [repr(G.describe(b, t["args"][1])) for _bi, t in b.calls() if strip_generics(mir.callee_name(t) or "").endswith(("BTreeMap::get", "Dict::get")) and len(t["args"]) > 1]
                r0 = positive_variants(b, vnames)
                direct = keys == ["conststr:%s" % tag] and r0 is not None and {x.rstrip("?") for x in r0[0]} == {kindname} and not r0[2]
            if ret.endswith("HaystackDict>::" + want) or direct:
                rep.ok("R-KINDS", "dict-shortcut:%s" % nm, b.where(), "%s() = %s" % (nm, want))
            else:
                rep.bad("R-KINDS", "R-KINDS:dict-shortcut:%s" % nm, b.where(), "HaystackDict::%s returns %s, expected self.%s" % (nm, ret[:120], want))
        elif nm == "safe_id":
            nget += 1
            cs = _DR._calls(prog, b)
            makers = [c for c in cs if "val::reference::Ref" in c[2] and not c[2].endswith(("PartialEq>::eq", "Deref>::deref"))]
            odd = [c for c in makers if not (c[2].endswith("Default>::default") or (c[2].endswith("Clone>::clone") and c[3] and re.fullmatch(r".*HaystackDict>::(get_ref\(_1\*, conststr:id\)|id\(_1\*\)) as Some\.0\**", G.expand_locals(c[0], c[3][0]))))]
            src = [c for c in cs if (c[2].endswith("HaystackDict>::get_ref") and c[3][1:] == ["conststr:id"]) or (c[2].endswith("HaystackDict>::id") and c[3] == ["_1*"])]
            if makers and not odd and len(src) == 1:
                rep.ok("R-KINDS", "dict-shortcut:safe_id", b.where(), "a clone of the stored id Ref, or Ref::default()")
            else:
                rep.bad("R-KINDS", "R-KINDS:dict-shortcut:safe_id", b.where(), "HaystackDict::safe_id builds its result with %s instead of cloning the stored Ref: parts of the stored value (its display name) are lost" % ([c[2].split("::")[-1] + "(" + ", ".join(c[3])[:60] + ")" for c in odd] or "no Ref of the dict"))
    return len(vv), npred, nconv, nget


def check_make_from_dicts(ctx, rep):
    """Grid::make_from_dicts: the column set is the de-duplicated union of *all* row keys (no filtering adaptor between the
    rows and the name set), turned into columns one-to-one and sorted by name; the rows are moved in unchanged"""
    prog = ctx.prog
    b = prog.get("haystack::val::grid::Grid::make_from_dicts")
    if b is None:
        rep.gap("Grid::make_from_dicts", "-", "not found")
        return 0
    bodies = [b] + [prog.bodies[c] for c in prog.closures_of.get(b.id, [])]
    calls = []
    for x in bodies:
        for bi, t in x.calls():
            calls.append((x, bi, strip_generics(mir.callee_name(t) or "")))
    names = [c[2] for c in calls]
    n = 0
    FILTERS = ("::filter", "::filter_map", "::take", "::skip", "::take_while", "::skip_while", "::step_by", "::find", "::nth", "::dedup_by_key")
    fl = [c for c in calls if c[2].endswith(FILTERS)]
    n += 1
    if fl:
        rep.bad("T-COLUMNS", "T-COLUMNS:make_from_dicts:no-filtering", fl[0][0].where(fl[0][1]), "make_from_dicts passes the row keys through %s: some tag names never become columns, so a row key is not a column" % fl[0][2].split("::")[-1])
    else:
        rep.ok("T-COLUMNS", "make_from_dicts:no-filtering", b.where(), "no filtering adaptor between the rows' keys and the column set")
    n += 1
    key_src = any(nm.endswith("BTreeMap::keys") or nm.endswith("Dict::keys") or nm.endswith("::keys") for nm in names)
    ins = any(nm.endswith("HashSet::insert") or nm.endswith("BTreeSet::insert") for nm in names)
    # ... or collected straight into a set: rows.iter().flat_map(|r| r.keys()).collect::<BTreeSet / HashSet>()
    set_collect = False
    sorted_set = False
    for x, bi, nm in calls:
        if nm.endswith("Iterator::collect") or nm.endswith("Iterator>::collect"):
            c = callee_of(x.term(bi))
            targs = [t for t in (c.get("targs", []) if c else []) if not t.startswith("'")]
            if any(t.startswith("std::collections::BTreeSet") or t.startswith("std::collections::HashSet") for t in targs) and any(n2.endswith("::flat_map") or n2.endswith("::flatten") for n2 in names):
                set_collect = True
                sorted_set = any(t.startswith("std::collections::BTreeSet") for t in targs)
    if key_src and (ins or set_collect):
        rep.ok("T-COLUMNS", "make_from_dicts:union-of-keys", b.where(), "every key of every row is inserted into a set (de-duplicated union)")
    else:
        rep.bad("T-COLUMNS", "T-COLUMNS:make_from_dicts:union-of-keys", b.where(), "column names are not gathered as keys() of every row inserted into a set (keys=%s, set insert=%s)" % (key_src, ins))
    n += 1
    srt = [c for c in calls if c[2].endswith("::sort_by") or c[2].endswith("::sort") or c[2].endswith("::sort_by_key") or c[2].endswith("::sort_unstable_by")]
    by_name = False
    for x in bodies:
        if x.rec["kind"] == "Closure":
            cs = [strip_generics(mir.callee_name(t) or "") for _, t in x.calls()]
            args = [repr(G.describe(x, a)) for _, t in x.calls() for a in t["args"]]
            if any(c.endswith("as std::cmp::Ord>::cmp") for c in cs) and sum(1 for a in args if a.endswith(".name")) >= 2 and not any("Reverse" in c or c.endswith("::reverse") for c in cs):
                # a.name.cmp(&b.name): first argument from the first parameter
                for _, t in x.calls():
                    if strip_generics(mir.callee_name(t) or "").endswith("as std::cmp::Ord>::cmp"):
                        a0, a1 = repr(G.describe(x, t["args"][0])), repr(G.describe(x, t["args"][1]))
                        if a0.startswith("_2") and a1.startswith("_3"):
                            by_name = True
    if sorted_set and not any(c[2].endswith("::rev") or c[2].endswith("::reverse") or "sort" in c[2].split("::")[-1] for c in calls):
        rep.ok("T-COLUMNS", "make_from_dicts:sorted-by-name", b.where(), "column names come out of a BTreeSet<&String>, which iterates in ascending order")
    elif srt and by_name:
        rep.ok("T-COLUMNS", "make_from_dicts:sorted-by-name", b.where(), "columns sorted ascending by name")
    else:
        rep.bad("T-COLUMNS", "T-COLUMNS:make_from_dicts:sorted-by-name", b.where(), "columns are not sorted ascending by name (sort call: %s, comparator a.name.cmp(b.name): %s)" % (bool(srt), by_name))
    # the records become the rows as they are: the parameter is moved into Grid.rows and nothing mutates it on the way
    n += 1
    MUT = ("retain", "retain_mut", "remove", "swap_remove", "pop", "clear", "truncate", "drain", "dedup", "dedup_by", "dedup_by_key", "sort", "sort_by", "sort_by_key",
           "sort_unstable", "sort_unstable_by", "reverse", "insert", "push", "split_off", "append", "extend", "resize", "swap", "iter_mut", "into_iter", "as_mut_slice")
    touched = []
    for bi, t in b.calls():
        nm = strip_generics(mir.callee_name(t) or "")
        if nm.split("::")[-1] in MUT and t["args"]:
            r = repr(G.describe(b, t["args"][0]))
            if nm.split("::")[-1] in ("into_iter", "iter_mut") and (nm.startswith("<&'a std::vec::Vec") or nm.startswith("<&std::vec::Vec") or nm.startswith("<&'")) and not nm.startswith("<&'a mut") and "&mut" not in nm:
                continue  # `for row in &rows`: a shared borrow
            if re.fullmatch(r"_1\*?", r):
                touched.append((bi, nm.split("::")[-1]))
    moved = False
    for bi in range(b.n):
        for st in b.blocks[bi]["stmts"]:
            if st["k"] == "assign" and st["rv"]["k"] == "agg" and st["rv"].get("adt", "").endswith("grid::Grid"):
                f2 = dict(zip(st["rv"].get("fields", []), st["rv"]["ops"]))
                if "rows" in f2 and repr(G.describe(b, f2["rows"])) == "_1":
                    moved = True
    if moved and not touched:
        rep.ok("T-COLUMNS", "make_from_dicts:rows-unchanged", b.where(), "the record list is moved into Grid.rows without being modified")
    else:
        rep.bad("T-COLUMNS", "T-COLUMNS:make_from_dicts:rows-unchanged", b.where(touched[0][0]) if touched else b.where(), "the grid's rows are not the records as given (%s): records are dropped / reordered on the way into the grid" % (", ".join("rows.%s()" % x[1] for x in touched) or "Grid.rows is not the parameter"))
    # the variant with meta is the same grid with the meta attached: every path passes make_from_dicts(<the rows argument>)
    wm = prog.get("haystack::val::grid::Grid::make_from_dicts_with_meta")
    if wm is not None:
        n += 1
        mk = {bi for bi, t in wm.calls() if strip_generics(mir.callee_name(t) or "").endswith("Grid::make_from_dicts") and t["args"] and re.fullmatch(r"_1\**", repr(G.describe(wm, t["args"][0])))}
        seen, todo, leak = set(), [0], None
        while todo:
            x = todo.pop()
            if x in seen or wm.blocks[x].get("cleanup"):
                continue
            seen.add(x)
            if x in mk:
                continue
            if wm.term(x)["k"] == "return":
                leak = x
                break
            todo.extend(wm.succ(x))
        if mk and leak is None:
            rep.ok("T-COLUMNS", "make_from_dicts_with_meta:built-from-the-rows", wm.where(), "every path passes make_from_dicts(rows)")
        else:
            rep.bad("T-COLUMNS", "T-COLUMNS:make_from_dicts_with_meta:built-from-the-rows", wm.where(leak) if leak is not None else wm.where(), "make_from_dicts_with_meta can return a grid that was not built from the given records (a path avoids make_from_dicts(rows)): their tags are not its columns")
    # one result: the grid assembled from the names - no special case that returns some other grid (an empty record list gives a grid
    # without columns, not the placeholder grid with the column `empty`)
    n += 1
    results = b.defs().get(0, [])
    other = [(bi, si) for bi, si, rv in results if si == "term" or rv["k"] != "agg"]
    if len(results) == 1 and not other:
        rep.ok("T-COLUMNS", "make_from_dicts:single-result", b.where(), "every path returns the grid assembled from the collected names")
    else:
        rep.bad("T-COLUMNS", "T-COLUMNS:make_from_dicts:single-result", b.where(other[0][0]) if other else b.where(), "make_from_dicts has %d ways of producing its result, one of them not the grid assembled from the record keys: for those inputs the columns are not the tag names of the records" % len(results))
    return n
