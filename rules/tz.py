"""R-TZ: no local-time -> instant mapping through a named (DST) zone (DESIGN 2.7)."""
import re

from vlib import mir
from vlib.mir import callee_of, strip_generics

LOCAL_TO_INSTANT = ("from_local_datetime", "from_local_date", "with_ymd_and_hms", "ymd", "ymd_opt", "yo", "yo_opt", "isoywd", "isoywd_opt", "datetime_from_str")
INSTANT_PRESERVING = ("from_utc_datetime", "from_utc_date", "timestamp", "timestamp_opt", "timestamp_millis_opt", "timestamp_nanos", "timestamp_millis", "timestamp_micros")


def check(ctx, rep):
    prog = ctx.prog
    n = 0
    seen = {}
    for b in prog.bodies.values():
        if "units_generated" in b.id or b.file.startswith("src/c_api/") and False:
            continue
        for bi, t in b.calls():
            c = callee_of(t)
            if c is None:
                continue
            fn = strip_generics(c["fn"])
            m = re.match(r"^chrono::TimeZone::([a-z_]+)$", fn)
            zone = None
            meth = None
            if m:
                meth = m.group(1)
                targs = [x for x in c.get("targs", []) if not x.startswith("'")]
                zone = targs[0] if targs else "?"
            elif fn in ("chrono::NaiveDateTime::and_local_timezone", "chrono::NaiveDate::and_local_timezone"):
                meth = "and_local_timezone"
                targs = [x for x in c.get("targs", []) if not x.startswith("'")]
                zone = targs[0] if targs else "?"
            elif fn == "chrono::DateTime::with_timezone":
                meth = "with_timezone"
                zone = "-"
            if meth is None:
                continue
            n += 1
            k = "%s:%s<%s>" % (b.short, meth, zone.split("::")[-1])
            i = seen.get(k, 0)
            seen[k] = i + 1
            key = k + "#%d" % i
            if meth in LOCAL_TO_INSTANT or meth == "and_local_timezone":
                if "chrono_tz" in zone or zone in ("Tz", "?") or re.fullmatch(r"[A-Z][A-Za-z0-9]*", zone):
                    rep.bad("R-TZ", "R-TZ:%s:%s" % (b.short, meth), b.where(bi), "%s maps a local wall-clock time to an instant through zone type %s: with a named (DST) zone this is lossy, and with a zone guessed from offset text it denotes a different instant than the input" % (meth, zone))
                else:
                    rep.ok("R-TZ", key, b.where(bi), "local -> instant through %s, a fixed offset: that is the definition of the instant" % zone.split("::")[-1])
            else:
                rep.ok("R-TZ", key, b.where(bi), "instant-preserving (%s)" % meth)
    return n
