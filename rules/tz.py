"""R-TZ: no local-time -> instant mapping through a named (DST) zone (DESIGN 2.7)."""
import re

from vlib import mir
from vlib.mir import callee_of, strip_generics

LOCAL_TO_INSTANT = ("from_local_datetime", "from_local_date", "with_ymd_and_hms", "ymd", "ymd_opt", "yo", "yo_opt", "isoywd", "isoywd_opt", "datetime_from_str")
INSTANT_PRESERVING = ("from_utc_datetime", "from_utc_date", "timestamp", "timestamp_opt", "timestamp_millis_opt", "timestamp_nanos", "timestamp_millis", "timestamp_micros")


def check(ctx, rep):
    prog = ctx.prog
    n = 0
    seen = {}
    for b in prog.bodies.values():
        if "units_generated" in b.id or b.file.startswith("src/c_api/") and False:
            continue
        for bi, t in b.calls():
            c = callee_of(t)
            if c is None:
                continue
            fn = strip_generics(c["fn"])
            m = re.match(r"^chrono::TimeZone::([a-z_]+)$", fn)
            zone = None
            meth = None
            if m:
                meth = m.group(1)
                targs = [x for x in c.get("targs", []) if not x.startswith("'")]
                zone = targs[0] if targs else "?"
            elif fn in ("chrono::NaiveDateTime::and_local_timezone", "chrono::NaiveDate::and_local_timezone"):
                meth = "and_local_timezone"
                targs = [x for x in c.get("targs", []) if not x.startswith("'")]
                zone = targs[0] if targs else "?"
            elif fn == "chrono::DateTime::with_timezone":
                meth = "with_timezone"
                zone = "-"
            if meth is None:
                continue
            n += 1
            k = "%s:%s<%s>" % (b.short, meth, zone.split("::")[-1])
            i = seen.get(k, 0)
            seen[k] = i + 1
            key = k + "#%d" % i
            if meth in LOCAL_TO_INSTANT or meth == "and_local_timezone":
                if "chrono_tz" in zone or zone in ("Tz", "?") or re.fullmatch(r"[A-Z][A-Za-z0-9]*", zone):
                    rep.bad("R-TZ", "R-TZ:%s:%s" % (b.short, meth), b.where(bi), "%s maps a local wall-clock time to an instant through zone type %s: with a named (DST) zone this is lossy, and with a zone guessed from offset text it denotes a different instant than the input" % (meth, zone))
                else:
                    rep.ok("R-TZ", key, b.where(bi), "local -> instant through %s, a fixed offset: that is the definition of the instant" % zone.split("::")[-1])
            else:
                rep.ok("R-TZ", key, b.where(bi), "instant-preserving (%s)" % meth)
    return n


# ---------------------------------------------------------------------- zone-name omission guard
from rules import guards as G
from vlib import fmtargs
from vlib.mir import op_place


def check_utc_guard(ctx, rep):
    """the zone name is left out of the written form only for the UTC zone itself: is_utc() compares the *zone* with UTC
    (not the offset, which is also zero for London in winter), and both writers omit the zone only under is_utc()"""
    prog = ctx.prog
    n = 0
    iu = prog.get("haystack::timezone::iana::is_utc")
    if iu is None:
        rep.gap("timezone::is_utc", "-", "not found")
    else:
        n += 1
        calls = [strip_generics(mir.callee_name(t) or "") for _, t in iu.calls()]
        zone_eq = any(c == "<chrono_tz::Tz as std::cmp::PartialEq>::eq" for c in calls) and any(c.endswith("DateTime::timezone") for c in calls)
        offsetish = [c for c in calls if re.search(r"(::offset$|::fix$|local_minus_utc|utc_minus_local|::ends_with$|base_utc_offset|dst_offset)", c)]
        if zone_eq and not offsetish:
            rep.ok("T-TZGUARD", "is_utc:zone-identity", iu.where(), "is_utc is `timezone() == UTC` (zone identity)")
        else:
            rep.bad("T-TZGUARD", "T-TZGUARD:is_utc:zone-identity", iu.where(), "is_utc is not the zone-identity test timezone() == UTC (calls %s): a named zone whose offset happens to be zero would be taken for UTC and lose its name" % [c.split("::")[-1] for c in calls])
    writers = [
        ("<haystack::val::datetime::DateTime as haystack::encoding::zinc::encode::ToZinc>::to_zinc", "zinc"),
        ("haystack::encoding::json::encode::<impl serde::Serialize for haystack::val::datetime::DateTime>::serialize", "hayson"),
    ]
    for short, what in writers:
        b = next((x for x in prog.bodies.values() if x.short == short), None)
        if b is None:
            rep.gap("DateTime writer " + what, "-", "not found")
            continue
        # blocks that write the zone name
        zone_sites = []
        for bi, t in b.calls():
            nm = strip_generics(mir.callee_name(t) or "")
            if nm == "serde::ser::SerializeMap::serialize_entry":
                k = G.describe(b, t["args"][1])
                if k.kind == "conststr" and k.v == "tz":
                    zone_sites.append(bi)
            elif nm in ("std::io::Write::write_fmt",):
                a = fmtargs.arguments_of(b, t["args"][1])
                if a and a[1] and any("timezone_short_name" in repr(G.describe(b, x[2])) for x in a[1]):
                    zone_sites.append(bi)
        if not zone_sites:
            rep.gap("DateTime writer %s: zone site" % what, b.where(), "no write of the zone name found")
            continue
        for zb in zone_sites:
            n += 1
            gs = G.guards_at(b, zb)
            by_utc = [g for g in gs if g.a is not None and g.a.kind == "call" and g.a.v.endswith("DateTime::is_utc") and g.op == "False"]
            others = [g for g in gs if g.a is not None and g.a.kind == "call" and not g.a.v.endswith("DateTime::is_utc") and not g.a.v.endswith("Try>::branch") and g.op in ("True", "False")]
            key = "zone-written-unless-utc:%s" % what
            if by_utc and not others:
                rep.ok("T-TZGUARD", key, b.where(zb), "the zone name is written on exactly the !is_utc() path")
            else:
                rep.bad("T-TZGUARD", "T-TZGUARD:" + key, b.where(zb), "the %s writer decides whether to write the zone name by %s instead of is_utc(): a non-UTC zone can be dropped and reads back as UTC" % (what, [repr(g)[:60] for g in (others or gs)][:2]))
    return n


def check_offset_fields(ctx, rep):
    """parse_time_zone reads the six characters sign D D ':' D D: the slices it parses as hours and minutes are exactly
    the two digit runs, the sign is the first character, east_opt is used exactly for '+' and west_opt otherwise"""
    prog = ctx.prog
    from rules import panic as P

    b = prog.get("haystack::encoding::zinc::decode::scalar::date_time::parse_time_zone")
    if b is None:
        rep.gap("parse_time_zone", "-", "not found")
        return 0
    arrays = [st["rv"] for blk in b.blocks for st in blk["stmts"] if st["k"] == "assign" and st["rv"]["k"] == "agg" and st["rv"].get("ak") == "array" and st["rv"].get("ty") == "u8"]
    if len(arrays) != 1:
        rep.gap("parse_time_zone:offset array", b.where(), "expected one byte array literal, found %d" % len(arrays))
        return 0
    classes = []
    for o in arrays[0]["ops"]:
        r = fmtargs.chase(b, o)
        cls = "?"
        pl = r[1] if r and r[0] == "place" else None
        if pl is not None:
            sd = b.single_def(pl["l"])
            if sd and sd[1] == "term" and sd[2]["args"]:
                rr = fmtargs.chase(b, sd[2]["args"][0])
                if rr and rr[0] == "call":
                    call = rr[1]
                    nm = strip_generics(mir.callee_name(call) or "")
                    kind = P.EXPECT_FNS.get(nm)
                    if kind == "range":
                        rg = P._range_const(b, call["args"][1])
                        cls = "digit" if rg == (48, 57) else "range%s" % (rg,)
                    elif kind == "str":
                        v = G.describe(b, call["args"][1])
                        cls = "sign" if v.kind == "conststr" and set(v.v) == {"+", "-"} else "set"
                    elif kind == "byte":
                        v = G.describe(b, call["args"][1])
                        cls = "lit:%s" % chr(v.v) if v.kind == "const" else "byte"
        classes.append(cls)
    runs = []
    i = 0
    while i < len(classes):
        if classes[i] == "digit":
            j = i
            while j < len(classes) and classes[j] == "digit":
                j += 1
            runs.append((i, j))
            i = j
        else:
            i += 1
    signpos = [(i, i + 1) for i, c in enumerate(classes) if c == "sign"]
    n = 0

    def slice_of(v):
        # unwrap_or(parse(index(S, Range(a,b))), 0)
        if v.kind == "call" and v.v == "std::result::Result::unwrap_or" and v.args and v.args[0].kind == "call" and v.args[0].v == "core::str::<impl str>::parse":
            ix = v.args[0].args[0]
            if ix.kind == "call" and ix.v.endswith("::index") and ix.args[1].kind == "agg" and ix.args[1].v == "Range":
                a, c = ix.args[1].args
                if a.kind == "const" and c.kind == "const":
                    return (a.v, c.v)
        return None

    got = {}
    for bi, t in b.calls():
        nm = strip_generics(mir.callee_name(t) or "")
        if nm in ("chrono::TimeDelta::hours", "chrono::TimeDelta::minutes"):
            got[nm.split("::")[-1]] = (slice_of(G.describe(b, t["args"][0])), bi)
    for what, idx in (("hours", 0), ("minutes", 1)):
        n += 1
        key = "offset-field:%s" % what
        want = runs[idx] if len(runs) > idx else None
        g = got.get(what)
        if g and g[0] == want and want is not None:
            rep.ok("T-OFFSET", key, b.where(g[1]), "%s parsed from characters %s, the %s digit run of the pattern %s" % (what, want, ["first", "second"][idx], classes))
        else:
            rep.bad("T-OFFSET", "T-OFFSET:" + key, b.where(g[1]) if g else b.where(), "%s are parsed from characters %s but the %s digit run of the scanned pattern %s is %s: the offset read differs from the one written" % (what, g[0] if g else None, ["first", "second"][idx], classes, want))
    # sign
    east = [bi for bi, t in b.calls() if strip_generics(mir.callee_name(t) or "") == "chrono::FixedOffset::east_opt"]
    west = [bi for bi, t in b.calls() if strip_generics(mir.callee_name(t) or "") == "chrono::FixedOffset::west_opt"]
    n += 1

    def plus_guard(bi, truth):
        for g in G.guards_at(b, bi):
            r = repr(g)
            if g.op == truth and "conststr:+" in r and ("::eq(" in r):
                # the compared string must be the sign slice
                for sp in signpos:
                    if "const %d, const %d" % sp in r:
                        return True
        return False

    if east and west and all(plus_guard(x, "True") for x in east) and all(plus_guard(x, "False") for x in west):
        rep.ok("T-OFFSET", "offset-sign", b.where(east[0]), "east_opt under sign == \"+\", west_opt otherwise; the sign is character %s" % (signpos[0],))
    else:
        rep.bad("T-OFFSET", "T-OFFSET:offset-sign", b.where((east + west + [0])[0]), "the offset's direction is not selected by the sign character (east_opt sites %s, west_opt sites %s): negative offsets are read wrongly" % (east, west))
    return n
