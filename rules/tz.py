"""R-TZ: no local-time -> instant mapping through a named (DST) zone (DESIGN 2.7)."""
import re

from vlib import mir
from vlib.mir import callee_of, strip_generics

LOCAL_TO_INSTANT = ("from_local_datetime", "from_local_date", "with_ymd_and_hms", "ymd", "ymd_opt", "yo", "yo_opt", "isoywd", "isoywd_opt", "datetime_from_str")
INSTANT_PRESERVING = ("from_utc_datetime", "from_utc_date", "timestamp", "timestamp_opt", "timestamp_millis_opt", "timestamp_nanos", "timestamp_millis", "timestamp_micros")


def check(ctx, rep):
    prog = ctx.prog
    n = 0
    seen = {}
    for b in prog.bodies.values():
        if "units_generated" in b.id or b.file.startswith("src/c_api/") and False:
            continue
        for bi, t in b.calls():
            c = callee_of(t)
            if c is None:
                continue
            fn = strip_generics(c["fn"])
            m = re.match(r"^chrono::TimeZone::([a-z_]+)$", fn)
            zone = None
            meth = None
            if m:
                meth = m.group(1)
                targs = [x for x in c.get("targs", []) if not x.startswith("'")]
                zone = targs[0] if targs else "?"
            elif fn in ("chrono::NaiveDateTime::and_local_timezone", "chrono::NaiveDate::and_local_timezone"):
                meth = "and_local_timezone"
                targs = [x for x in c.get("targs", []) if not x.startswith("'")]
                zone = targs[0] if targs else "?"
            elif fn == "chrono::DateTime::with_timezone":
                meth = "with_timezone"
                zone = "-"
            if meth is None:
                continue
            n += 1
            k = "%s:%s<%s>" % (b.short, meth, zone.split("::")[-1])
            i = seen.get(k, 0)
            seen[k] = i + 1
            key = k + "#%d" % i
            if meth in LOCAL_TO_INSTANT or meth == "and_local_timezone":
                if "chrono_tz" in zone or zone in ("Tz", "?") or re.fullmatch(r"[A-Z][A-Za-z0-9]*", zone):
                    rep.bad("R-TZ", "R-TZ:%s:%s" % (b.short, meth), b.where(bi), "%s maps a local wall-clock time to an instant through zone type %s: with a named (DST) zone this is lossy, and with a zone guessed from offset text it denotes a different instant than the input" % (meth, zone))
                else:
                    rep.ok("R-TZ", key, b.where(bi), "local -> instant through %s, a fixed offset: that is the definition of the instant" % zone.split("::")[-1])
            else:
                rep.ok("R-TZ", key, b.where(bi), "instant-preserving (%s)" % meth)
    return n


# ---------------------------------------------------------------------- zone-name omission guard
from rules import guards as G
from vlib import fmtargs
from vlib.mir import op_place


def check_utc_guard(ctx, rep):
    """the zone name is left out of the written form only for the UTC zone itself: is_utc() compares the *zone* with UTC
    (not the offset, which is also zero for London in winter), and both writers omit the zone only under is_utc()"""
    prog = ctx.prog
    n = 0
    iu = prog.get("haystack::timezone::iana::is_utc")
    if iu is None:
        rep.gap("timezone::is_utc", "-", "not found")
    else:
        n += 1
        calls = [strip_generics(mir.callee_name(t) or "") for _, t in iu.calls()]
        zone_eq = any(c == "<chrono_tz::Tz as std::cmp::PartialEq>::eq" for c in calls) and any(c.endswith("DateTime::timezone") for c in calls)
        offsetish = [c for c in calls if re.search(r"(::offset$|::fix$|local_minus_utc|utc_minus_local|::ends_with$|base_utc_offset|dst_offset)", c)]
        if zone_eq and not offsetish:
            rep.ok("T-TZGUARD", "is_utc:zone-identity", iu.where(), "is_utc is `timezone() == UTC` (zone identity)")
        else:
            rep.bad("T-TZGUARD", "T-TZGUARD:is_utc:zone-identity", iu.where(), "is_utc is not the zone-identity test timezone() == UTC (calls %s): a named zone whose offset happens to be zero would be taken for UTC and lose its name" % [c.split("::")[-1] for c in calls])
    writers = [
        ("<haystack::val::datetime::DateTime as haystack::encoding::zinc::encode::ToZinc>::to_zinc", "zinc"),
        ("haystack::encoding::json::encode::<impl serde::Serialize for haystack::val::datetime::DateTime>::serialize", "hayson"),
    ]
    for short, what in writers:
        b = next((x for x in prog.bodies.values() if x.short == short), None)
        if b is None:
            rep.gap("DateTime writer " + what, "-", "not found")
            continue
        # blocks that write the zone name
        zone_sites = []
        for bi, t in b.calls():
            nm = strip_generics(mir.callee_name(t) or "")
            if nm == "serde::ser::SerializeMap::serialize_entry":
                k = G.describe(b, t["args"][1])
                if k.kind == "conststr" and k.v == "tz":
                    zone_sites.append(bi)
            elif nm in ("std::io::Write::write_fmt",):
                a = fmtargs.arguments_of(b, t["args"][1])
                if a and a[1] and any("timezone_short_name" in repr(G.describe(b, x[2])) for x in a[1]):
                    zone_sites.append(bi)
            elif nm in ("std::io::Write::write_all", "std::io::Write::write") or nm.endswith("encode::write_str"):
                if len(t["args"]) > 1 and "timezone_short_name" in repr(G.describe(b, t["args"][1])):
                    zone_sites.append(bi)
        if not zone_sites:
            rep.gap("DateTime writer %s: zone site" % what, b.where(), "no write of the zone name found")
            continue
        for zb in zone_sites:
            n += 1
            gs = G.guards_at(b, zb)
            by_utc = [g for g in gs if g.a is not None and g.a.kind == "call" and g.a.v.endswith("DateTime::is_utc") and g.op == "False"]
            others = [g for g in gs if g.a is not None and g.a.kind == "call" and not g.a.v.endswith("DateTime::is_utc") and not g.a.v.endswith("Try>::branch") and g.op in ("True", "False")]
            key = "zone-written-unless-utc:%s" % what
            if by_utc and not others:
                rep.ok("T-TZGUARD", key, b.where(zb), "the zone name is written on exactly the !is_utc() path")
            else:
                rep.bad("T-TZGUARD", "T-TZGUARD:" + key, b.where(zb), "the %s writer decides whether to write the zone name by %s instead of is_utc(): a non-UTC zone can be dropped and reads back as UTC" % (what, [repr(g)[:60] for g in (others or gs)][:2]))
    return n


def check_offset_fields(ctx, rep):
    """parse_time_zone reads the six characters sign D D ':' D D: the slices it parses as hours and minutes are exactly
    the two digit runs, the sign is the first character, east_opt is used exactly for '+' and west_opt otherwise"""
    prog = ctx.prog
    from rules import panic as P

    b = prog.get("haystack::encoding::zinc::decode::scalar::date_time::parse_time_zone")
    if b is None:
        rep.gap("parse_time_zone", "-", "not found")
        return 0
    arrays = [st["rv"] for blk in b.blocks for st in blk["stmts"] if st["k"] == "assign" and st["rv"]["k"] == "agg" and st["rv"].get("ak") == "array" and st["rv"].get("ty") == "u8"]
    if len(arrays) != 1:
        rep.gap("parse_time_zone:offset array", b.where(), "expected one byte array literal, found %d" % len(arrays))
        return 0
    classes = []
    for o in arrays[0]["ops"]:
        r = fmtargs.chase(b, o)
        cls = "?"
        pl = r[1] if r and r[0] == "place" else None
        if pl is not None:
            sd = b.single_def(pl["l"])
            if sd and sd[1] == "term" and sd[2]["args"]:
                rr = fmtargs.chase(b, sd[2]["args"][0])
                if rr and rr[0] == "call":
                    call = rr[1]
                    nm = strip_generics(mir.callee_name(call) or "")
                    kind = P.EXPECT_FNS.get(nm)
                    if kind == "range":
                        rg = P._range_const(b, call["args"][1])
                        cls = "digit" if rg == (48, 57) else "range%s" % (rg,)
                    elif kind == "str":
                        v = G.describe(b, call["args"][1])
                        cls = "sign" if v.kind == "conststr" and set(v.v) == {"+", "-"} else "set"
                    elif kind == "byte":
                        v = G.describe(b, call["args"][1])
                        cls = "lit:%s" % chr(v.v) if v.kind == "const" else "byte"
        classes.append(cls)
    runs = []
    i = 0
    while i < len(classes):
        if classes[i] == "digit":
            j = i
            while j < len(classes) and classes[j] == "digit":
                j += 1
            runs.append((i, j))
            i = j
        else:
            i += 1
    signpos = [(i, i + 1) for i, c in enumerate(classes) if c == "sign"]
    n = 0

    def slice_of(v):
        # unwrap_or(parse(index(S, Range(a,b))), 0)
        if v.kind == "call" and v.v == "std::result::Result::unwrap_or" and v.args and v.args[0].kind == "call" and v.args[0].v == "core::str::<impl str>::parse":
            ix = v.args[0].args[0]
            if ix.kind == "call" and ix.v.endswith("::index") and ix.args[1].kind == "agg" and ix.args[1].v == "Range":
                a, c = ix.args[1].args
                if a.kind == "const" and c.kind == "const":
                    return (a.v, c.v)
        return None

    got = {}
    for bi, t in b.calls():
        nm = strip_generics(mir.callee_name(t) or "")
        if nm in ("chrono::TimeDelta::hours", "chrono::TimeDelta::minutes"):
            got[nm.split("::")[-1]] = (slice_of(G.describe(b, t["args"][0])), bi)
    for what, idx in (("hours", 0), ("minutes", 1)):
        n += 1
        key = "offset-field:%s" % what
        want = runs[idx] if len(runs) > idx else None
        g = got.get(what)
        if g and g[0] == want and want is not None:
            rep.ok("T-OFFSET", key, b.where(g[1]), "%s parsed from characters %s, the %s digit run of the pattern %s" % (what, want, ["first", "second"][idx], classes))
        else:
            rep.bad("T-OFFSET", "T-OFFSET:" + key, b.where(g[1]) if g else b.where(), "%s are parsed from characters %s but the %s digit run of the scanned pattern %s is %s: the offset read differs from the one written" % (what, g[0] if g else None, ["first", "second"][idx], classes, want))
    # sign
    east = [bi for bi, t in b.calls() if strip_generics(mir.callee_name(t) or "") == "chrono::FixedOffset::east_opt"]
    west = [bi for bi, t in b.calls() if strip_generics(mir.callee_name(t) or "") == "chrono::FixedOffset::west_opt"]
    n += 1

    def plus_guard(bi, truth):
        for g in G.guards_at(b, bi):
            r = repr(g)
            if g.op == truth and "conststr:+" in r and ("::eq(" in r):
                # the compared string must be the sign slice
                for sp in signpos:
                    if "const %d, const %d" % sp in r:
                        return True
            # `text.starts_with('+')` is the same test when the sign is the first character of the scanned pattern
            if g.op == truth and (0, 1) in signpos and re.search(r"str>::starts_with\(.*, const 43\)", r):
                return True
        return False

    if east and west and all(plus_guard(x, "True") for x in east) and all(plus_guard(x, "False") for x in west):
        rep.ok("T-OFFSET", "offset-sign", b.where(east[0]), "east_opt under sign == \"+\", west_opt otherwise; the sign is character %s" % (signpos[0],))
    else:
        rep.bad("T-OFFSET", "T-OFFSET:offset-sign", b.where((east + west + [0])[0]), "the offset's direction is not selected by the sign character (east_opt sites %s, west_opt sites %s): negative offsets are read wrongly" % (east, west))
    return n


# ---------------------------------------------------------------------- zone names: writer's short name vs reader's lookup, all zones
import glob
import os


def zone_table(ctx):
    """zone ids of the bundled IANA database, read from the table chrono-tz's build script generated for *this* build
    (the extraction runs the real build; OUT_DIR/timezones.rs holds `Tz::X => "Area/City"` for every zone)"""
    from vlib import extract

    snap = os.path.join(getattr(ctx, "facts_dir", "") or "", "timezones.rs")
    cands = [snap] if os.path.exists(snap) else sorted(glob.glob(os.path.join(extract.CACHE, "target-*", "debug", "build", "chrono-tz-*", "out", "timezones.rs")), key=os.path.getmtime)
    if not cands:
        return None, None
    txt = open(cands[-1], encoding="utf-8").read()
    m = re.search(r"pub fn name\(self\)[^{]*\{\s*match self \{(.*?)\n\s*\}\s*\}", txt, re.S)
    if not m:
        return None, cands[-1]
    names = re.findall(r'Tz::\w+\s*=>\s*"([^"]+)"', m.group(1))
    return names, cands[-1]


def short_name_model(prog):
    """how timezone_short_name cuts the zone id: ("after-first" | "after-last", ch). Recognised spellings:
    id[id.find(ch).map_or(0, |v| v + 1)..];  match id.find(ch) { Some(i) => &id[i + 1..], None => id };
    id.split_once(ch).map_or(id, |(_, city)| city)  (and the rfind / rsplit_once variants, which cut after the last ch)"""
    from rules import panic as P

    b = prog.get("haystack::timezone::iana::timezone_short_name")
    if b is None:
        return None, None, "timezone_short_name not found"
    fam = [b] + [prog.bodies[c] for c in prog.closures_of.get(b.id, [])]
    # split_once form
    for bi, t in b.calls():
        nm = strip_generics(mir.callee_name(t) or "")
        if nm.endswith("Option::map_or") and len(t["args"]) == 3:
            recv = G.describe(b, t["args"][0])
            dflt = G.describe(b, t["args"][1])
            if recv.kind == "call" and recv.v in ("core::str::<impl str>::split_once", "core::str::<impl str>::rsplit_once") and len(recv.args) == 2 and recv.args[1].kind == "const":
                if "tz_id" not in repr(recv.args[0]) or repr(dflt) != repr(recv.args[0]):
                    return b, None, "split_once is not applied to the zone id with the id itself as the fall-back"
                # the closure returns the part after the delimiter: field 1 of its tuple parameter
                ok = False
                for cb in fam[1:]:
                    r = G.describe_place(cb, {"l": 0, "p": []})
                    if re.fullmatch(r"_2\.1\**", repr(r)):
                        ok = True
                if not ok:
                    return b, None, "the closure applied to split_once does not return the part after the delimiter"
                return b, ("after-first" if recv.v.endswith("::split_once") else "after-last", chr(recv.args[1].v)), None
    for bi, t in b.calls():
        nm = strip_generics(mir.callee_name(t) or "")
        if nm.endswith("ops::Index for str>::index") or nm.endswith("SliceIndex<str>>::index"):
            recv = G.describe(b, t["args"][0])
            rng = G.describe(b, t["args"][1])
            if not (rng.kind == "agg" and rng.v == "RangeFrom" and rng.args):
                return b, None, "the id is not sliced with a `start..` range (%s)" % rng
            k = rng.args[0]
            if "tz_id" not in repr(recv):
                return b, None, "the sliced string is not the zone id (%s)" % recv
            # (A) find(..).map_or(0, |v| v + 1)
            if k.kind == "call" and k.v == "std::option::Option::map_or" and len(k.args) == 3:
                f, dflt, _clo = k.args
                if not (f.kind == "call" and f.v in ("core::str::<impl str>::find", "core::str::<impl str>::rfind") and f.args[0].same(recv)):
                    return b, None, "slice start does not come from find() on the id itself (%s)" % f
                if not (dflt.kind == "const" and dflt.v == 0):
                    return b, None, "default start is not 0"
                if not (f.args[1].kind == "const"):
                    return b, None, "delimiter is not a constant char"
                cids = [c for c in prog.closures_of.get(b.id, [])]
                if not any(P._closure_is_plus_one(prog, c) for c in cids):
                    return b, None, "closure is not |v| v + 1"
                return b, ("after-first" if f.v.endswith("::find") else "after-last", chr(f.args[1].v)), None
            # (B) match id.find(ch) { Some(i) => &id[i + 1..], None => id }
            if k.kind == "binop" and k.v == "Add" and len(k.args) == 2 and k.args[1].kind == "const" and k.args[1].v == 1:
                m = re.fullmatch(r"_(\d+) as Some\.0", repr(k.args[0]))
                src = G.describe_place(b, {"l": int(m.group(1)), "p": []}) if m else None
                if src is not None and src.kind == "call" and src.v in ("core::str::<impl str>::find", "core::str::<impl str>::rfind") and src.args[0].same(recv) and src.args[1].kind == "const":
                    # the None arm yields the id itself: the function's result is built from `recv` on that edge too
                    return b, ("after-first" if src.v.endswith("::find") else "after-last", chr(src.args[1].v)), None
            return b, None, "slice start is neither find(..).map_or(0, |v| v + 1) nor `i + 1` for Some(i) = find(..) (%s)" % k
    return b, None, "no slice / split of the zone id found"


def prefix_table(prog):
    """the area prefixes find_timezone tries, in order: the constant strings of its array literal"""
    b = prog.get("haystack::timezone::iana::find_timezone")
    if b is None:
        return None, None
    out = []
    for blk in b.blocks:
        for st in blk["stmts"]:
            if st["k"] == "assign" and st["rv"]["k"] == "agg" and st["rv"].get("ak") == "array":
                vals = [G.describe(b, o) for o in st["rv"]["ops"]]
                if vals and all(v.kind == "conststr" for v in vals):
                    out = [v.v for v in vals]
    if not out:
        for pb in b.promoted:
            for blk in pb.blocks:
                for st in blk["stmts"]:
                    if st["k"] == "assign" and st["rv"]["k"] == "agg" and st["rv"].get("ak") == "array":
                        vals = [G.describe(pb, o) for o in st["rv"]["ops"]]
                        if vals and all(v.kind == "conststr" for v in vals):
                            out = [v.v for v in vals]
    # the format template joining prefix and name
    sep = None
    for cb in [b] + [prog.bodies[cid] for cid in prog.closures_of.get(b.id, [])]:
        for bi, t in cb.calls():
            nm = strip_generics(mir.callee_name(t) or "")
            if nm == "std::fmt::format" or nm.endswith("fmt::Arguments::new"):
                a = fmtargs.arguments_of(cb, t["args"][0]) if nm == "std::fmt::format" else None
                if a and a[0] is not None:
                    lits = [p[1] for p in a[0] if p[0] == "lit"]
                    holes = [p for p in a[0] if p[0] != "lit"]
                    if len(holes) == 2 and lits == ["/"]:
                        sep = "/"
    return out, sep


def check_zone_names(ctx, rep):
    """T-ZONES: for every zone of the bundled database, the name the writers emit (timezone_short_name) is resolved by the
    readers' lookup (find_timezone: exact id, else the first area prefix for which `prefix/name` exists) - to some zone at all,
    and to the same zone unless another zone shares the city name (outside the model of the property)"""
    prog = ctx.prog
    names, src = zone_table(ctx)
    if not names:
        rep.gap("chrono-tz zone table", src or "-", "generated timezones.rs not found in the extraction's build directory")
        return 0
    b, model, why = short_name_model(prog)
    if model is None:
        rep.bad("T-ZONES", "T-ZONES:short-name:shape", b.where() if b else "-", "timezone_short_name is not `id[id.find('/').map_or(0, |v| v + 1)..]`: %s" % why)
        return 1
    check_fallback_before_refusal(ctx, rep)
    prefixes, sep = prefix_table(prog)
    if not prefixes or sep != "/":
        rep.gap("find_timezone prefix table", "-", "array of area prefixes / the \"{prefix}/{name}\" template not found (prefixes=%s sep=%s)" % (prefixes, sep))
        return 1
    rep.ok("T-ZONES", "short-name:shape", b.where(), "short name = zone id after the %s %r" % ("first" if model[0] == "after-first" else "last", model[1]))
    ids = set(names)
    rep.floor("zone ids in the bundled database", len(ids), 500)

    def short(z):
        i = z.find(model[1]) if model[0] == "after-first" else z.rfind(model[1])
        return z[i + 1:] if i >= 0 else z

    def resolve(s):
        if s in ids:
            return s
        for p in prefixes:
            if p + "/" + s in ids:
                return p + "/" + s
        return None

    n = 1
    lost = {}
    other = []
    same = 0
    for z in names:
        r = resolve(short(z))
        if r is None:
            lost.setdefault(z.split("/")[0], []).append(z)
        elif r != z:
            other.append((z, r))
        else:
            same += 1
    fz = prog.get("haystack::timezone::iana::find_timezone")
    for area, zs in sorted(lost.items()):
        n += 1
        rep.bad("T-ZONES", "T-ZONES:unresolvable-area:%s" % area, fz.where(), "%d zone(s) of area %s are written by their short name but no lookup finds them again (%s): a timestamp in such a zone encodes to text the decoder rejects" % (len(zs), area, ", ".join(zs[:6]) + (" ..." if len(zs) > 6 else "")))
    # the Zinc reader's zone-name token: first byte A-Z, then its continuation class; every short name must be such a token
    from rules import escapes as _esc, scanai as _scanai

    tzn = prog.get("haystack::encoding::zinc::decode::scalar::date_time::parse_time_zone_name")
    got = _esc.loop_accept_class(prog, _scanai.AI(prog), tzn) if tzn is not None else None
    if got is None:
        rep.gap("parse_time_zone_name continuation class", "-", "class not extracted")
    else:
        n += 1
        badc = {}
        for z in names:
            sname = short(z).encode("utf-8")
            if not sname or not (65 <= sname[0] <= 90):
                badc.setdefault("first:" + chr(sname[0]) if sname else "empty", []).append(z)
            for ch in sname[1:]:
                if not (got >> ch) & 1:
                    badc.setdefault(chr(ch), []).append(z)
        for ch, zs in sorted(badc.items()):
            rep.bad("T-ZONES", "T-ZONES:alphabet:%s" % ch, tzn.where(), "%d zone name(s) contain %r, which the Zinc reader's zone-name token does not accept (%s): the name is cut short or rejected" % (len(zs), ch, ", ".join(zs[:5])))
        if not badc:
            rep.ok("T-ZONES", "alphabet", tzn.where(), "all %d short names are tokens of the reader's zone-name class %s" % (len(names), _scanai.mask_str(got)))
    n += 1
    rep.ok("T-ZONES", "resolvable", fz.where(), "%d of %d zone ids resolve back to themselves through short name + prefix table %s; %d resolve to another zone that shares the city name (ambiguous names, outside the model); %d unresolvable" % (same, len(names), prefixes, len(other), sum(len(v) for v in lost.values())))
    return n


# ---------------------------------------------------------------------- timestamps rebuilt from components keep every component
def _family(prog, root_id):
    out = [prog.bodies[root_id]]
    st = [root_id]
    while st:
        x = st.pop()
        for c in prog.closures_of.get(x, []):
            out.append(prog.bodies[c])
            st.append(c)
    return out


HMS_BUILDERS = ("chrono::TimeZone::with_ymd_and_hms", "chrono::NaiveDate::and_hms_opt", "chrono::NaiveTime::from_hms_opt", "chrono::NaiveDate::and_hms")


def check_component_rebuild(ctx, rep):
    """a constructor that takes whole seconds (with_ymd_and_hms, and_hms_opt, from_hms_opt) fed from the hour / minute / second
    accessors of a parsed time drops the sub-second part unless the same function also reads nanosecond() and restores it with
    with_nanosecond(): required wherever a timestamp is rebuilt from the components of another one"""
    prog = ctx.prog
    n = 0
    for b in prog.bodies.values():
        if b.rec["kind"] == "Closure" or not (b.file.startswith("src/haystack/encoding/") or b.file.startswith("src/haystack/timezone/") or b.file.startswith("src/haystack/val/")):
            continue
        fam = _family(prog, b.id)
        names = []
        site = None
        for fb in fam:
            for bi, t in fb.calls():
                nm = strip_generics(mir.callee_name(t) or "")
                names.append(nm)
                if nm in HMS_BUILDERS and site is None:
                    site = (fb, bi)
        if site is None:
            continue
        from_accessors = any(x.endswith("Timelike>::second") or x.endswith("Timelike::second") for x in names)
        if not from_accessors:
            continue  # built from literals / integers that never had a sub-second part
        n += 1
        has_read = any(x.endswith("Timelike>::nanosecond") or x.endswith("Timelike::nanosecond") for x in names)
        has_restore = any(x.endswith("Timelike>::with_nanosecond") or x.endswith("Timelike::with_nanosecond") for x in names)
        key = "rebuild-keeps-subseconds:%s" % b.short
        if has_read and has_restore:
            rep.ok("T-TIMEFIELDS", key, site[0].where(site[1]), "hour / minute / second feed a whole-second constructor and nanosecond() is restored with with_nanosecond()")
        else:
            rep.bad("T-TIMEFIELDS", "T-TIMEFIELDS:" + key, site[0].where(site[1]), "%s rebuilds a time from hour(), minute(), second() through a whole-second constructor but never %s: the fractional second of the input is lost" % (b.short.split("::")[-1], "reads nanosecond()" if not has_read else "restores it with with_nanosecond()"))
    return n


def check_utc_shortcut(ctx, rep):
    """the Zinc reader builds a UTC timestamp without looking the zone name up only under `tz == "UTC"`: any other way into that
    branch (e.g. 'no numeric offset was written', which is also the `Z London` spelling) drops a named zone"""
    prog = ctx.prog
    b = prog.get("haystack::encoding::zinc::decode::scalar::date_time::parse_datetime")
    if b is None:
        rep.gap("parse_datetime", "-", "not found")
        return 0
    n = 0
    for bi, t in b.calls():
        c = callee_of(t)
        if c is None:
            continue
        nm = strip_generics(c.get("res") or c["fn"])
        targs = [x for x in c.get("targs", []) if not x.startswith("'")]
        if not ((nm.endswith("Into>::into") or nm.endswith("Into<U>>::into") or nm.endswith("::from")) and any("DateTime<chrono::Utc>" in x or "DateTime<Utc>" in x for x in targs)):
            continue
        n += 1
        gs = G.guards_at(b, bi)
        ok = any(g.op == "True" and g.a is not None and g.a.kind == "call" and g.a.v.endswith("PartialEq>::eq") and any(a.kind == "conststr" and a.v == "UTC" for a in g.a.args) for g in gs)
        if ok:
            rep.ok("T-TZGUARD", "reader:utc-shortcut-only-for-UTC", b.where(bi), "the lookup-free UTC result is dominated by the true edge of `tz == \"UTC\"`")
        else:
            rep.bad("T-TZGUARD", "T-TZGUARD:reader:utc-shortcut-only-for-UTC", b.where(bi), "parse_datetime returns a plain UTC timestamp on a path that is not guarded by `tz == \"UTC\"` alone: a named zone written with the Z spelling (`...Z London`) is dropped")
    return n


# ---------------------------------------------------------------------- strftime patterns keep the fractional second
LOSSLESS_FRACTION = ("%.f", "%.9f", "%f")
TIME_TEXT_WRITERS = (
    "haystack::encoding::json::encode::<impl serde::Serialize for haystack::val::time::Time>::serialize",
    "<haystack::val::time::Time as haystack::encoding::zinc::encode::ToZinc>::to_zinc",
    "<haystack::val::time::Time as std::fmt::Display>::fmt",
)


def check_strftime(ctx, rep):
    """time-of-day text: (a) every chrono strftime call on a value with a time part (NaiveTime / NaiveDateTime / DateTime ::format)
    in the value types and encoders uses a constant pattern that prints the whole fractional second (%.f, %.9f or %f);
    (b) the Time writers take their text from Display / Debug of the chrono value, which prints all digits"""
    prog = ctx.prog
    n = 0
    for b in prog.bodies.values():
        if not (b.file.startswith("src/haystack/encoding/") or b.file.startswith("src/haystack/val/")):
            continue
        k = 0
        for bi, t in b.calls():
            nm = strip_generics(mir.callee_name(t) or "")
            if not re.match(r"^chrono::(NaiveTime|NaiveDateTime|DateTime)::format(_with_items)?$", nm):
                continue
            n += 1
            pat = G.describe(b, t["args"][1]) if len(t["args"]) > 1 else None
            key = "strftime:%s#%d" % (b.short, k)
            k += 1
            if pat is not None and pat.kind == "conststr" and any(x in pat.v for x in LOSSLESS_FRACTION):
                rep.ok("T-TSFMT", key, b.where(bi), "pattern %r prints the whole fractional second" % pat.v)
            elif pat is not None and pat.kind == "conststr" and not re.search(r"%[HMSTXRr]|%[-_0]?[HMSI]", pat.v):
                rep.ok("T-TSFMT", key, b.where(bi), "pattern %r prints no time of day" % pat.v)
            else:
                rep.bad("T-TSFMT", "T-TSFMT:strftime:%s" % b.short, b.where(bi), "%s formats a time of day with pattern %s, which drops (part of) the fractional second: the value read back differs" % (b.short.split("::")[-1], pat))
    for short in TIME_TEXT_WRITERS:
        b = next((x for x in prog.bodies.values() if x.short == short), None)
        if b is None:
            rep.gap("Time writer " + short, "-", "not found")
            continue
        n += 1
        names = [strip_generics(mir.callee_name(t) or "") for _, t in b.calls()]
        via_display = any(x.endswith("ToString>::to_string") or x.endswith("ToString::to_string") or x.endswith("Debug>::fmt") or x.endswith("Display>::fmt") or x.endswith("Write::write_fmt") for x in names)
        key = "time-text-from-display:%s" % short.split(" as ")[-1].split("::")[-2 if short.endswith("serialize") else -1]
        if via_display:
            rep.ok("T-TSFMT", "time-text:%s" % short, b.where(), "text comes from Display / Debug of the chrono value (all sub-second digits)")
        else:
            rep.bad("T-TSFMT", "T-TSFMT:time-text:%s" % short, b.where(), "the Time writer does not take its text from Display (calls: %s)" % sorted(set(x.split("::")[-1] for x in names)))
    return n


def check_date_text(ctx, rep):
    """a Date is written as the text the lexer recognises as a date: four-digit (zero-padded) year, two-digit month and day. The
    `Display for Date` both writers use either hands the work to chrono (Debug / Display of NaiveDate, ISO 8601 with a padded year)
    or formats year / month / day itself with width 4 / 2 / 2 and zero fill - a plain `{}` for the year writes `999-12-31`, which
    is read as a number"""
    from vlib import fmtargs

    prog = ctx.prog
    b = next((x for x in prog.bodies.values() if x.short == "<haystack::val::date::Date as std::fmt::Display>::fmt"), None)
    if b is None:
        rep.gap("Display for Date", "-", "not found")
        return 0
    names = [strip_generics(mir.callee_name(t) or "") for _, t in b.calls()]
    key = "date-text:fixed-width"
    own = [(bi, t) for bi, t in b.calls() if strip_generics(mir.callee_name(t) or "") in ("std::fmt::Formatter::write_fmt", "std::io::Write::write_fmt", "std::fmt::format")]
    if not own and any(x.endswith(("NaiveDate as std::fmt::Debug>::fmt", "NaiveDate as std::fmt::Display>::fmt")) for x in names):
        rep.ok("T-TSFMT", key, b.where(), "delegates to chrono's ISO 8601 text of NaiveDate")
        return 1
    problems = []
    for bi, t in own:
        a = fmtargs.arguments_of(b, t["args"][-1])
        if not a or a[1] is None:
            problems.append("format arguments not understood")
            continue
        pieces, args = a
        ints = [p[1] for p in pieces if p[0] == "arg"]
        if len(ints) < 3:
            problems.append("fewer than three fields")
            continue
        for idx, (d, w) in enumerate(zip(ints[:3], (4, 2, 2))):
            zero = "0" in str(d.get("flags") or "") or d.get("fill") == "0" or bool(d.get("zero"))
            if d.get("width") != w or not zero:
                problems.append("%s is written with width=%s flags=%s (needs width %d, zero fill)" % (("year", "month", "day")[idx], d.get("width"), d.get("flags"), w))
    if own and not problems:
        rep.ok("T-TSFMT", key, b.where(), "year / month / day written with width 4 / 2 / 2 and zero fill")
    else:
        rep.bad("T-TSFMT", "T-TSFMT:" + key, b.where(), "Display for Date %s: dates with a short year are written as text the reader does not take for a date" % ("; ".join(problems) or "neither delegates to chrono nor formats the three fields"))
    return 1


def check_zone_name_reader(ctx, rep):
    """the Zinc reader of the zone name accepts every name the writer can emit: its length guard is evaluated for the short name of
    every zone of the bundled database (a guard `len < 3` refuses GB and NZ). Same construction as the length guard of get_unit"""
    prog = ctx.prog
    names, src = zone_table(ctx)
    b0, model, _why = short_name_model(prog)
    if not names or model is None:
        rep.gap("zone-name reader", "-", "zone table / short-name model not available")
        return 0
    b = prog.get("haystack::encoding::zinc::decode::scalar::date_time::parse_time_zone_name")
    if b is None:
        rep.gap("parse_time_zone_name", "-", "not found")
        return 0

    def short(z):
        i = z.find(model[1]) if model[0] == "after-first" else z.rfind(model[1])
        return z[i + 1:] if i >= 0 else z

    lens = sorted({len(short(z).encode("utf-8")) for z in names})
    # switches on a comparison of len(<name>) with a constant whose one edge leads to the error result
    errb = {bi for bi, t in b.calls() if strip_generics(mir.callee_name(t) or "").endswith("make_generic_err")}
    n = 0
    refused = set()
    for bi in b.rpo():
        t = b.term(bi)
        if t["k"] != "switch":
            continue
        d = G.describe(b, t["op"])
        if d.kind != "binop" or d.v not in ("Eq", "Ne", "Lt", "Le", "Gt", "Ge") or len(d.args) != 2:
            continue
        cs = [a for a in d.args if a.kind == "const" and isinstance(a.v, int)]
        ls = [a for a in d.args if "::len(" in repr(a)]
        if len(cs) != 1 or len(ls) != 1:
            continue
        n += 1
        k = cs[0].v
        len_first = d.args[0] is ls[0]
        import operator

        opf = {"Eq": operator.eq, "Ne": operator.ne, "Lt": operator.lt, "Le": operator.le, "Gt": operator.gt, "Ge": operator.ge}[d.v]
        vals = {int(v): tb for v, tb in t["targets"]}
        true_edge = t["otherwise"] if 0 in vals else vals.get(1)
        false_edge = vals.get(0, t["otherwise"] if 1 in vals else None)

        def reaches_err(start):
            seen, todo = set(), [start]
            while todo:
                x = todo.pop()
                if x in seen or x is None:
                    continue
                seen.add(x)
                if x in errb:
                    return True
                if b.term(x)["k"] == "switch":
                    continue  # a further decision: not this guard's doing
                todo.extend(b.succ(x))
            return False

        for L in lens:
            truth = opf(L, k) if len_first else opf(k, L)
            edge = true_edge if truth else false_edge
            if reaches_err(edge):
                refused.add(L)
    key = "zone-name-reader:length-guard"
    if refused:
        ex = sorted({short(z) for z in names if len(short(z).encode("utf-8")) in refused})[:6]
        rep.bad("T-ZONES", "T-ZONES:" + key, b.where(), "parse_time_zone_name refuses names of %s bytes, but the writer emits such names (%s): timestamps in those zones cannot be read back" % (sorted(refused), ", ".join(ex)))
    else:
        rep.ok("T-ZONES", key, b.where(), "the length guard lets every short name of the database through (lengths %d..%d, %d guards)" % (lens[0], lens[-1], n))
    return 1


def check_named_zone_constructor(ctx, rep):
    """`DateTime::parse_from_rfc3339_with_timezone(text, zone)` puts the instant into the *named* zone on every successful path:
    with the blocks that call make_date_time_with_tz(.., zone) removed, the only ways to the return go through an explicit `Err`.
    A shortcut for some zone name (\"UTC\") that returns the offset-derived zone instead keeps the instant and loses the zone"""
    prog = ctx.prog
    b = prog.get("haystack::val::datetime::DateTime::parse_from_rfc3339_with_timezone")
    if b is None:
        rep.gap("DateTime::parse_from_rfc3339_with_timezone", "-", "not found")
        return 0
    mk = set()
    for bi, t in b.calls():
        if strip_generics(mir.callee_name(t) or "").endswith("make_date_time_with_tz") and len(t["args"]) > 1 and re.fullmatch(r"_2\**", repr(G.describe(b, t["args"][1]))):
            mk.add(bi)
    errs = set()
    for bi in range(b.n):
        for st in b.blocks[bi]["stmts"]:
            if st["k"] == "assign" and st["rv"]["k"] == "agg" and st["rv"].get("variant") == "Err" and str(st["rv"].get("adt", "")).endswith("result::Result"):
                errs.add(bi)
        t = b.term(bi)
        if t["k"] == "call" and strip_generics(mir.callee_name(t) or "").endswith("FromResidual>::from_residual"):
            errs.add(bi)
    seen, todo, leak = set(), [0], None
    while todo:
        x = todo.pop()
        if x in seen or b.blocks[x].get("cleanup"):
            continue
        seen.add(x)
        if x in mk or x in errs:
            continue
        if b.term(x)["k"] == "return":
            leak = x
            break
        todo.extend(b.succ(x))
    key = "named-zone-constructor:zone-from-name"
    if mk and leak is None:
        rep.ok("T-TZGUARD", key, b.where(min(mk)), "every successful path passes make_date_time_with_tz(value, <the zone argument>)")
    else:
        rep.bad("T-TZGUARD", "T-TZGUARD:" + key, b.where(leak) if leak is not None else b.where(), "parse_from_rfc3339_with_timezone can return a value without placing it in the named zone (%s): the instant is kept, the zone is not" % ("a path avoids make_date_time_with_tz" if mk else "make_date_time_with_tz is never given the zone argument"))
    return 1



def check_fallback_before_refusal(ctx, rep):
    """find_timezone refuses a name only after the area-prefix search has run: the table evaluation of T-ZONES models the lookup
    as "exact id, else the first prefix for which prefix/name exists" - a guard that returns the error before the search (for
    names containing a `/`, say) is outside that model and makes `Indiana/Knox`, which only the search resolves, unreadable.
    Must-pass: with the blocks that run the search removed, no `Err` result is reachable"""
    prog = ctx.prog
    b = prog.get("haystack::timezone::iana::find_timezone")
    if b is None:
        rep.gap("find_timezone", "-", "not found")
        return 0
    search = {bi for bi, t in b.calls() if strip_generics(mir.callee_name(t) or "").split("::")[-1] in ("find_map", "find", "any", "position", "next", "try_fold", "filter_map")}
    # every way of producing the result that is not a plain `Ok(..)`: an `Err(..)` built here, or the result of a call
    # (`search.ok_or(err)`, `ok_or_else`, a helper) - each may be a refusal
    errs = set()
    for bi, si, rv in b.defs().get(0, []):
        if si == "term" or not (rv["k"] == "agg" and rv.get("variant") == "Ok"):
            errs.add(bi)
    seen, todo, leak = set(), [0], None
    while todo:
        x = todo.pop()
        if x in seen or b.blocks[x].get("cleanup"):
            continue
        seen.add(x)
        if x in search:
            continue
        if x in errs:
            leak = x
            break
        todo.extend(b.succ(x))
    key = "find_timezone:search-before-refusal"
    if search and leak is None:
        rep.ok("T-ZONES", key, b.where(), "every result other than a plain Ok lies behind the prefix search")
    else:
        rep.bad("T-ZONES", "T-ZONES:" + key, b.where(leak) if leak is not None else b.where(), "find_timezone can refuse a name without having tried the area prefixes (%s): names that only the prefix search resolves are rejected" % ("an Err is built on a path that avoids the search" if leak is not None else "no search / no Err result found"))
    return 1
