"""C07 / C08: filter operator tables, comparison guards, reduction shapes, spelling round trip, path rule, precedence skeleton."""
import re

from rules import guards as G
from rules import kinds as K
from vlib import fmtargs, mir
from vlib.dataflow import must_pass
from vlib.mir import callee_of, op_const, op_place, strip_generics

F = "haystack::filter::"
CMPOP = F + "nodes::CmpOp"
TOK = F + "lexer::TokenValue"
EXPECT_FN = {"Eq": "eq", "NotEq": "ne", "LessThan": "lt", "LessThanEq": "le", "GreatThan": "gt", "GreatThanEq": "ge"}
EXPECT_TXT = {"Eq": "==", "NotEq": "!=", "LessThan": "<", "LessThanEq": "<=", "GreatThan": ">", "GreatThanEq": ">="}
EXPECT_TOK = {"Equals": "Eq", "NotEquals": "NotEq", "LessThan": "LessThan", "LessThanOrEqual": "LessThanEq", "GreaterThan": "GreatThan", "GreaterThanOrEqual": "GreatThanEq"}
EXPECT_SPELL = {"==": "Equals", "!=": "NotEquals", "<": "LessThan", "<=": "LessThanOrEqual", ">": "GreaterThan", ">=": "GreaterThanOrEqual"}


def body_of(prog, short):
    return next((b for b in prog.bodies.values() if b.short == short), None)


def enum_names(prog, adt):
    a = prog.adts.get(adt)
    return {int(v["discr"]): v["name"] for v in a["variants"]} if a else {}


def fn_items_in(prog, body, op, depth=0):
    """names of fn items an operand refers to (through promoted constants, references, wrapper calls)"""
    out = []
    r = fmtargs.chase(body, op)
    if r is None:
        return out
    if r[0] == "const" and "fn" in r[1]:
        out.append(strip_generics(r[1].get("res") or r[1]["fn"]))
    elif r[0] == "call":
        t = r[1]
        out.append("call:" + strip_generics(mir.callee_name(t) or "?"))
        for a in t["args"]:
            out += fn_items_in(prog, body, a, depth + 1)
    elif r[0] == "agg":
        if r[1].get("closure"):
            out.append("closure:" + r[1]["closure"])
            # what an inline comparator closure applies: the comparison impls it calls
            cb = prog.bodies.get(r[1]["closure"])
            if cb is not None:
                for _bi, ct in cb.calls():
                    cn = strip_generics(mir.callee_name(ct) or "")
                    if re.search(r"std::cmp::Partial(Eq|Ord)(>)?::(eq|ne|lt|le|gt|ge)$", cn) and "Discriminant" not in cn:
                        out.append(cn)
        for o in r[1]["ops"]:
            out += fn_items_in(prog, body, o, depth + 1)
    return out


def cmp_eval_table(prog):
    """CmpOp variant -> (comparator fn-item names, block)"""
    b = body_of(prog, "<haystack::filter::nodes::Cmp as haystack::filter::eval::Eval>::eval")
    if b is None:
        return None, None
    names = enum_names(prog, CMPOP)
    sws = K.value_switches(b, CMPOP)
    if not sws:
        return None, b
    bb, t, _ = sws[0]
    tab = {}
    for val, tb in t["targets"]:
        v = names.get(int(val), "?")
        # first cmp_dispatch call in the arm
        seen = {tb}
        st = [tb]
        while st:
            x = st.pop(0)
            tt = b.term(x)
            if tt["k"] == "call" and strip_generics(mir.callee_name(tt) or "").endswith("nodes::cmp_dispatch"):
                tab[v] = (fn_items_in(prog, b, tt["args"][0]), x)
                break
            for y in b.succ(x):
                if y not in seen and len(b.pred(y)) <= 1:
                    seen.add(y)
                    st.append(y)
    if len(tab) < len(t["targets"]):
        # arms that only *choose* the comparator (a fn item stored in a local) and share one cmp_dispatch call afterwards
        shared = None
        for bi2, tt in b.calls():
            if strip_generics(mir.callee_name(tt) or "").endswith("nodes::cmp_dispatch") and b.dominates(bb, bi2) and all(bi2 != v2[1] for v2 in tab.values()):
                if len(b.pred(bi2)) > 1 or any(len(b.pred(p)) > 1 for p in G.blocks_between(b, bb, bi2) if p != bb):
                    shared = (bi2, tt)
        if shared is not None:
            base_items = fn_items_in(prog, b, shared[1]["args"][0])
            for val, tb in t["targets"]:
                v = names.get(int(val), "?")
                if v in tab:
                    continue
                x = tb
                hops = 0
                chosen = None
                while hops < 6:
                    hops += 1
                    for st2 in b.blocks[x]["stmts"]:
                        if st2["k"] == "assign" and not st2["lhs"]["p"] and st2["rv"]["k"] in ("use", "cast"):
                            c = op_const(st2["rv"]["op"])
                            if c is not None and "fn" in c:
                                chosen = strip_generics(c.get("res") or c["fn"])
                    nx = b.succ(x)
                    if chosen or len(nx) != 1 or len(b.pred(nx[0])) > 1:
                        break
                    x = nx[0]
                if chosen:
                    tab[v] = (base_items + [chosen], shared[0])
    return tab, b


def cmp_display_table(prog):
    b = body_of(prog, "<haystack::filter::nodes::Cmp as std::fmt::Display>::fmt")
    if b is None:
        return None, None
    names = enum_names(prog, CMPOP)
    sws = K.value_switches(b, CMPOP)
    if not sws:
        return None, b
    bb, t, _ = sws[0]
    tab = {}
    for val, tb in t["targets"]:
        v = names.get(int(val), "?")
        seen = {tb}
        st = [tb]
        while st:
            x = st.pop(0)
            tt = b.term(x)
            if tt["k"] == "call" and strip_generics(mir.callee_name(tt) or "").endswith("Formatter::write_fmt"):
                a = fmtargs.arguments_of(b, tt["args"][1])
                if a:
                    tab[v] = "".join(p[1] for p in a[0] if p[0] == "lit")
                break
            for y in b.succ(x):
                if y not in seen and len(b.pred(y)) <= 1:
                    seen.add(y)
                    st.append(y)
    if len(tab) < len(t["targets"]):
        # the other spelling: each arm picks the operator text, one shared write! prints `path <op> value`
        picked = {}
        dest = set()
        per_arm = {}
        for val, tb in t["targets"]:
            v = names.get(int(val), "?")
            x = tb
            hops = 0
            vals = {}
            while hops < 6:
                hops += 1
                for st2 in b.blocks[x]["stmts"]:
                    if st2["k"] == "assign" and not st2["lhs"]["p"]:
                        rv = st2["rv"]
                        c = G.describe(b, rv["op"]) if rv["k"] == "use" else (G.describe_place(b, rv["place"]) if rv["k"] == "ref" else None)
                        if c is not None and c.kind == "conststr":
                            vals[st2["lhs"]["l"]] = c.v
                nx = b.succ(x)
                if len(nx) != 1 or len(b.pred(nx[0])) > 1:
                    break
                x = nx[0]
            per_arm[v] = vals
        common = None
        for v, vals in per_arm.items():
            common = set(vals) if common is None else (common & set(vals))
        if common and len(common) == 1:
            L = next(iter(common))
            dest = {L}
            picked = {v: vals[L] for v, vals in per_arm.items()}
        if len(picked) == len(t["targets"]) and len(dest) == 1:
            opl = dest.pop()
            for bi2, tt in b.calls():
                if strip_generics(mir.callee_name(tt) or "").endswith("Formatter::write_fmt"):
                    a = fmtargs.arguments_of(b, tt["args"][1])
                    if a and a[0] is not None and a[1]:
                        lits = [p[1] for p in a[0] if p[0] == "lit"]
                        argl = [repr(G.describe(b, x2[2])) for x2 in a[1]]
                        # template "{} {} {}" with the picked text as the middle argument
                        mid = [i for i, r in enumerate(argl) if re.fullmatch(r"_%d\*?" % opl, r) or r == "_%d" % opl]
                        if lits == [" ", " "] and len(argl) == 3 and mid == [1] and b.dominates(bb, bi2):
                            tab = {v: " " + txt + " " for v, txt in picked.items()}
    return tab, b


def to_cmp_op_table(prog):
    b = body_of(prog, F + "parser::Parser::to_cmp_op")
    if b is None:
        return None, None
    names = enum_names(prog, TOK)
    sws = K.value_switches(b, TOK)
    if not sws:
        return None, b
    bb, t, _ = sws[0]
    tab = {}
    for val, tb in t["targets"]:
        r = K.arm_result(b, tb)
        tab[names.get(int(val), "?")] = r[2] if r and r[0] == "variant" and r[1] == "Ok" else None
    return tab, b


def lexer_first_bytes(prog):
    """filter lexer: first byte -> summary of the arm (scalar reader called, tokens built, bytes expected next)"""
    b = body_of(prog, F + "lexer::Lexer::read")
    if b is None:
        return None, None
    sw = None
    for bi in b.rpo():
        t = b.term(bi)
        if t["k"] == "switch" and repr(G.describe(b, t["op"])).endswith(".cur") and len(t["targets"]) > 10:
            sw = (bi, t)
            break
    if sw is None:
        return None, b
    bi, t = sw
    tnames = enum_names(prog, TOK)
    arms = {}
    by_target = {}
    for val, tb in t["targets"]:
        by_target.setdefault(tb, []).append(int(val))
    for tb, vals in by_target.items():
        eff = {"calls": [], "tokens": [], "expect": [], "seq": []}
        seen = {tb}
        st = [tb]
        n = 0
        while st and n < 40:
            x = st.pop(0)
            n += 1
            for s in b.blocks[x]["stmts"]:
                if s["k"] == "assign" and s["rv"]["k"] == "agg" and s["rv"].get("adt") == TOK:
                    eff["tokens"].append(s["rv"]["variant"])
            tt = b.term(x)
            if tt["k"] == "call":
                nm = strip_generics(mir.callee_name(tt) or "")
                eff["calls"].append(nm.split("::")[-1])
                if nm.endswith("Scanner::expect_and_consume") and len(tt["args"]) > 1:
                    v = G.describe(b, tt["args"][1])
                    if v.kind == "const":
                        eff["expect"].append(chr(v.v))
                if nm.endswith("Scanner::expect_and_consume_seq") and len(tt["args"]) > 1:
                    v = G.describe(b, tt["args"][1])
                    if v.kind == "conststr":
                        eff["seq"].append(v.v)
            if tt["k"] == "return":
                continue
            for y in b.succ(x):
                if y not in seen and y != bi and len(b.pred(y)) <= 2:
                    seen.add(y)
                    st.append(y)
        for v in vals:
            arms[v] = eff
    # arms selected by range patterns ('a'..='z', '0'..='9' | '-') are not switch targets: start from their reader call
    def effects_from(x0):
        eff = {"calls": [], "tokens": [], "expect": [], "seq": []}
        seen = {x0}
        st = [x0]
        n = 0
        while st and n < 80:
            x = st.pop(0)
            n += 1
            for s in b.blocks[x]["stmts"]:
                if s["k"] == "assign" and s["rv"]["k"] == "agg" and s["rv"].get("adt") == TOK:
                    eff["tokens"].append(s["rv"]["variant"])
            tt = b.term(x)
            if tt["k"] == "call":
                eff["calls"].append(strip_generics(mir.callee_name(tt) or "").split("::")[-1])
            if tt["k"] == "return":
                continue
            for y in b.succ(x):
                if y not in seen and y != bi:
                    seen.add(y)
                    st.append(y)
        return eff
    for x, tt in b.calls():
        nm = strip_generics(mir.callee_name(tt) or "")
        if nm.endswith("decode::id::parse_id"):
            rng = cur_range_guard(b, x)
            for v in range(256):
                if rng and rng[0] <= v <= rng[1] and v not in arms:
                    arms[v] = effects_from(x)
        if nm.endswith("lexer::parse_number_date_time"):
            e = effects_from(x)
            for v in list(range(48, 58)) + [45]:
                if v not in arms:
                    arms[v] = e
    return arms, b


def cur_range_guard(body, block):
    lo, hi = 0, 255
    found = False
    for g in G.guards_at(body, block):
        if g.b is None:
            continue
        a, c = repr(g.a), repr(g.b)
        if a.endswith(".cur") and g.b.kind == "const":
            found = True
            if g.op == "Le":
                hi = min(hi, g.b.v)
            elif g.op == "Lt":
                hi = min(hi, g.b.v - 1)
            elif g.op == "Ge":
                lo = max(lo, g.b.v)
            elif g.op == "Gt":
                lo = max(lo, g.b.v + 1)
        elif c.endswith(".cur") and g.a.kind == "const":
            found = True
            if g.op == "Le":
                lo = max(lo, g.a.v)
            elif g.op == "Lt":
                lo = max(lo, g.a.v + 1)
            elif g.op == "Ge":
                hi = min(hi, g.a.v)
            elif g.op == "Gt":
                hi = min(hi, g.a.v - 1)
    return (lo, hi) if found else None


def check_operators(ctx, rep):
    prog = ctx.prog
    ev, eb = cmp_eval_table(prog)
    dt, db = cmp_display_table(prog)
    tt, tb = to_cmp_op_table(prog)
    arms, lb = lexer_first_bytes(prog)
    if not ev or not dt or not tt or not arms:
        rep.gap("filter operator tables", "-", "eval=%s display=%s to_cmp_op=%s lexer=%s" % (bool(ev), bool(dt), bool(tt), bool(arms)))
        return 0
    n = 0
    for op, fn in sorted(EXPECT_FN.items()):
        n += 1
        got = ev.get(op, ([], None))
        items = [x for x in got[0] if re.search(r"std::cmp::Partial(Eq|Ord)(>)?::[a-z]+$", x)]
        key = "cmp-eval:%s" % op
        if items and all(x.endswith("::" + fn) for x in items):
            rep.ok("T-OPS", key, eb.where(got[1]), "CmpOp::%s applies %s" % (op, items[0]))
        else:
            rep.bad("T-OPS", "T-OPS:" + key, eb.where(got[1]) if got[1] is not None else eb.where(), "CmpOp::%s applies %s, expected the comparator `%s`" % (op, items or got[0], fn))
        n += 1
        txt = (dt.get(op) or "").strip()
        key = "cmp-display:%s" % op
        if txt == EXPECT_TXT[op]:
            rep.ok("T-OPS", key, db.where(), "CmpOp::%s prints as %r" % (op, txt))
        else:
            rep.bad("T-OPS", "T-OPS:" + key, db.where(), "CmpOp::%s prints as %r, expected %r" % (op, txt, EXPECT_TXT[op]))
    for tok, op in sorted(EXPECT_TOK.items()):
        n += 1
        key = "to_cmp_op:%s" % tok
        if tt.get(tok) == op:
            rep.ok("T-OPS", key, tb.where(), "token %s -> CmpOp::%s" % (tok, op))
        else:
            rep.bad("T-OPS", "T-OPS:" + key, tb.where(), "token %s is mapped to CmpOp::%s, expected %s" % (tok, tt.get(tok), op))
    # lexer spellings
    def spelled(sp):
        first = ord(sp[0])
        eff = arms.get(first)
        if eff is None:
            return None
        if sp in ("==", "!="):
            return eff["tokens"][0] if eff["expect"] == ["="] and eff["tokens"] else None
        if sp in ("<", ">", "<=", ">="):
            # greater_or_less((single, with_equals))
            toks = eff["tokens"]
            if len(toks) >= 2 and "greater_or_less" in eff["calls"]:
                return toks[1] if len(sp) == 2 else toks[0]
        return None
    for sp, tok in sorted(EXPECT_SPELL.items()):
        n += 1
        got = spelled(sp)
        key = "lexer-spelling:%s" % sp
        if got == tok:
            rep.ok("T-OPS", key, lb.where(), "%r lexes to %s" % (sp, tok))
        else:
            rep.bad("T-OPS", "T-OPS:" + key, lb.where(), "%r lexes to %s, expected %s" % (sp, got, tok))
    # greater_or_less: '=' selects the second variant
    gl = body_of(prog, F + "lexer::Lexer::greater_or_less")
    if gl is not None:
        from rules import pathcond as PC

        n += 1
        # which of the two token variants a make() call receives: field 0 / 1 of the tuple parameter, or the 1st / 2nd of two
        # separate parameters; the argument may be a local chosen earlier on the path
        make_blocks = {bi: t for bi, t in gl.calls() if strip_generics(mir.callee_name(t) or "").endswith("LexerToken::make")}
        all_paths = PC.enumerate_paths(gl, lambda x: x in make_blocks)

        def variant_of(r):
            m = re.search(r"^_2\.(\d)$", r)
            if m:
                return int(m.group(1))
            if gl.arg_count >= 3 and r in ("_2", "_3"):
                return int(r[1:]) - 2
            return None

        paths = []
        makes = {}
        for p in all_paths:
            t = make_blocks[p[0]]
            r = repr(G.describe(gl, t["args"][0]))
            v = variant_of(r)
            if v is None:
                pl = op_place(t["args"][0])
                if pl is not None and not pl["p"] and pl["l"] in p[3]:
                    v = variant_of(p[3][pl["l"]])
            if v is not None:
                paths.append((p[0], p[1], p[2], v))
                makes[(p[0], v)] = v
        ok = bool(paths) and {p[3] for p in paths} == {0, 1} and len(paths) == len(all_paths)
        why = "the two variants are not both used / not identified (%s)" % sorted({p[3] for p in paths})
        if ok:
            atoms = PC.atoms_of(paths)
            EQ = [a for a in atoms if a.startswith("eq(") and re.search(r"const 61\b", a) and ("safe_peek" in a or " as Some.0" in a)]
            EQ += [a for a in atoms if a.startswith("eq(") and "safe_peek" in a and "Some(const 61)" in a]
            SOME = [a for a in atoms if a.startswith("some(") and "safe_peek" in a]
            if not EQ:
                ok, why = False, "no test of the peeked byte against '='"
            else:
                is_eq = lambda asg: all(asg.get(a) for a in EQ) and all(asg.get(a2, True) for a2 in SOME)  # noqa: E731
                second = [p for p in paths if p[3] == 1]
                first = [p for p in paths if p[3] == 0]
                o1, c1 = PC.entails(second, is_eq, atoms)
                o2, c2 = PC.entails(first, lambda asg: not is_eq(asg), atoms)
                ok = o1 and o2 and bool(second) and bool(first)
                why = "the '=' variant is chosen under %s" % c1 if not o1 else "the plain variant is chosen under %s" % c2
        if ok:
            rep.ok("T-OPS", "greater_or_less:equals-selects-second", gl.where(), "the variant with '=' is chosen exactly when the next byte is '=' (truth table)")
        else:
            rep.bad("T-OPS", "T-OPS:greater_or_less:equals-selects-second", gl.where(), "greater_or_less does not pick the second variant exactly under `next == '='`: %s" % why)
    return n


def check_cmp_guards(ctx, rep):
    """R-CMPGUARD: comparisons never run on a missing value, and ordered comparisons only between values of one kind"""
    prog = ctx.prog
    ev, eb = cmp_eval_table(prog)
    if not ev:
        rep.gap("Cmp::eval", "-", "not found")
        return 0
    n = 0
    derived_ord = any(im.get("self_adt") == "haystack::val::value::Value" and im.get("trait") == "std::cmp::PartialOrd" and im.get("derived") for im in prog.impls)
    for op, (items, blk) in sorted(ev.items()):
        n += 1
        gs = G.guards_at(eb, blk)
        nullguard = any(g.op == "False" and g.a.kind == "call" and g.a.v.endswith("Value::is_null") for g in gs) or any(g.op == "True" and g.a.kind == "call" and g.a.v.endswith("Value::has_value") for g in gs)
        key = "cmp-guard:null:%s" % op
        if not nullguard:
            # the test may not dominate the comparator (its outcome travels in an Option built by a helper): every path to the
            # comparator carries `resolved value is not Null`
            from rules import pathcond as PC

            paths = [p for p in PC.enumerate_paths(eb, lambda x: x == blk) if len({a for a, _t in p[1]}) == len(p[1])]
            def not_null(p):
                return any((re.match(r"is_null\(", a) and tv is False) or (re.match(r"has_value\(", a) and tv is True) for a, tv in p[1])
            nullguard = bool(paths) and all(not_null(p) for p in paths)
        if nullguard:
            rep.ok("R-CMPGUARD", key, eb.where(blk), "comparator runs only after the resolved value was found not to be Null")
        else:
            rep.bad("R-CMPGUARD", "R-CMPGUARD:" + key, eb.where(blk), "CmpOp::%s compares a path that did not resolve (Null) with the literal: e.g. '!=' holds for a missing tag" % op)
        if op in ("LessThan", "LessThanEq", "GreatThan", "GreatThanEq"):
            n += 1
            key = "cmp-guard:same-kind:%s" % op
            wrapped = False
            for it in items:
                if it.startswith("call:") and it[5:] in {strip_generics(x) for x in prog.bodies}:
                    wb = body_of(prog, it[5:])
                    bodies = [wb] + [prog.bodies[c] for c in prog.closures_of.get(wb.id, [])] if wb else []
                    for x in bodies:
                        if sum(1 for _, t in x.calls() if strip_generics(mir.callee_name(t) or "") == "std::mem::discriminant") >= 2:
                            wrapped = True
                if it.startswith("closure:"):
                    x = prog.bodies.get(it[8:])
                    if x and sum(1 for _, t in x.calls() if strip_generics(mir.callee_name(t) or "") == "std::mem::discriminant") >= 2:
                        wrapped = True
            if wrapped or not derived_ord:
                rep.ok("R-CMPGUARD", key, eb.where(blk), "ordered comparison goes through a same-variant (mem::discriminant) test" if wrapped else "Value's PartialOrd is not the derived cross-variant order")
            else:
                rep.bad("R-CMPGUARD", "R-CMPGUARD:" + key, eb.where(blk), "CmpOp::%s uses Value's derived PartialOrd directly: values of different kinds are ordered by enum variant index (a Bool is '<' any Number)" % op)
    return n


def _loop_reduction(b, field, child):
    """'any' / 'all' / None for a loop over self.<field> that returns early on the child's eval"""
    ev = None
    for bi, t in b.calls():
        nm = strip_generics(mir.callee_name(t) or "")
        if nm.endswith("nodes::%s as haystack::filter::eval::Eval>::eval" % child):
            ev = (bi, t)
    if ev is None:
        return None
    bi, t = ev
    # the iteration: a next() over an iterator of self.<field>, forward
    hdr = None
    for g in G.guards_at(b, bi):
        if g.a is not None and g.a.kind == "discr" and g.op == "Eq" and g.b.v == 1 and g.a.args and "Iterator>::next" in repr(g.a.args[0]) and field in repr(g.a.args[0]) and "rev" not in repr(g.a.args[0]).lower():
            hdr = g
    if hdr is None:
        return None
    sw = b.term(t["t"]) if "t" in t else None
    sb = t.get("t")
    hops = 0
    while sw is not None and sw["k"] != "switch" and hops < 4:
        hops += 1
        nx = b.succ(sb)
        if len(nx) != 1:
            return None
        sb = nx[0]
        sw = b.term(sb)
    if sw is None or sw["k"] != "switch" or sw.get("ty") != "bool":
        return None
    d = G.describe(b, sw["op"])
    neg = d.kind == "unop" and d.v == "Not"
    vals = {int(v): tb for v, tb in sw["targets"]}
    e_false = vals.get(0, sw["otherwise"] if 1 in vals else None)
    e_true = vals.get(1, sw["otherwise"] if 0 in vals else None)
    if neg:
        e_false, e_true = e_true, e_false
    # exhaustion edge of the loop
    hsw = b.term(hdr.block)
    hv = {int(v): tb for v, tb in hsw["targets"]}
    e_done = hv.get(0, hsw["otherwise"] if 1 in hv else None)
    r_true = K.arm_result(b, e_true) if e_true is not None else None
    r_false = K.arm_result(b, e_false) if e_false is not None else None
    r_done = K.arm_result(b, e_done) if e_done is not None else None
    back_true = hdr.block in b.reachable(e_true) if e_true is not None else False
    back_false = hdr.block in b.reachable(e_false) if e_false is not None else False
    if r_true and r_true[0] == "const" and r_true[1] == 1 and not back_true and back_false and r_done and r_done[0] == "const" and r_done[1] == 0:
        return "any"
    if r_false and r_false[0] == "const" and r_false[1] == 0 and not back_false and back_true and r_done and r_done[0] == "const" and r_done[1] == 1:
        return "all"
    return None



def check_reductions(ctx, rep):
    prog = ctx.prog
    n = 0
    spec = [
        ("<haystack::filter::nodes::Or as haystack::filter::eval::Eval>::eval", "any", ".ands", "And"),
        ("<haystack::filter::nodes::And as haystack::filter::eval::Eval>::eval", "all", ".terms", "Term"),
    ]
    for short, red, field, child in spec:
        b = body_of(prog, short)
        if b is None:
            rep.gap(short, "-", "not found")
            continue
        n += 1
        key = "reduction:%s" % short.split("::")[3].split(" ")[0]
        ok = False
        why = "no Iterator::%s over self%s" % (red, field)
        for bi, t in b.calls():
            nm = strip_generics(mir.callee_name(t) or "")
            if nm.endswith("Iterator>::" + red) or nm == "std::iter::Iterator::" + red:
                recv = repr(G.describe(b, t["args"][0]))
                if field in recv:
                    # the closure must return its child's eval unchanged
                    good = False
                    for cid in prog.closures_of.get(b.id, []):
                        cb = prog.bodies[cid]
                        evs = [strip_generics(mir.callee_name(tt) or "") for _, tt in cb.calls()]
                        nots = [1 for blk in cb.blocks for s in blk["stmts"] if s["k"] == "assign" and s["rv"]["k"] == "unop" and s["rv"]["op"] == "Not"]
                        if any(e.endswith("nodes::%s as haystack::filter::eval::Eval>::eval" % child) for e in evs) and not nots:
                            good = True
                    ok = good
                    why = "closure does not return the child's eval unchanged" if not good else ""
            elif nm.endswith("Iterator>::any") or nm.endswith("Iterator>::all") or nm in ("std::iter::Iterator::any", "std::iter::Iterator::all"):
                why = "uses %s where %s is required" % (nm.split("::")[-1], red)
        if not ok:
            # the explicit-loop spelling: `for c in &self.<field> { if c.eval(ctx) { return true } } false` (ANY), dually for ALL
            got = _loop_reduction(b, field, child)
            if got == red:
                ok = True
            elif got is not None:
                why = "the loop computes %s where %s is required" % (got.upper(), red.upper())
        if ok:
            rep.ok("T-REDUCE", key, b.where(), "%s over self%s of the children's eval" % (red.upper(), field))
        else:
            rep.bad("T-REDUCE", "T-REDUCE:" + key, b.where(), "%s::eval is not %s over self%s: %s" % (key.split(":")[1], red.upper(), field, why))
    for short, pred in (("<haystack::filter::nodes::Has as haystack::filter::eval::Eval>::eval", "has_value"), ("<haystack::filter::nodes::Missing as haystack::filter::eval::Eval>::eval", "is_null")):
        b = body_of(prog, short)
        if b is None:
            rep.gap(short, "-", "not found")
            continue
        n += 1
        calls = [strip_generics(mir.callee_name(t) or "") for _, t in b.calls()]
        key = "reduction:%s" % short.split("::")[3].split(" ")[0]
        preds = [c.split("::")[-1] for c in calls if c.startswith("haystack::val::value::Value::") and c.split("::")[-1] in ("has_value", "is_null")]
        nots = [1 for blk in b.blocks for s in blk["stmts"] if s["k"] == "assign" and s["rv"]["k"] == "unop" and s["rv"]["op"] == "Not"]
        res = any(c.endswith("EvalContext::resolve") for c in calls)
        good = preds == [pred] and not nots and res
        if not good and res:
            # decided on the paths instead of the spelling: true exactly when the resolved value is (not) Null, whichever of the
            # two predicates is asked and however the answer is carried (an Option built by a helper, a negation)
            from rules import pathcond as PC

            rets = {bi for bi in range(b.n) if b.term(bi)["k"] == "return"}
            pos, neg = PC.bool_outcomes(PC.enumerate_paths(b, lambda x: x in rets))
            atoms = PC.atoms_of(pos + neg)
            A = [a for a in atoms if re.match(r"(is_null|has_value)\(", a) and "resolve(" in a]
            if len(A) == 1:
                null_means = A[0].startswith("is_null(")
                want_true = (lambda asg: bool(asg.get(A[0])) != null_means) if pred == "has_value" else (lambda asg: bool(asg.get(A[0])) == null_means)
                o1, _c1 = PC.entails(pos, want_true, atoms)
                o2, _c2 = PC.entails(neg, lambda asg: not want_true(asg), atoms)
                good = o1 and o2 and bool(pos) and bool(neg)
        if good:
            rep.ok("T-REDUCE", key, b.where(), "%s of the resolved path" % pred)
        else:
            rep.bad("T-REDUCE", "T-REDUCE:" + key, b.where(), "expected %s(resolve(path)), found predicates %s%s" % (pred, preds, " negated" if nots else ""))
    pb = body_of(prog, "<haystack::filter::nodes::Parens as haystack::filter::eval::Eval>::eval")
    if pb is not None:
        n += 1
        calls = [strip_generics(mir.callee_name(t) or "") for _, t in pb.calls()]
        nots = [1 for blk in pb.blocks for s in blk["stmts"] if s["k"] == "assign" and s["rv"]["k"] == "unop" and s["rv"]["op"] == "Not"]
        if calls == ["<haystack::filter::nodes::Or as haystack::filter::eval::Eval>::eval"] and not nots:
            rep.ok("T-REDUCE", "reduction:Parens", pb.where(), "delegates to the inner Or")
        else:
            rep.bad("T-REDUCE", "T-REDUCE:reduction:Parens", pb.where(), "Parens::eval does not simply delegate to its Or: %s" % calls)
    # a record matches exactly when the filter evaluates to true on it: Dict::filter is eval() and nothing else
    df = next((b for b in prog.bodies.values() if re.search(r"filtered::dict::<impl haystack::filter::filtered::Filtered(<[^>]*>)? for haystack::val::dict::Dict>::filter$", b.short)), None)
    if df is None:
        rep.gap("Dict::filter", "-", "Filtered impl for Dict not found")
    else:
        n += 1
        ret = G.describe_place(df, {"l": 0, "p": []})
        switches = [bi for bi in range(df.n) if df.term(bi)["k"] == "switch"]
        nots = [1 for blk in df.blocks for s2 in blk["stmts"] if s2["k"] == "assign" and s2["rv"]["k"] == "unop" and s2["rv"]["op"] == "Not"]
        if ret.kind == "call" and ret.v.endswith("filter::eval::Eval>::eval") and not switches and not nots:
            rep.ok("T-REDUCE", "dict:filter-is-eval", df.where(), "Dict::filter returns filter.eval(context) on its only path")
        else:
            rep.bad("T-REDUCE", "T-REDUCE:dict:filter-is-eval", df.where(switches[0]) if switches else df.where(), "Dict::filter is not plainly filter.eval(context) (returns %s, %d branches): some records get an answer the filter did not give" % (repr(ret)[:80], len(switches)))
    # grid filtering: first hit of a forward iteration; all hits in iteration order. Both the iterator-adaptor and the explicit
    # loop spelling are accepted; what matters is: forward over self.rows, selected exactly when Dict::filter(row, filter) is
    # true (un-negated), first hit / every hit in order
    def fam(b0):
        return [b0] + [prog.bodies[c] for c in prog.closures_of.get(b0.id, [])]

    def rows_forward(b0):
        """(ok, why): rows are walked by iter() / into_iter() / a for loop over &self.rows, never reversed"""
        src = False
        for x in fam(b0):
            for _bi, t in x.calls():
                nm = strip_generics(mir.callee_name(t) or "")
                r = " ".join(repr(G.describe(x, a)) for a in t["args"])
                if re.search(r"::(rev|rfind|rposition|next_back|last|max_by|min_by|max_by_key|min_by_key|pop|rfold|nth_back)$", nm) and ".rows" in r:
                    return False, "rows are walked with %s" % nm.split("::")[-1]
                if re.search(r"::(iter|into_iter)$", nm) and ".rows" in r:
                    src = True
        return (True, "") if src else (False, "no forward iteration over self.rows")

    def predicate(b0):
        """where the Dict filter is applied: [(body, block)] of calls Filtered-for-Dict::filter(row, filter)"""
        out = []
        for x in fam(b0):
            for bi, t in x.calls():
                if re.search(r"Filtered(<[^>]*>)?( for [A-Za-z:]+)?>::filter$", strip_generics(mir.callee_name(t) or "")) and "dict" in strip_generics(mir.callee_name(t) or "").lower():
                    out.append((x, bi))
        return out

    def selects_unnegated(x, bi):
        """the predicate's result is used as is: it is the closure's return value, or the true edge of the branch on it leads to the selection"""
        if x.rec["kind"] == "Closure":
            r = G.describe_place(x, {"l": 0, "p": []})
            if r.kind == "call" and r.v.endswith("::filter"):
                return True
            return False
        return None  # decided by the caller from guards

    gname = "haystack::filter::filtered::grid::<impl haystack::filter::filtered::Filtered for haystack::val::grid::Grid>::filter"
    if body_of(prog, gname) is None:
        rep.gap("Grid::filter", "-", "Filtered impl for Grid not found")
    gf = body_of(prog, gname)
    if gf is not None:
        n += 1
        okf, why = rows_forward(gf)
        if okf:
            preds = predicate(gf)
            adaptors = [strip_generics(mir.callee_name(t) or "").split("::")[-1] for x in fam(gf) for _bi, t in x.calls() if re.search(r"Iterator(>|)::[a-z_]+$", strip_generics(mir.callee_name(t) or ""))]
            if not preds:
                okf, why = False, "Dict::filter is never applied to a row"
            elif "find" in adaptors:
                okf = all(selects_unnegated(x, bi) for x, bi in preds if x.rec["kind"] == "Closure")
                why = "" if okf else "the find predicate is not the row's filter result as is"
            else:
                # explicit loop: `return Some(row)` under the true edge of the predicate, None after the loop
                okf = False
                why = "no `return Some(row)` on the true edge of row.filter(filter)"
                for x, bi in preds:
                    if x.rec["kind"] == "Closure":
                        continue
                    for rb in range(x.n):
                        for st in x.blocks[rb]["stmts"]:
                            if st["k"] == "assign" and not st["lhs"]["p"] and st["lhs"]["l"] == 0 and st["rv"]["k"] == "agg" and st["rv"].get("variant") == "Some":
                                gs = G.guards_at(x, rb)
                                if any(g.op == "True" and g.a is not None and g.a.kind == "call" and g.a.v.endswith("::filter") for g in gs) and not any(strip_generics(mir.callee_name(t2) or "").endswith("Vec::push") for _b2, t2 in x.calls()):
                                    okf = True
        if okf:
            rep.ok("T-REDUCE", "grid:filter-first", gf.where(), "first row, in forward order, for which the filter holds")
        else:
            rep.bad("T-REDUCE", "T-REDUCE:grid:filter-first", gf.where(), "Grid::filter is not the first hit of a forward iteration over rows (%s)" % why)
    ga = body_of(prog, "haystack::filter::filtered::grid::<impl haystack::filter::filtered::ListFiltered for haystack::val::grid::Grid>::filter_all")
    if ga is not None:
        n += 1
        oka, why = rows_forward(ga)
        if oka:
            preds = predicate(ga)
            names = [strip_generics(mir.callee_name(t) or "") for x in fam(ga) for _bi, t in x.calls()]
            adaptors = [nm.split("::")[-1] for nm in names if re.search(r"Iterator(>|)::[a-z_]+$", nm)]
            pushes = [(bi, t) for bi, t in ga.calls() if strip_generics(mir.callee_name(t) or "") == "std::vec::Vec::push"]
            if not preds:
                oka, why = False, "Dict::filter is never applied to a row"
            elif "filter" in adaptors and "collect" in adaptors and not pushes:
                oka = all(selects_unnegated(x, bi) for x, bi in preds if x.rec["kind"] == "Closure") and not any(a in adaptors for a in ("take", "skip", "step_by", "take_while", "skip_while", "rev", "dedup"))
                why = "" if oka else "the filter adaptor's predicate is not the row's filter result as is, or rows are dropped by another adaptor"
            else:
                oka = False
                why = "rows are not pushed exactly when the filter holds"
                for bi, t in pushes:
                    gs = G.guards_at(ga, bi)
                    hit = any(g.op == "True" and g.a.kind == "call" and re.search(r"Filtered( for [A-Za-z:]+)?>::filter$", g.a.v) for g in gs if g.a is not None)
                    it = any(g.a is not None and g.a.kind == "discr" and g.a.args and ".rows" in repr(g.a.args[0]) and "rev" not in repr(g.a.args[0]) for g in gs)
                    extra = [g for g in gs if g.a is not None and not (g.a.kind == "call" and re.search(r"Filtered( for [A-Za-z:]+)?>::filter$", g.a.v)) and not (g.a.kind == "discr" and g.a.args and ".rows" in repr(g.a.args[0])) and "Try>::branch" not in repr(g.a)]
                    if hit and it and len(pushes) == 1 and not extra:
                        oka = True
                    elif hit and it and extra:
                        why = "a matching row is pushed only under a further condition (%s): some rows for which the filter holds are left out" % ", ".join(sorted({repr(g.a)[:60] for g in extra}))
        if oka:
            rep.ok("T-REDUCE", "grid:filter-all", ga.where(), "every row for which the filter holds, in iteration order")
        else:
            rep.bad("T-REDUCE", "T-REDUCE:grid:filter-all", ga.where(), "filter_all does not yield each row of a forward iteration exactly when the filter holds (%s)" % why)
    return n


# ---------------------------------------------------------------------- C08
def display_literals(prog, short):
    b = body_of(prog, short)
    out = []
    if b is None:
        return None, None
    bodies = [b] + [prog.bodies[c] for c in prog.closures_of.get(b.id, [])]
    for x in bodies:
        for bi, t in x.calls():
            nm = strip_generics(mir.callee_name(t) or "")
            if nm.endswith("Formatter::write_str") and len(t["args"]) > 1:
                v = G.describe(x, t["args"][1])
                if v.kind == "conststr":
                    out.append(v.v)
            if nm.endswith("Formatter::write_fmt"):
                a = fmtargs.arguments_of(x, t["args"][1])
                if a:
                    out += [p[1] for p in a[0] if p[0] == "lit"]
            if re.search(r"(\[T\]>|slice::<impl \[T\]>|Join<&str>>)::join$", nm) or nm.endswith("::join"):
                for a2 in t["args"][1:]:
                    v = G.describe(x, a2)
                    if v.kind == "conststr":
                        out.append(v.v)
    return out, b


def static_str(prog, name):
    """string literal used to initialise a lazy_static LexerToken (OR_TOKEN / AND_TOKEN)"""
    for b in prog.bodies.values():
        if ("parser::%s as std::ops::Deref>::deref::__static_ref_initialize" % name) in b.id:
            for bi, t in b.calls():
                for a in t["args"]:
                    v = G.describe(b, a)
                    if v.kind == "conststr":
                        return v.v, b
                    s = []
                    from rules.units import strs_in
                    strs_in(v, s)
                    if s:
                        return s[0], b
    return None, None


def check_spellings(ctx, rep):
    prog = ctx.prog
    arms, lb = lexer_first_bytes(prog)
    n = 0
    if not arms:
        rep.gap("filter Lexer::read", "-", "first-byte dispatch not found")
        return 0
    N = "<haystack::filter::nodes::%s as std::fmt::Display>::fmt"
    for node, tokname, sep in (("Or", "OR_TOKEN", " or "), ("And", "AND_TOKEN", " and ")):
        lits, b = display_literals(prog, N % node)
        kw, sb = static_str(prog, tokname)
        n += 1
        key = "spelling:%s" % node
        if lits is None or kw is None:
            rep.gap(key, "-", "Display or keyword token not found")
        elif lits == [sep] and sep.strip() == kw:
            rep.ok("T-SPELL", key, b.where(), "printed separator %r is the keyword %r the parser compares with (a lower-case id token)" % (sep, kw))
        else:
            rep.bad("T-SPELL", "T-SPELL:" + key, b.where(), "%s prints %s between operands but the parser's keyword is %r" % (node, lits, kw))
    # not
    lits, b = display_literals(prog, N % "Missing")
    pt = body_of(prog, F + "parser::Parser::parse_term")
    n += 1
    kw = None
    if pt is not None:
        for bi, t in pt.calls():
            nm = strip_generics(mir.callee_name(t) or "")
            if nm.endswith("::eq") or nm.endswith("::ne"):
                for a in t["args"]:
                    v = G.describe(pt, a)
                    if v.kind == "conststr":
                        kw = v.v
    if lits and kw and lits[0].strip() == kw and lits[0].endswith(" "):
        rep.ok("T-SPELL", "spelling:Missing", b.where(), "prints %r; the parser recognises the path %r" % (lits[0], kw))
    else:
        rep.bad("T-SPELL", "T-SPELL:spelling:Missing", b.where() if b else "-", "Missing prints %s but the parser's keyword is %r" % (lits, kw))
    # parens
    lits, b = display_literals(prog, N % "Parens")
    n += 1
    lp = arms.get(ord("("), {}).get("tokens", [])
    rp = arms.get(ord(")"), {}).get("tokens", [])
    if lits and lits[0].strip() == "(" and lits[-1].strip() == ")" and lp == ["LeftParens"] and rp == ["RightParens"]:
        rep.ok("T-SPELL", "spelling:Parens", b.where(), "prints %r .. %r; '(' lexes to LeftParens and ')' to RightParens" % (lits[0], lits[-1]))
    else:
        rep.bad("T-SPELL", "T-SPELL:spelling:Parens", b.where() if b else "-", "Parens prints %s; lexer maps '(' to %s and ')' to %s" % (lits, lp, rp))
    # wildcard
    lits, b = display_literals(prog, N % "WildcardEq")
    n += 1
    st = arms.get(ord("*"), {})
    if lits and "".join(lits).strip() == "*==" and st.get("seq") == ["=="] and st.get("tokens") == ["WildcardEq"]:
        rep.ok("T-SPELL", "spelling:WildcardEq", b.where(), "prints ' *== '; '*' followed by '==' lexes to WildcardEq")
    else:
        rep.bad("T-SPELL", "T-SPELL:spelling:WildcardEq", b.where() if b else "-", "WildcardEq prints %s; lexer arm for '*': %s" % (lits, st))
    # IsA
    lits, b = display_literals(prog, N % "IsA")
    n += 1
    st = arms.get(ord("^"), {})
    if lits and lits[0] == "^" and "parse_symbol" in st.get("calls", []):
        rep.ok("T-SPELL", "spelling:IsA", b.where(), "prints '^' + name; '^' is read by parse_symbol")
    else:
        rep.bad("T-SPELL", "T-SPELL:spelling:IsA", b.where() if b else "-", "IsA prints %s; lexer arm for '^' calls %s" % (lits, st.get("calls")))
    # Relation
    lits, b = display_literals(prog, N % "Relation")
    n += 1
    ida = arms.get(ord("a"), {})
    if lits and lits[0] == "?" and "Rel" in ida.get("tokens", []):
        rep.ok("T-SPELL", "spelling:Relation", b.where(), "prints name + '?'; an id followed by '?' lexes to Rel")
    else:
        rep.bad("T-SPELL", "T-SPELL:spelling:Relation", b.where() if b else "-", "Relation prints %s; id arm builds %s" % (lits, ida.get("tokens")))
    # Path
    lits, b = display_literals(prog, "<haystack::filter::path::Path as std::fmt::Display>::fmt")
    n += 1
    if lits == ["->"] and "parse_path" in ida.get("calls", []):
        rep.ok("T-SPELL", "spelling:Path", b.where(), "segments joined by '->'; the lexer continues a path on '-' '>'")
    else:
        rep.bad("T-SPELL", "T-SPELL:spelling:Path", b.where() if b else "-", "Path prints %s between segments; id arm calls %s" % (lits, ida.get("calls")))
    # scalar literal readers shared with the Zinc lexer
    for ch, fn in (('"', "parse_str"), ("`", "parse_uri"), ("@", "parse_ref"), ("^", "parse_symbol"), ("5", "parse_number_date_time"), ("-", "parse_number_date_time")):
        n += 1
        st = arms.get(ord(ch), {})
        key = "literal-reader:%s" % fn + ":" + ("minus" if ch == "-" else "digit" if ch == "5" else ch)
        if fn in st.get("calls", []):
            rep.ok("T-SPELL", key, lb.where(), "first byte %r is read by the Zinc scalar reader %s" % (ch, fn))
        else:
            rep.bad("T-SPELL", "T-SPELL:" + key, lb.where(), "first byte %r is not dispatched to %s (calls %s)" % (ch, fn, st.get("calls")))
    return n


def check_path_rule(ctx, rep):
    """R-MUSTPASS: in parse_path every way from recording a segment to reading the next one passes the consumption of '>'"""
    prog = ctx.prog
    b = body_of(prog, F + "lexer::Lexer::parse_path")
    if b is None:
        rep.gap("parse_path", "-", "not found")
        return 0
    pushes = [bi for bi, t in b.calls() if strip_generics(mir.callee_name(t) or "") == "std::vec::Vec::push"]
    ids = [bi for bi, t in b.calls() if strip_generics(mir.callee_name(t) or "").endswith("decode::id::parse_id")]
    gts = []
    for bi, t in b.calls():
        if strip_generics(mir.callee_name(t) or "").endswith("Scanner::expect_and_consume") and len(t["args"]) > 1:
            v = G.describe(b, t["args"][1])
            if v.kind == "const" and v.v == ord(">"):
                gts.append(bi)
    if not pushes or not ids or not gts:
        rep.gap("parse_path:events", b.where(), "push=%s parse_id=%s expect('>')=%s" % (pushes, ids, gts))
        return 0
    n = 0
    for idb in ids:
        n += 1
        ok, path = must_pass(b, pushes, idb, gts)
        if ok:
            rep.ok("R-MUSTPASS", "parse_path:arrow-between-segments", b.where(idb), "every path from a recorded segment to the next parse_id passes expect_and_consume('>')")
        else:
            rep.bad("R-MUSTPASS", "R-MUSTPASS:parse_path:arrow-between-segments", b.where(idb), "a path can be continued without '->': after a segment the next identifier is read along blocks %s; 'a->b and c' becomes one path" % path)
    return n


SKELETON = {
    "parse": {"parse_or"},
    "parse_or": {"parse_and"},
    "parse_and": {"parse_term"},
    "parse_term": {"parse_parens", "parse_not", "parse_cmp_or_wildcard_eq", "parse_rel"},
    "parse_parens": {"parse_or"},
    "parse_cmp_or_wildcard_eq": {"parse_cmp", "parse_wildcard_eq"},
}


def check_skeleton(ctx, rep):
    prog = ctx.prog
    n = 0
    P = F + "parser::Parser::"
    names = {b.short[len(P):]: b for b in prog.bodies.values() if b.short.startswith(P) and "::" not in b.short[len(P):]}
    for fn, want in sorted(SKELETON.items()):
        b = names.get(fn)
        if b is None:
            rep.gap("Parser::" + fn, "-", "not found")
            continue
        n += 1
        calls = set()
        for x in [b] + [prog.bodies[c] for c in prog.closures_of.get(b.id, [])]:
            for bi, t in x.calls():
                nm = strip_generics(mir.callee_name(t) or "")
                if nm.startswith(P) and nm[len(P):].startswith("parse"):
                    calls.add(nm[len(P):])
        key = "skeleton:%s" % fn
        if calls == want:
            rep.ok("T-SKELETON", key, b.where(), "%s calls exactly %s" % (fn, sorted(want)))
        else:
            rep.bad("T-SKELETON", "T-SKELETON:" + key, b.where(), "%s calls %s, the grammar's precedence skeleton needs exactly %s" % (fn, sorted(calls), sorted(want)))
    # leftovers rejected: Ok(or) in parse only under `cur.value is None`
    pb = names.get("parse")
    if pb is not None:
        n += 1
        ok = False
        for x in [pb] + [prog.bodies[c] for c in prog.closures_of.get(pb.id, [])]:
            for bi, blk in enumerate(x.blocks):
                for s in blk["stmts"]:
                    if s["k"] == "assign" and s["rv"]["k"] == "agg" and s["rv"].get("variant") == "Ok" and s["rv"].get("adt") == "std::result::Result":
                        for g in G.guards_at(x, bi):
                            if g.a is not None and g.a.kind == "discr" and g.op == "Eq" and g.b.v == 0 and ".cur.value" in repr(g.a):
                                ok = True
        if ok:
            rep.ok("T-SKELETON", "parse:rejects-leftovers", pb.where(), "Ok is returned only when no token is left")
        else:
            rep.bad("T-SKELETON", "T-SKELETON:parse:rejects-leftovers", pb.where(), "Parser::parse can return Ok while a token is still pending")
    return n


def check_display_separators(ctx, rep):
    """Or / And / Path print one separator between consecutive elements: the separator write (in the per-element closure of a
    try_for_each, or in the body of a for loop) is guarded by the enumerate index in one of the two sound forms - after each
    element but the last (`index < len - 1`), or before each element but the first (`index > 0`) - and sits on that side of
    the element's own fmt call"""
    from rules import seps

    prog = ctx.prog
    n = 0
    for short, sep, field in (("<haystack::filter::nodes::Or as std::fmt::Display>::fmt", " or ", ".ands"), ("<haystack::filter::nodes::And as std::fmt::Display>::fmt", " and ", ".terms"), ("<haystack::filter::path::Path as std::fmt::Display>::fmt", "->", None)):
        b = body_of(prog, short)
        if b is None:
            rep.gap(short, "-", "not found")
            continue
        n += 1
        key = "display-separator:%s" % short.split("::")[3].split(" ")[0]
        ok = False
        form = ""
        why = "separator %r is not written per element of an enumerate() iteration" % sep
        for x in [b] + [prog.bodies[c] for c in prog.closures_of.get(b.id, [])]:
            in_closure = x.rec["kind"] == "Closure"
            sites = []
            elems = []
            for bi, t in x.calls():
                nm = strip_generics(mir.callee_name(t) or "")
                if (nm.endswith("Formatter::write_str") or nm.endswith("Write::write_str")) and len(t["args"]) > 1:
                    v = G.describe(x, t["args"][1])
                    if v.kind == "conststr" and v.v == sep:
                        sites.append(bi)
                        continue
                if nm.endswith("Display>::fmt") or nm.endswith("Formatter::write_fmt") or nm.endswith("Formatter::write_str") or nm.endswith("Debug>::fmt"):
                    elems.append(bi)
            for bi in sites:
                header = None
                index_re = r"^_2\.0$" if in_closure else r"as Some\.0\.0$"
                if not in_closure:
                    # innermost enumerate loop around the separator
                    lp = [g for g in G.guards_at(x, bi) if g.a is not None and g.a.kind == "discr" and g.op == "Eq" and g.b.v == 1 and g.a.args and "Enumerate" in repr(g.a.args[0])]
                    if not lp:
                        why = "separator %r is written outside an enumerate() loop" % sep
                        continue
                    header = lp[0].block
                    el = [e for e in elems if header in x.reachable(e) and e in x.reachable(header)]
                    driver = repr(lp[0].a.args[0])
                else:
                    el = elems
                    drv = [tt for _, tt in b.calls() if re.search(r"::(try_for_each|for_each|try_fold|fold)$", strip_generics(mir.callee_name(tt) or ""))]
                    driver = repr(G.describe(b, drv[0]["args"][0])) if drv else ""
                good, fm, coll, w2 = seps.classify(x, bi, index_re, el, header)
                if not good:
                    why = w2
                    continue
                if "enumerate" not in driver.lower():
                    why = "the index does not come from enumerate() over the printed collection"
                    continue
                if coll is not None:
                    fld = re.search(r"\.([a-z_]+)\)*$", coll)
                    if not (fld and ("." + fld.group(1)) in driver):
                        why = "the guard's length is not of the collection that is enumerated"
                        continue
                ok = True
                form = fm
        if not ok:
            # `parts.join(sep)`: the separator sits between consecutive elements by construction; the joined parts must be the
            # printed collection, element for element (a map over its iterator, collected)
            for x in [b] + [prog.bodies[c] for c in prog.closures_of.get(b.id, [])]:
                for bi, t in x.calls():
                    nm = strip_generics(mir.callee_name(t) or "")
                    if nm.endswith("::join") and len(t["args"]) > 1:
                        sv = G.describe(x, t["args"][1])
                        src = repr(G.describe(x, t["args"][0]))
                        names = [strip_generics(mir.callee_name(tt) or "") for _b2, tt in x.calls()]
                        cut = [nm2.split("::")[-1] for nm2 in names if re.search(r"Iterator(>|)::(filter|filter_map|take|skip|step_by|take_while|skip_while|rev|dedup)$", nm2)]
                        fld = field or ".segments"
                        if sv.kind == "conststr" and sv.v == sep and "collect" in src and fld in src and not cut:
                            ok = True
                            form = "by join(%r) over all elements" % sep
        if ok:
            rep.ok("T-SEP", key, b.where(), "%r written %s of the enumerated collection" % (sep, form))
        else:
            rep.bad("T-SEP", "T-SEP:" + key, b.where(), "%s: %s; some trees print without a separator (or with an extra one) and re-parse differently" % (short.split("::")[3].split(" ")[0], why))
    return n


def check_whitespace_siblings(ctx, rep):
    """the filter lexer treats space, tab, CR and LF alike as white space between tokens (its first-byte arm); every other
    place in the filter lexer that skips blanks must skip the same class"""
    prog = ctx.prog
    from rules import scanai

    ai = scanai.AI(prog)
    arms, lb = lexer_first_bytes(prog)
    if not arms:
        rep.gap("filter lexer", "-", "dispatch not found")
        return 0
    ws_arm = {v for v, eff in arms.items() if eff["calls"][:1] and eff["calls"][0].startswith("consume_") and not eff["tokens"]}
    want = 0
    for v in ws_arm:
        want |= 1 << v
    classes = {}
    for nm, pred in (("consume_spaces", "is_space"), ("consume_white_spaces", "is_white_space")):
        pb = prog.get("haystack::encoding::zinc::decode::scanner::Scanner::" + pred)
        if pb:
            classes[nm] = scanai.byte_class(ai, pb.id)[0]
    n = 0
    for b in prog.bodies.values():
        if not b.file.endswith("filter/lexer.rs"):
            continue
        k = 0
        for bi, t in b.calls():
            nm = strip_generics(mir.callee_name(t) or "").split("::")[-1]
            if nm not in classes:
                continue
            n += 1
            key = "whitespace:%s:%s#%d" % (b.short.split("::")[-1], nm, k)
            k += 1
            if classes[nm] == want:
                rep.ok("T-SPELL", key, b.where(bi), "skips %s, the lexer's white-space class" % scanai.mask_str(want))
            else:
                rep.bad("T-SPELL", "T-SPELL:whitespace:%s:%s" % (b.short.split("::")[-1], nm), b.where(bi), "%s skips %s but the filter lexer's white-space class is %s: a line break in that position is not accepted although it is elsewhere" % (nm, scanai.mask_str(classes[nm]), scanai.mask_str(want)))
    return n


def check_path_resolution(ctx, rep):
    """Dict::resolve_for walks the segments and may stop early only when the value so far is Null ('yields Null when a
    segment is absent'): every exit of the segment loop other than 'no more segments' is taken under is_null() == true"""
    prog = ctx.prog
    b = body_of(prog, "<haystack::val::dict::Dict as haystack::filter::resolver::PathResolver>::resolve_for")
    if b is None:
        rep.gap("Dict::resolve_for", "-", "not found")
        return 0
    loop = None
    nb = None
    for scc in b.sccs():
        for x in scc:
            t = b.term(x)
            if t["k"] == "call" and strip_generics(mir.callee_name(t) or "").endswith("Iterator>::next"):
                loop, nb = scc, x
    if loop is None:
        rep.gap("Dict::resolve_for:loop", b.where(), "segment loop not found")
        return 0
    n = 0
    bad = []
    for x in sorted(loop):
        for s in b.succ(x):
            if s in loop:
                continue
            n += 1
            t = b.term(x)
            conds = []
            if t["k"] == "switch":
                conds = G.switch_conditions(b, x).get(s, [])
            conds = conds + G.guards_at(b, x)
            none_edge = any(c.a is not None and c.a.kind == "discr" and c.a.args and c.a.args[0].kind == "call" and c.a.args[0].v.endswith("::next") and ((c.op == "Eq" and c.b.v == 0) or (c.op == "Ne" and c.b.v == 1)) for c in conds)
            null_edge = any(c.op == "True" and c.a is not None and c.a.kind == "call" and c.a.v.endswith("Value::is_null") for c in conds)
            if not (none_edge or null_edge):
                bad.append((x, s))
    if bad:
        rep.bad("T-RESOLVE", "T-RESOLVE:resolve_for:early-exit-only-on-null", b.where(bad[0][0]), "the segment loop can be left early (bb%d -> bb%d) while the value so far is not Null: a path through a present non-dict value resolves to that value instead of to nothing" % bad[0])
    else:
        rep.ok("T-RESOLVE", "resolve_for:early-exit-only-on-null", b.where(nb), "the %d exits of the segment loop are 'no more segments' or 'value so far is Null'" % n)
    # the non-dict arm yields Null: the match on cur_val assigns Null in its default arm
    sws = K.value_switches(b, "haystack::val::value::Value")
    names = enum_names(prog, "haystack::val::value::Value")
    ok = False
    for sb, t, _ in sws:
        if sb in loop:
            only = [names.get(int(v)) for v, _tb in t["targets"]]
            eff = None
            # default arm: first assignment of a Value aggregate
            seen = {t["otherwise"]}
            st = [t["otherwise"]]
            while st and eff is None:
                y = st.pop(0)
                for s2 in b.blocks[y]["stmts"]:
                    if s2["k"] == "assign" and s2["rv"]["k"] == "agg" and s2["rv"].get("adt") == "haystack::val::value::Value":
                        eff = s2["rv"]["variant"]
                        break
                for z in b.succ(y):
                    if z not in seen and z in loop and len(b.pred(z)) <= 1:
                        seen.add(z)
                        st.append(z)
            if only == ["Dict"] and eff == "Null":
                ok = True
    if ok:
        rep.ok("T-RESOLVE", "resolve_for:non-dict-yields-null", b.where(), "only a Dict is traversed; any other intermediate value yields Null")
    else:
        rep.bad("T-RESOLVE", "T-RESOLVE:resolve_for:non-dict-yields-null", b.where(), "the non-dict arm of the traversal does not yield Null")
    return n + 1



def check_parens_display(ctx, rep):
    """a parenthesised group prints as "(" inner ")" on every path: the brackets are what makes the printed text parse back to
    a Parens node, whatever the group contains"""
    from vlib.dataflow import must_pass

    prog = ctx.prog
    b = body_of(prog, "<haystack::filter::nodes::Parens as std::fmt::Display>::fmt")
    if b is None:
        rep.gap("Parens::fmt", "-", "not found")
        return 0
    opens, closes, inner, errs = [], [], [], []
    for bi, t in b.calls():
        nm = strip_generics(mir.callee_name(t) or "")
        lit = None
        if nm.endswith("Formatter::write_str") and len(t["args"]) > 1:
            v = G.describe(b, t["args"][1])
            lit = v.v if v.kind == "conststr" else None
        elif nm.endswith("write_fmt"):
            a = fmtargs.arguments_of(b, t["args"][1])
            if a and a[0] is not None:
                lit = "".join(p[1] for p in a[0] if p[0] == "lit")
                if any(p[0] != "lit" for p in a[0]):
                    inner.append(bi)
        elif nm.endswith("Or as std::fmt::Display>::fmt") or nm.endswith("Or as std::fmt::Debug>::fmt"):
            inner.append(bi)
        elif nm.endswith("FromResidual>::from_residual"):
            errs.append(bi)
        if lit is not None:
            if "(" in lit:
                opens.append(bi)
            if ")" in lit:
                closes.append(bi)
    if not inner:
        rep.bad("T-SKELETON", "T-SKELETON:parens-display", b.where(), "Parens::fmt never prints its inner expression")
        return 1
    rets = [x for x in range(b.n) if b.term(x)["k"] == "return"]
    ok1 = all(i in opens or 0 in opens or must_pass(b, [0], i, opens)[0] for i in inner)
    ok2 = all(i in closes or all(must_pass(b, [i], r, closes + errs)[0] for r in rets) for i in inner)
    if ok1 and ok2:
        rep.ok("T-SKELETON", "parens-display", b.where(), "every path prints '(' before and ')' after the inner expression")
    else:
        rep.bad("T-SKELETON", "T-SKELETON:parens-display", b.where(), "Parens::fmt can print its inner expression without %s: the printed text parses to a tree without the group" % ("the opening bracket" if not ok1 else "the closing bracket"))
    return 1


def check_list_and_presence_semantics(ctx, rep):
    """(a) a comparison against a list-valued tag holds if some *element* stands in the relation - unless the literal is itself a
    list, in which case the two lists are compared as values: in cmp_dispatch the element-wise `any` is taken only under
    `!rhs.is_list()`. (b) `tag` holds exactly when the path resolves to something other than Null: Value::has_value is `!is_null()`
    and nothing else (NA, Remove, an empty string are values)"""
    prog = ctx.prog
    n = 0
    cd = next((b for b in prog.bodies.values() if strip_generics(b.id).endswith("filter::nodes::cmp_dispatch") and b.rec["kind"] != "Closure"), None)
    if cd is None:
        rep.gap("cmp_dispatch", "-", "not found")
    else:
        n += 1
        anys = [(bi, t) for bi, t in cd.calls() if strip_generics(mir.callee_name(t) or "").endswith(("Iterator>::any", "Iterator::any"))]
        good = bool(anys)
        for bi, t in anys:
            gs = G.guards_at(cd, bi)
            if not any(g.op == "False" and g.a is not None and g.a.kind == "call" and strip_generics(g.a.v).endswith("Value::is_list") and g.a.args and re.fullmatch(r"_3\**", repr(g.a.args[0])) for g in gs):
                good = False
            # ... and under nothing else (an emptiness test on the list makes `!=` hold for an empty list)
            extra = [g for g in gs if g.a is not None and not (g.a.kind == "call" and strip_generics(g.a.v).endswith("Value::is_list")) and not (g.a.kind == "discr" and re.fullmatch(r"discr:\(_2\**\)", repr(g.a)))]
            if extra:
                good = False
        if good:
            rep.ok("T-REDUCE", "cmp:list-literal-compared-whole", cd.where(), "element-wise comparison only when the literal is not a list")
        else:
            rep.bad("T-REDUCE", "T-REDUCE:cmp:list-literal-compared-whole", cd.where(), "cmp_dispatch compares element by element even when the literal is itself a list: `x == [1,2]` no longer holds for x = [1,2]")
    hv = prog.get("haystack::val::value::Value::has_value")
    if hv is None:
        rep.gap("Value::has_value", "-", "not found")
    else:
        n += 1
        rv = G.describe_place(hv, {"l": 0, "p": []})
        calls = [strip_generics(mir.callee_name(t) or "") for _bi, t in hv.calls()]
        if rv.kind == "unop" and rv.v == "Not" and rv.args and rv.args[0].kind == "call" and strip_generics(rv.args[0].v).endswith("Value::is_null") and calls == ["haystack::val::value::Value::is_null"]:
            rep.ok("T-REDUCE", "has:has_value-is-not-null", hv.where(), "has_value() = !is_null()")
        else:
            from rules import kinds as _K
            vv = {d: nm for nm, d in _K.variants(prog, _K.VAL)}
            r = _K.positive_variants(hv, vv)
            if r is not None and r[0] == set(vv.values()) - {"Null"} and not _K.conditional_positive_arms(hv, vv):
                rep.ok("T-REDUCE", "has:has_value-is-not-null", hv.where(), "has_value() is true for every variant but Null")
            else:
                rep.bad("T-REDUCE", "T-REDUCE:has:has_value-is-not-null", hv.where(), "Value::has_value is not `!is_null()` (it is %s, calling %s): `tag` and `not tag` can both be false for a present value" % (repr(rv)[:100], [c.split("::")[-1] for c in calls]))
    return n
