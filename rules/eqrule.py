"""R-EQ: footprints of hand-written Eq / Hash / PartialOrd / Ord (DESIGN 2.6)."""
import re

from rules import guards as G
from vlib import mir
from vlib.mir import callee_of, op_place, strip_generics

TRAITS = {
    "std::cmp::PartialEq": "eq",
    "std::hash::Hash": "hash",
    "std::cmp::PartialOrd": "partial_cmp",
    "std::cmp::Ord": "cmp",
}
SELF_FIELD = re.compile(r"_1\*\.([A-Za-z_0-9]+)")
OTHER_FIELD = re.compile(r"_2\*\.([A-Za-z_0-9]+)")


def impl_table(prog):
    """adt -> {method: (body or None, derived flag)} for local ADTs under haystack::val / haystack::units"""
    out = {}
    for im in prog.impls:
        tr = im.get("trait")
        adt = im.get("self_adt")
        if tr not in TRAITS and tr != "std::cmp::Eq":
            continue
        if not adt or not (adt.startswith("haystack::val::") or adt.startswith("haystack::units::unit::")):
            continue
        if im.get("self_ty", "").startswith("&"):
            continue
        if tr == "std::cmp::Eq":
            out.setdefault(adt, {})["Eq"] = (None, im.get("derived"))
            continue
        m = TRAITS[tr]
        body = None
        for it in im["items"]:
            if it["name"] == m and it["id"] in prog.bodies:
                body = prog.bodies[it["id"]]
        # PartialEq<Self> only
        if tr in ("std::cmp::PartialEq", "std::cmp::PartialOrd") and "<" in im.get("trait_ref", "").split(" as ")[1].split(">")[0] if False else False:
            continue
        tref = im.get("trait_ref", "")
        if tr in ("std::cmp::PartialEq", "std::cmp::PartialOrd") and re.search(r"(PartialEq|PartialOrd)<", tref) and adt not in tref.split(" as ")[1]:
            continue
        out.setdefault(adt, {})[m] = (body, bool(im.get("derived")))
    return out


def ops_of(body, prog=None):
    """ordered list of (kind, name, text) for operations whose operands mention a field of self;
    follows closures of the body (and_then(|ord| ..))"""
    out = []
    bodies = [body]
    if prog is not None:
        bodies += [prog.bodies[c] for c in prog.closures_of.get(body.id, [])]
    for b in bodies:
        for bi in b.rpo():
            blk = b.blocks[bi]
            if blk.get("cleanup"):
                continue
            for st in blk["stmts"]:
                if st["k"] == "assign" and st["rv"]["k"] == "binop" and st["rv"]["op"] in ("Eq", "Ne", "Lt", "Le", "Gt", "Ge"):
                    a, c = G.describe(b, st["rv"]["a"]), G.describe(b, st["rv"]["b"])
                    txt = "%s %s %s" % (a, st["rv"]["op"], c)
                    txt = _norm_closure(b, txt)
                    if SELF_FIELD.search(txt) or "self." in txt:
                        out.append(("binop", st["rv"]["op"] + ":" + st["rv"].get("aty", ""), txt))
            t = blk["term"]
            if t["k"] == "call":
                nm = strip_generics(mir.callee_name(t) or "?")
                args = [repr(G.describe(b, a)) for a in t["args"]]
                txt = _norm_closure(b, "%s(%s)" % (nm, ", ".join(args)))
                if SELF_FIELD.search(txt):
                    out.append(("call", nm, txt))
    return out


def _norm_closure(b, txt):
    """in closures captured self is `_1*.K*`; make it look like the method's `_1*` when the capture is the parent's self"""
    if b.rec["kind"] != "Closure":
        return txt
    return re.sub(r"_1\*?\.\d+\*+", "_1*", txt)


def fields_of(ops):
    s = set()
    for k, nm, txt in ops:
        s |= set(SELF_FIELD.findall(txt))
    return s


def all_fields(body, prog=None):
    """every field of self (parameter 1) the body, or a closure of it, touches in any statement or terminator"""
    out = set()
    bodies = [body]
    if prog is not None:
        bodies += [prog.bodies[c] for c in prog.closures_of.get(body.id, [])]
    for b in bodies:
        if b.rec["kind"] == "Closure":
            continue
        import json as _json

        # locals that are the same value as `self`: plain copies / reborrows of _1 (what binding a helper's parameter leaves behind)
        alias = {1}
        changed = True
        while changed:
            changed = False
            for blk in b.blocks:
                for st in blk["stmts"]:
                    if st["k"] != "assign" or st["lhs"]["p"] or st["lhs"]["l"] in alias:
                        continue
                    rv = st["rv"]
                    src = None
                    if rv["k"] in ("use", "cast"):
                        src = op_place(rv["op"])
                    elif rv["k"] in ("ref", "rawptr"):
                        src = rv["place"]
                    if src is not None and src["l"] in alias and all(x == "*" for x in src["p"]) and len(b.defs().get(st["lhs"]["l"], [])) == 1:
                        alias.add(st["lhs"]["l"])
                        changed = True

        def scan(pl):
            if isinstance(pl, dict) and pl.get("l") in alias and isinstance(pl.get("p"), list):
                for pr in pl["p"]:
                    if isinstance(pr, dict) and "n" in pr:
                        out.add(pr["n"])
                        break

        def walk(x):
            if isinstance(x, dict):
                if "l" in x and "p" in x:
                    scan(x)
                for v in x.values():
                    walk(v)
            elif isinstance(x, list):
                for v in x:
                    walk(v)

        for blk in b.blocks:
            if blk.get("cleanup"):
                continue
            walk(blk["stmts"])
            walk(blk["term"])
    return out


def field_types(prog, adt):
    a = prog.adts.get(adt)
    if not a or not a["variants"]:
        return {}
    return {f["name"]: f["ty"] for f in a["variants"][0]["fields"]}


CMP_CALL = re.compile(r"(::cmp$|::partial_cmp$|::lt$|::le$|::gt$|::ge$)")


def order_key(ops):
    """normalised (field, what) list of the ordering-relevant operations, consecutive duplicates merged"""
    key = []
    for k, nm, txt in ops:
        fs = SELF_FIELD.findall(txt)
        if not fs:
            continue
        if k == "binop" and nm.split(":")[0] in ("Lt", "Le", "Gt", "Ge"):
            item = (fs[0], "cmp")
        elif k == "binop":
            item = (fs[0], "eq")
        elif CMP_CALL.search(nm):
            via = "cmp"
            if "::keys(" in txt:
                via = "keys.cmp"
            elif "::values(" in txt:
                via = "values.cmp"
            elif "::iter(" in txt:
                via = "iter.cmp"
            item = (fs[0], via)
        elif nm.endswith("::eq") or nm.endswith("::ne"):
            item = (fs[0], "eq")
        elif nm.endswith(("::is_empty", "::len")):
            item = (fs[0], "shape")
        else:
            continue
        if not key or key[-1] != item:
            key.append(item)
    return key


def check(ctx, rep):
    prog = ctx.prog
    tab = impl_table(prog)
    n_types = 0
    n_impls = 0
    for adt, ms in sorted(tab.items()):
        hand = {m: b for m, (b, d) in ms.items() if b is not None and not d}
        if not hand:
            continue
        n_types += 1
        n_impls += len(hand)
        short = adt.split("::")[-1]
        ftypes = field_types(prog, adt)
        allf = set(ftypes)
        ops = {m: ops_of(b, prog) for m, b in hand.items()}
        fs = {m: fields_of(o) | all_fields(hand[m], prog) for m, o in ops.items()}
        # derived impls read every field in declaration order
        for m, (b, d) in ms.items():
            if d and m != "Eq":
                fs[m] = set(allf)
        is_enum = prog.adts.get(adt, {}).get("kind") == "Enum"
        where = lambda m: hand[m].where() if m in hand else "-"
        if is_enum:
            continue  # Value: handled by the per-variant rule Q5
        # Q1 hash footprint inside eq footprint
        if "hash" in fs and "eq" in fs:
            key = "%s:Q1:hash-fields-subset-of-eq" % short
            extra = fs["hash"] - fs["eq"]
            if extra:
                rep.bad("R-EQ", "R-EQ:" + key, where("hash") if "hash" in hand else where("eq"), "Q1: %s::hash reads field(s) %s that %s::eq ignores: equal values can hash differently" % (short, sorted(extra), short))
            else:
                rep.ok("R-EQ", key, where("hash") if "hash" in hand else where("eq"), "Q1: hash reads %s, eq reads %s" % (sorted(fs["hash"]), sorted(fs["eq"])))
            # Q1b float == vs to_bits
            if "hash" in hand and "eq" in hand:
                for f, ty in sorted(ftypes.items()):
                    if ty != "f64" or f not in fs["hash"]:
                        continue
                    eq_float = any((k == "binop" and nm.startswith("Eq") and "." + f in txt) or (k == "call" and nm.endswith("for f64>::eq") and "." + f in txt) for k, nm, txt in ops["eq"])
                    eq_bits = any("to_bits(_1*.%s)" % f in txt for k, nm, txt in ops["eq"])
                    hb = [txt for k, nm, txt in ops["hash"] if "to_bits(" in txt and "." + f in txt]
                    plain_bits = any("to_bits(_1*.%s)" % f in txt for txt in hb)
                    key = "%s:Q1b:float-zero:%s" % (short, f)
                    # a normalised hash must test *this* field against zero
                    zero_guard = any(k == "binop" and nm.startswith("Eq") and re.search(r"_1\*\.%s Eq const 0$" % re.escape(f), txt) for k, nm, txt in ops["hash"])
                    # ... or the field is handed, alone, to a helper that tests its own parameter against zero before taking the bits
                    if not zero_guard:
                        for k, nm, txt in ops["hash"]:
                            if k == "call" and (nm.startswith("haystack::") or nm.startswith("<haystack::")) and re.search(r"\(_1\*\.%s\)$" % re.escape(f), txt):
                                hb2 = prog.get(nm) or next((x for x in prog.bodies.values() if strip_generics(x.id) == nm), None)
                                if hb2 is not None and hb2.arg_count == 1:
                                    tests = [1 for bi2 in range(hb2.n) for st in hb2.blocks[bi2]["stmts"] if st["k"] == "assign" and st["rv"]["k"] == "binop" and st["rv"]["op"] == "Eq"
                                             and repr(G.describe(hb2, st["rv"]["a"])) == "_1" and repr(G.describe(hb2, st["rv"]["b"])) == "const 0"]
                                    bits = [1 for _b3, t3 in hb2.calls() if strip_generics(mir.callee_name(t3) or "").endswith("::to_bits")]
                                    if tests and bits:
                                        zero_guard = True
                    if eq_float and not plain_bits and not eq_bits and not zero_guard:
                        rep.bad("R-EQ", "R-EQ:" + key, where("hash"), "Q1: %s::hash normalises the value it hashes for .%s, but never tests .%s itself against zero (the test is on another field): +0.0 and -0.0 in .%s are equal with different hashes" % (short, f, f, f))
                        continue
                    if eq_float and plain_bits and not eq_bits and not zero_guard:
                        rep.bad("R-EQ", "R-EQ:" + key, where("hash"), "Q1: %s::eq compares .%s with float == (so +0.0 == -0.0) but hash feeds .%s.to_bits() unnormalised: the two zeros are equal with different hashes" % (short, f, f))
                    else:
                        rep.ok("R-EQ", key, where("hash"), "Q1: .%s: eq %s, hash %s" % (f, "bitwise" if eq_bits else "float ==", "to_bits of a zero-normalised value" if hb and not plain_bits else ("to_bits" if hb else "other")))
        # Q2 cmp footprint == eq footprint
        if "cmp" in fs and "eq" in fs:
            key = "%s:Q2:cmp-fields-equal-eq-fields" % short
            if fs["cmp"] != fs["eq"]:
                rep.bad("R-EQ", "R-EQ:" + key, where("cmp") if "cmp" in hand else where("eq"), "Q2: %s::cmp reads %s but eq reads %s: cmp can say Equal for values that are not equal (or the reverse)" % (short, sorted(fs["cmp"]), sorted(fs["eq"])))
            else:
                rep.ok("R-EQ", key, where("cmp") if "cmp" in hand else where("eq"), "Q2: both read %s" % sorted(fs["cmp"]))
        # Q2b eq and cmp observe the same aspects of each field
        if "cmp" in hand and "eq" in hand or ("eq" in hand and ms.get("cmp", (None, False))[0] is not None) or ("cmp" in hand and "eq" in ms):
            def observers(o):
                out = set()
                for k, nm, txt in o:
                    if k != "call":
                        continue
                    last = nm.split("::")[-1]
                    if last in ("eq", "ne", "cmp", "partial_cmp", "lt", "le", "gt", "ge", "hash", "deref", "as_ref", "borrow", "to_bits", "clone", "is_empty", "len", "keys", "values", "iter", "and_then", "into_iter", "next"):
                        continue
                    if nm.startswith(("std::", "core::")) and not nm.startswith(("std::fmt", "core::fmt")) and "chrono" not in nm:
                        continue
                    out.add(nm)
                return out
            if "eq" in hand and ("cmp" in hand):
                oe, oc = observers(ops["eq"]), observers(ops["cmp"])
                key = "%s:Q2b:same-observers" % short
                if oe != oc:
                    rep.bad("R-EQ", "R-EQ:" + key, where("eq"), "Q2: %s::eq looks at %s while cmp looks at %s: the two can disagree on whether values are equal" % (short, sorted(x.split('::')[-1] for x in oe) or "the plain fields", sorted(x.split('::')[-1] for x in oc) or "the plain fields"))
                else:
                    rep.ok("R-EQ", key, where("eq"), "Q2: eq and cmp apply the same accessors to the fields (%s)" % (sorted(x.split('::')[-1] for x in oe) or "none"))
            elif "eq" in hand and ms.get("cmp", (None, False))[0] is None and "cmp" in ms:
                pass
        # Q1c what hash feeds is a function of what eq compares: beyond the fields' own Hash impls it may apply the accessors eq applies,
        # and - on a timestamp, whose equality is equality of instants - the accessors that are functions of the instant alone. A
        # crate accessor or a zone / local-time accessor that eq never consults makes equal values hash differently
        if "hash" in hand and ("eq" in hand or "eq" in ms):
            INSTANT = ("timestamp", "timestamp_millis", "timestamp_micros", "timestamp_nanos", "timestamp_nanos_opt", "timestamp_subsec_millis",
                       "timestamp_subsec_micros", "timestamp_subsec_nanos", "naive_utc", "to_utc")
            eq_obs = set()
            if "eq" in hand:
                eq_obs = {nm for k, nm, _t in ops["eq"] if k == "call"}
            extra = []
            hb0 = hand["hash"]
            for b2 in [hb0] + [prog.bodies[c] for c in prog.closures_of.get(hb0.id, [])]:
                for _bi2, t in b2.calls():
                    nm = strip_generics(mir.callee_name(t) or "")
                    last = nm.split("::")[-1]
                    if re.search(r" as std::(cmp::(PartialEq|Eq|PartialOrd|Ord)|hash::Hash|ops::Deref|convert::AsRef|borrow::Borrow|clone::Clone)>::", nm) or nm in eq_obs:
                        continue
                    if nm.startswith(("haystack::", "<haystack::")) and t["args"]:
                        extra.append(nm)
                    elif "chrono" in nm and last not in INSTANT and t["args"]:
                        extra.append(nm)
            key = "%s:Q1c:hash-observers" % short
            if extra:
                rep.bad("R-EQ", "R-EQ:" + key, where("hash"), "Q1: %s::hash feeds %s, which eq never consults: two values that are equal can hash differently" % (short, sorted({x.split("::")[-1] for x in extra})))
            else:
                rep.ok("R-EQ", key, where("hash"), "Q1: hash applies no accessor that eq does not apply (instant accessors of a timestamp aside)")
        # Q2d a hand-written cmp / partial_cmp next to a *derived* eq (plain equality of the fields): the order must look at the fields
        # themselves - an order taken on a coarser projection (milliseconds of a time with nanoseconds, a lower-cased name) says
        # Equal for values that are not equal. Every comparison in it compares the fields directly; no accessor, no arithmetic
        derived_eq = "eq" not in hand and ms.get("eq", (None, False))[1] if "eq" in ms else False
        if derived_eq:
            for m in ("cmp", "partial_cmp"):
                if m not in hand:
                    continue
                hb = hand[m]
                coarse = []
                for b2 in [hb] + [prog.bodies[c] for c in prog.closures_of.get(hb.id, [])]:
                    for bi2, t in b2.calls():
                        nm = strip_generics(mir.callee_name(t) or "")
                        last = nm.split("::")[-1]
                        if re.search(r" as std::(cmp::(PartialEq|Eq|PartialOrd|Ord)|ops::Deref|convert::AsRef|borrow::Borrow|clone::Clone)>::", nm) or last in ("cmp", "partial_cmp", "eq", "ne", "deref", "as_ref", "then", "then_with", "map", "unwrap_or", "is_some", "is_none",
                                                                                                                                                                           "keys", "values", "iter", "into_iter", "len", "is_empty", "zip", "next"):
                            continue  # comparisons, plumbing, and the views of a collection that together are its whole content
                        if nm.startswith(("std::option::", "std::cmp::", "core::cmp::", "std::ops::function", "core::ops::function")):
                            continue
                        coarse.append(last)
                    for blk in b2.blocks:
                        for st in blk["stmts"]:
                            if st["k"] == "assign" and st["rv"]["k"] == "binop" and st["rv"]["op"].replace("WithOverflow", "") in ("Add", "Sub", "Mul", "Div", "Rem", "Shr", "Shl", "BitAnd"):
                                coarse.append(st["rv"]["op"])
                key = "%s:Q2d:%s:orders-the-fields-themselves" % (short, m)
                if coarse:
                    rep.bad("R-EQ", "R-EQ:" + key, where(m), "Q2: %s derives == (field equality) but %s orders by a computed projection (%s): it answers Equal for values that == tells apart" % (short, m, sorted(set(coarse))[:4]))
                else:
                    rep.ok("R-EQ", key, where(m), "Q2: %s compares the fields directly, like the derived ==" % m)
        # Q2c hand-written eq next to a hand-written / derived cmp on a single-field wrapper: eq must be plain field equality
        if "eq" in hand and "cmp" in ms:
            extra = [nm for k, nm, txt in ops["eq"] if k == "call" and nm.split("::")[-1] not in ("eq", "ne", "deref", "as_ref", "to_bits", "borrow", "clone")]
            cmp_ops = ops.get("cmp")
            cmp_extra = [nm for k, nm, txt in (cmp_ops or []) if k == "call" and nm.split("::")[-1] not in ("cmp", "partial_cmp", "deref", "as_ref", "borrow", "clone", "eq", "ne", "is_empty", "keys", "values")]
            key = "%s:Q2c:eq-is-field-equality" % short
            if extra and not cmp_extra:
                rep.bad("R-EQ", "R-EQ:" + key, where("eq"), "Q2: %s::eq also compares %s, which cmp does not look at: cmp says Equal for values that eq tells apart" % (short, sorted({x.split("::")[-1] for x in extra})))
            else:
                rep.ok("R-EQ", key, where("eq"), "Q2: eq compares the fields cmp orders by, nothing more")
        # Q4 derived partial_cmp next to a hand-written cmp: the derive is field-wise lexicographic, cmp must be too
        pc = ms.get("partial_cmp")
        if pc is not None and pc[1] and "cmp" in hand:
            key = "%s:Q4:derived-partial_cmp-vs-cmp" % short
            k2 = [x for x in order_key(ops["cmp"]) if x[1] != "eq"]
            want = [(f, "cmp") for f in ftypes]
            if k2 == want:
                rep.ok("R-EQ", key, where("cmp"), "Q4: cmp is the field-wise lexicographic order the derived partial_cmp uses")
            else:
                rep.bad("R-EQ", "R-EQ:" + key, where("cmp"), "Q4: PartialOrd is derived (field-wise: %s) but %s::cmp orders by %s: `<` and cmp can contradict each other" % (want, short, k2))
        # Q3 partial_cmp agrees with cmp
        if "partial_cmp" in hand and ("cmp" in hand or ms.get("cmp", (None, False))[1]):
            key = "%s:Q3:partial_cmp-vs-cmp" % short
            po = ops["partial_cmp"]
            delegates = False
            pb = hand["partial_cmp"]
            for _bi, t in pb.calls():
                nm = strip_generics(mir.callee_name(t) or "")
                if nm.endswith("as std::cmp::Ord>::cmp") and len(t["args"]) == 2:
                    a0, a1 = repr(G.describe(pb, t["args"][0])), repr(G.describe(pb, t["args"][1]))
                    if re.fullmatch(r"_1\**", a0) and re.fullmatch(r"_2\**", a1) and short in nm:
                        delegates = True
            if delegates:
                rep.ok("R-EQ", key, where("partial_cmp"), "Q3: partial_cmp = Some(self.cmp(other))")
            elif "cmp" in hand:
                k1 = [x for x in order_key(po)]
                k2 = [x for x in order_key(ops["cmp"])]
                # guards: fields only tested for equality in partial_cmp (returning None otherwise) are not part of the order
                g = {f for f, w in k1 if w == "eq"} - {f for f, w in k1 if w != "eq"}
                k1n = [(f, w) for f, w in k1 if f not in g and w != "eq"]
                k2n = [(f, w) for f, w in k2 if w not in ("eq",)]
                k2n = [x for i, x in enumerate(k2n) if i == 0 or k2n[i - 1] != x]
                k1n = [x for i, x in enumerate(k1n) if i == 0 or k1n[i - 1] != x]
                if k1n == k2n:
                    rep.ok("R-EQ", key, where("partial_cmp"), "Q3: same lexicographic key %s%s" % (k1n, (" (guard on %s)" % sorted(g)) if g else ""))
                else:
                    rep.bad("R-EQ", "R-EQ:" + key, where("partial_cmp"), "Q3: %s::partial_cmp orders by %s but cmp orders by %s: the partial order can contradict the total order" % (short, k1n, k2n))
            else:
                rep.ok("R-EQ", key, where("partial_cmp"), "Q3: Ord is derived over the same fields")
        # Q3b every comparison looks at one value per side: an operand computed from both self and other (a conversion of one
        # into the other's unit, a difference, ...) makes partial_cmp / eq / cmp observe something the sibling impls do not
        for m in ("eq", "cmp", "partial_cmp"):
            if m not in hand:
                continue
            hb = hand[m]
            mixed = []

            def is_mixed(b3, o):
                v = G.describe(b3, o)
                # the result of a comparison (an Ordering / bool that is then matched or chained) legitimately depends on both values
                w = v
                while w.kind in ("discr", "unop") and w.args:
                    w = w.args[0]
                if w.kind == "call" and (CMP_CALL.search(w.v) or w.v.endswith("::eq") or w.v.endswith("::ne") or w.v.endswith("Ordering::then") or w.v.endswith("Ordering::then_with")):
                    return None
                if w.kind == "binop" and w.v in ("Eq", "Ne", "Lt", "Le", "Gt", "Ge", "BitAnd", "BitOr"):
                    return None
                r = repr(v)
                return r[:90] if (re.search(r"\b_1\b", r) and re.search(r"\b_2\b", r)) else None
            bodies = [hb] + [prog.bodies[c] for c in prog.closures_of.get(hb.id, [])]
            ncmp = 0
            for b2 in bodies:
                if b2.rec["kind"] == "Closure":
                    continue
                for bi2 in b2.rpo():
                    blk = b2.blocks[bi2]
                    for st in blk["stmts"]:
                        if st["k"] == "assign" and st["rv"]["k"] == "binop" and st["rv"]["op"] in ("Eq", "Ne", "Lt", "Le", "Gt", "Ge"):
                            ncmp += 1
                            for o in (st["rv"]["a"], st["rv"]["b"]):
                                r = is_mixed(b2, o)
                                if r:
                                    mixed.append(r)
                    t = blk["term"]
                    if t["k"] == "call":
                        nm = strip_generics(mir.callee_name(t) or "?")
                        if CMP_CALL.search(nm) or nm.endswith("::eq") or nm.endswith("::ne"):
                            ncmp += 1
                            for o in t["args"]:
                                r = is_mixed(b2, o)
                                if r:
                                    mixed.append(r)
            key = "%s:Q3b:%s:one-value-per-side" % (short, m)
            if mixed:
                rep.bad("R-EQ", "R-EQ:" + key, where(m), "Q3: %s::%s compares %s, a quantity computed from both values: its answer is not a function of the fields the sibling impls compare" % (short, m, mixed[0]))
            elif ncmp:
                rep.ok("R-EQ", key, where(m), "Q3: each of the %d comparisons has one value per side" % ncmp)
        # Q3c eq / cmp / partial_cmp only observe: the crate functions they call are the comparison / hash / deref impls of the parts
        # and one-argument accessors; a call that computes a new quantity from parts of both values (a unit conversion, say) makes
        # this impl answer a different question than its siblings
        for m in ("eq", "cmp", "partial_cmp"):
            if m not in hand:
                continue
            hb = hand[m]
            odd = []
            for b2 in [hb] + [prog.bodies[c] for c in prog.closures_of.get(hb.id, [])]:
                for bi2, t in b2.calls():
                    nm = strip_generics(mir.callee_name(t) or "")
                    if not (nm.startswith("haystack::") or nm.startswith("<haystack::")):
                        continue
                    if re.search(r" as std::(cmp::(PartialEq|Eq|PartialOrd|Ord)|hash::Hash|ops::Deref|convert::AsRef|borrow::Borrow|clone::Clone)>::", nm):
                        continue
                    if len(t["args"]) <= 1:
                        continue
                    odd.append((b2, bi2, nm))
            key = "%s:Q3c:%s:observes-only" % (short, m)
            if odd:
                rep.bad("R-EQ", "R-EQ:" + key, odd[0][0].where(odd[0][1]), "Q3: %s::%s calls %s: it compares a computed quantity, not the fields the sibling impls compare, so it can contradict them" % (short, m, odd[0][2]))
            else:
                rep.ok("R-EQ", key, where(m), "Q3: only comparison / hash / deref impls and unary accessors are called")
        # Q6 a total order is not patched together from a partial one: inside a hand-written cmp, partial_cmp is only applied to
        # floats (None only for NaN, which the property excludes); on any other type None means 'incomparable', not Equal
        if "cmp" in hand:
            hb = hand["cmp"]
            badp = []
            for b2 in [hb] + [prog.bodies[c] for c in prog.closures_of.get(hb.id, [])]:
                for bi2, t in b2.calls():
                    c = callee_of(t)
                    nm = strip_generics((c.get("res") or c["fn"]) if c else "")
                    if nm.endswith("::partial_cmp"):
                        targs = [x for x in (c.get("targs", []) if c else []) if not x.startswith("'")]
                        if not (nm.startswith("core::cmp::impls::<impl std::cmp::PartialOrd for f64>") or nm.startswith("core::cmp::impls::<impl std::cmp::PartialOrd for f32>") or (targs and targs[0] in ("f64", "f32"))):
                            badp.append((b2, bi2, nm))
            key = "%s:Q6:cmp-not-from-partial_cmp" % short
            if badp:
                rep.bad("R-EQ", "R-EQ:" + key, badp[0][0].where(badp[0][1]), "Q6: %s::cmp is built on %s: where the partial order has no answer (Numbers of different units) the total order invents one, so cmp says Equal for values that are not equal" % (short, badp[0][2].split("<")[0] + "partial_cmp"))
            else:
                rep.ok("R-EQ", key, where("cmp"), "Q6: cmp does not go through a partial order of a non-float type")
        # Q4 hand-written partial_cmp without Ord (Unit): nothing to compare against
        for m in hand:
            rep.ok("R-EQ", "%s:footprint:%s" % (short, m), where(m), "reads %s via %d operations" % (sorted(fs[m]), len(ops[m])))
    q5(ctx, rep)
    return n_types, n_impls


def q5(ctx, rep):
    """Value::eq and Value::hash pair every variant with itself"""
    prog = ctx.prog
    VAL = "haystack::val::value::Value"
    adt = prog.adts.get(VAL)
    if not adt:
        rep.gap("Value", "-", "enum Value not found")
        return
    names = {int(v["discr"]): v["name"] for v in adt["variants"]}
    for m in ("eq", "hash"):
        body = None
        for b in prog.bodies.values():
            im = b.rec.get("impl") or {}
            if im.get("self_adt") == VAL and b.rec.get("name") == m and im.get("trait") in ("std::cmp::PartialEq", "std::hash::Hash") and not im.get("derived") and b.rec["kind"] != "Closure":
                body = b
        if body is None:
            rep.gap("Value::" + m, "-", "hand-written Value::%s not found" % m)
            continue
        # outer switch on discriminant(*self)
        sw = None
        for bi in body.rpo():
            t = body.term(bi)
            if t["k"] == "switch":
                v = G.describe(body, t["op"])
                if v.kind == "discr" and v.args and repr(v.args[0]) in ("_1*", "_1"):
                    sw = (bi, t)
                    break
        if sw is None:
            rep.gap("Value::%s:dispatch" % m, body.where(), "no switch on the discriminant of self")
            continue
        bi, t = sw
        seen = set()
        for val, tb in t["targets"]:
            vname = names.get(int(val), "?")
            seen.add(vname)
            # what does the arm do: first call or discr switch reachable before returning
            what = arm_summary(prog, body, tb, names)
            key = "Value::%s:arm:%s" % (m, vname)
            ok = False
            if m == "eq":
                ok = what.get("pred") == "is_" + vname.lower() or what.get("other_variant") == vname or (what.get("matches") == vname)
            else:
                ok = what.get("payload_of") == vname or what.get("marker") in (vname, "Value") or what.get("hashes") is True
            if ok:
                rep.ok("R-EQ", key, body.where(tb), "Q5: variant %s handled with %s" % (vname, what))
            else:
                rep.bad("R-EQ", "R-EQ:" + key, body.where(tb), "Q5: Value::%s arm for %s does not pair with the same variant: %s" % (m, vname, what))
        missing = set(names.values()) - seen
        if missing and m == "eq":
            # variants falling into `otherwise`
            rep.note("Value::%s handles %s through the default arm" % (m, sorted(missing)))


def arm_summary(prog, body, start, names):
    """inspect the blocks of one match arm (until a join): the predicate called on `other`, the variant `other` is matched
    against, or the payload / marker type that is hashed"""
    out = {}
    seen = {start}
    st = [start]
    steps = 0
    while st and steps < 40:
        b = st.pop()
        steps += 1
        blk = body.blocks[b]
        for s in blk["stmts"]:
            if s["k"] == "assign" and s["rv"]["k"] == "discr":
                r = repr(G.describe_place(body, s["rv"]["place"]))
                if r in ("_2*", "_2"):
                    out["_discr_local"] = s["lhs"]["l"]
        t = blk["term"]
        if t["k"] == "call":
            nm = strip_generics(mir.callee_name(t) or "")
            args = [repr(G.describe(body, a)) for a in t["args"]]
            m = re.match(r"^haystack::val::value::Value::(is_[a-z]+)$", nm)
            if m and args and args[0].startswith("_2"):
                out["pred"] = m.group(1)
            if nm.endswith("::hash") or nm.endswith("as std::hash::Hash>::hash"):
                a0 = args[0] if args else ""
                mm = re.search(r"_1\* as ([A-Za-z]+)\.0", a0)
                if mm:
                    out["payload_of"] = mm.group(1)
                else:
                    c = callee_of(t)
                    full = c.get("res_full") or c.get("fn_full") or ""
                    mk = re.search(r"haystack::val::(?:marker|remove|na)::([A-Za-z]+)", full)
                    if mk:
                        out["marker"] = mk.group(1)
                    elif "TypeId" in full or "TypeId" in a0:
                        out["marker"] = "Value"
                    else:
                        out["hashes"] = True
            if nm.endswith("::eq") and args:
                mm = re.search(r"_1\* as ([A-Za-z]+)\.0", " ".join(args))
                m2 = re.search(r"_2\* as ([A-Za-z]+)\.0", " ".join(args))
                if mm and m2:
                    out["matches"] = m2.group(1) if m2.group(1) == mm.group(1) else "%s-vs-%s" % (mm.group(1), m2.group(1))
        if t["k"] == "switch":
            pl = op_place(t["op"])
            if pl is not None and pl["l"] == out.get("_discr_local"):
                vs = [names.get(int(v), "?") for v, _ in t["targets"]]
                if len(vs) == 1:
                    out["other_variant"] = vs[0]
        if t["k"] == "return":
            continue
        for n in body.succ(b):
            if n not in seen and len(body.pred(n)) <= 1:
                seen.add(n)
                st.append(n)
    out.pop("_discr_local", None)
    return out
