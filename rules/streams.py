"""C11: chunk invisibility (only read_exact of one byte touches the reader) and iterator == eager grid decoding."""
import re

from rules import guards as G
from vlib import mir
from vlib.mir import callee_of, strip_generics

D = "haystack::encoding::zinc::decode::"


def check_reader_calls(ctx, rep):
    prog = ctx.prog
    n = 0
    allowed_fns = (D + "scanner::Scanner::make", D + "scanner::Scanner::read_byte")
    for b in prog.bodies.values():
        if not (b.file.startswith("src/haystack/encoding/zinc/decode/") or b.file.startswith("src/haystack/filter/")):
            continue
        seen = {}
        for bi, t in b.calls():
            c = callee_of(t)
            if c is None:
                continue
            fn = strip_generics(c["fn"])
            if not (fn.startswith("std::io::Read::") or fn.startswith("std::io::BufRead::") or fn.startswith("std::io::Seek::")):
                continue
            n += 1
            meth = fn.split("::")[-1]
            i = seen.get(meth, 0)
            seen[meth] = i + 1
            key = "reader-call:%s:%s#%d" % (b.short, meth, i)
            if meth != "read_exact":
                rep.bad("R-WHOCALLS", "R-WHOCALLS:reader-call:%s:%s" % (b.short, meth), b.where(bi), "%s calls %s on the input reader: short reads / chunk boundaries become visible to the decoder (only read_exact of one byte is chunk-independent)" % (b.short.split("::")[-1], fn))
                continue
            if b.short not in allowed_fns:
                rep.bad("R-WHOCALLS", "R-WHOCALLS:reader-call:%s:read_exact" % b.short, b.where(bi), "read_exact is called outside Scanner::make / Scanner::read_byte")
                continue
            # the reader must be the caller's own (the generic parameter, possibly behind references): an adaptor such as BufReader
            # pulls input ahead of the token being decoded, so a row would be handed out only after bytes far behind it were consumed
            targs = [x for x in c.get("targs", []) if not x.startswith("'")]
            self_ty = re.sub(r"^(&(mut )?)+", "", targs[0]) if targs else "?"
            if not re.fullmatch(r"[A-Z][A-Za-z0-9]*", self_ty):
                rep.bad("R-WHOCALLS", "R-WHOCALLS:reader-call:%s:reader-type" % b.short, b.where(bi), "read_exact is called on %s, not on the caller's reader itself: a wrapper between the decoder and the input (buffering, limiting, chaining) changes how far the stream is consumed per token" % targs[:1])
                continue
            # the buffer must be a [u8; 1]
            v = t["args"][1]
            pl = mir.op_place(v)
            ty = ""
            rp = b.root_place(pl) if pl else None
            if rp is not None:
                ty = b.local_ty(rp["l"])
            if re.sub(r"^&(mut )?", "", ty) == "[u8; 1]":
                rep.ok("R-WHOCALLS", key, b.where(bi), "read_exact into a [u8; 1]: std retries Interrupted and loops over short reads, so everything above sees a byte stream")
            else:
                rep.bad("R-WHOCALLS", "R-WHOCALLS:reader-call:%s:buffer" % b.short, b.where(bi), "read_exact buffer has type %s, not [u8; 1]: a partially filled buffer is lost when the reader fails mid-way" % ty)
    return n


def check_iterator_is_eager(ctx, rep):
    """parse_grid decodes rows only through parse_grid_iterator + RowIterator::next; parse_row has no other caller"""
    prog = ctx.prog
    n = 0
    pg = prog.get(D + "complex::grid::parse_grid")
    pr = prog.get(D + "complex::grid::RowParser::parse_row")
    nx = next((b for b in prog.bodies.values() if b.short == "<" + D + "complex::grid::RowIterator as std::iter::Iterator>::next"), None)
    if pg is None or pr is None or nx is None:
        rep.gap("grid decoding functions", "-", "parse_grid=%s parse_row=%s RowIterator::next=%s" % (bool(pg), bool(pr), bool(nx)))
        return 0
    callers = sorted({b.short for b in prog.bodies.values() for bi, t in b.calls() if mir.callee_name(t) == pr.id})
    n += 1
    if callers == [nx.short]:
        rep.ok("R-WHOCALLS", "parse_row:only-caller-is-RowIterator::next", pr.where(), "rows are parsed in exactly one place")
    else:
        rep.bad("R-WHOCALLS", "R-WHOCALLS:parse_row:only-caller-is-RowIterator::next", pr.where(), "parse_row is also called from %s: the eager and the lazy path can diverge" % [c for c in callers if c != nx.short])
    calls = [strip_generics(mir.callee_name(t) or "") for _, t in pg.calls()]
    n += 1
    if D + "complex::grid::parse_grid_iterator" in calls and not any(c.endswith("parse_row") or c.endswith("parse_grid_content") for c in calls):
        rep.ok("R-WHOCALLS", "parse_grid:built-on-the-iterator", pg.where(), "parse_grid = parse_grid_iterator + collect")
    else:
        rep.bad("R-WHOCALLS", "R-WHOCALLS:parse_grid:built-on-the-iterator", pg.where(), "parse_grid no longer goes through parse_grid_iterator (calls %s)" % [c.split("::")[-1] for c in calls][:8])
    # the collected rows are the iterator's rows, unfiltered and in order
    n += 1
    chain = None
    for bi, t in pg.calls():
        nm = strip_generics(mir.callee_name(t) or "")
        if nm == "std::iter::Iterator::collect":
            chain = repr(G.describe(pg, t["args"][0]))
    if chain is not None and not re.search(r"::(filter|rev|skip|take|step_by|filter_map|skip_while|take_while)\(", chain):
        rep.ok("R-WHOCALLS", "parse_grid:collects-every-row-in-order", pg.where(), "collect() directly over the RowIterator (no filtering / reordering adaptor)")
    else:
        rep.bad("R-WHOCALLS", "R-WHOCALLS:parse_grid:collects-every-row-in-order", pg.where(), "rows are collected through %s" % chain)
    return n
