"""C11: chunk invisibility (only read_exact of one byte touches the reader) and iterator == eager grid decoding."""
import re

from rules import guards as G
from vlib import mir
from vlib.mir import callee_of, strip_generics

D = "haystack::encoding::zinc::decode::"


def check_reader_calls(ctx, rep):
    prog = ctx.prog
    n = 0
    allowed_fns = (D + "scanner::Scanner::make", D + "scanner::Scanner::read_byte")
    for b in prog.bodies.values():
        if not (b.file.startswith("src/haystack/encoding/zinc/decode/") or b.file.startswith("src/haystack/filter/")):
            continue
        seen = {}
        for bi, t in b.calls():
            c = callee_of(t)
            if c is None:
                continue
            fn = strip_generics(c["fn"])
            if not (fn.startswith("std::io::Read::") or fn.startswith("std::io::BufRead::") or fn.startswith("std::io::Seek::")):
                continue
            n += 1
            meth = fn.split("::")[-1]
            i = seen.get(meth, 0)
            seen[meth] = i + 1
            key = "reader-call:%s:%s#%d" % (b.short, meth, i)
            if meth != "read_exact":
                rep.bad("R-WHOCALLS", "R-WHOCALLS:reader-call:%s:%s" % (b.short, meth), b.where(bi), "%s calls %s on the input reader: short reads / chunk boundaries become visible to the decoder (only read_exact of one byte is chunk-independent)" % (b.short.split("::")[-1], fn))
                continue
            if b.short not in allowed_fns:
                rep.bad("R-WHOCALLS", "R-WHOCALLS:reader-call:%s:read_exact" % b.short, b.where(bi), "read_exact is called outside Scanner::make / Scanner::read_byte")
                continue
            # the reader must be the caller's own (the generic parameter, possibly behind references): an adaptor such as BufReader
            # pulls input ahead of the token being decoded, so a row would be handed out only after bytes far behind it were consumed
            targs = [x for x in c.get("targs", []) if not x.startswith("'")]
            self_ty = re.sub(r"^(&(mut )?)+", "", targs[0]) if targs else "?"
            if not re.fullmatch(r"[A-Z][A-Za-z0-9]*", self_ty):
                rep.bad("R-WHOCALLS", "R-WHOCALLS:reader-call:%s:reader-type" % b.short, b.where(bi), "read_exact is called on %s, not on the caller's reader itself: a wrapper between the decoder and the input (buffering, limiting, chaining) changes how far the stream is consumed per token" % targs[:1])
                continue
            # the buffer must be a [u8; 1]
            v = t["args"][1]
            pl = mir.op_place(v)
            ty = ""
            rp = b.root_place(pl) if pl else None
            if rp is not None:
                ty = b.local_ty(rp["l"])
            if re.sub(r"^&(mut )?", "", ty) == "[u8; 1]":
                rep.ok("R-WHOCALLS", key, b.where(bi), "read_exact into a [u8; 1]: std retries Interrupted and loops over short reads, so everything above sees a byte stream")
            else:
                rep.bad("R-WHOCALLS", "R-WHOCALLS:reader-call:%s:buffer" % b.short, b.where(bi), "read_exact buffer has type %s, not [u8; 1]: a partially filled buffer is lost when the reader fails mid-way" % ty)
    return n


def check_iterator_is_eager(ctx, rep):
    """parse_grid decodes rows only through parse_grid_iterator + RowIterator::next; parse_row has no other caller"""
    prog = ctx.prog
    n = 0
    pg = prog.get(D + "complex::grid::parse_grid")
    pr = prog.get(D + "complex::grid::RowParser::parse_row")
    nx = next((b for b in prog.bodies.values() if b.short == "<" + D + "complex::grid::RowIterator as std::iter::Iterator>::next"), None)
    if pg is None or pr is None or nx is None:
        rep.gap("grid decoding functions", "-", "parse_grid=%s parse_row=%s RowIterator::next=%s" % (bool(pg), bool(pr), bool(nx)))
        return 0
    callers = sorted({b.short for b in prog.bodies.values() for bi, t in b.calls() if mir.callee_name(t) == pr.id})
    n += 1
    if callers == [nx.short]:
        rep.ok("R-WHOCALLS", "parse_row:only-caller-is-RowIterator::next", pr.where(), "rows are parsed in exactly one place")
    else:
        rep.bad("R-WHOCALLS", "R-WHOCALLS:parse_row:only-caller-is-RowIterator::next", pr.where(), "parse_row is also called from %s: the eager and the lazy path can diverge" % [c for c in callers if c != nx.short])
    calls = [strip_generics(mir.callee_name(t) or "") for _, t in pg.calls()]
    n += 1
    if D + "complex::grid::parse_grid_iterator" in calls and not any(c.endswith("parse_row") or c.endswith("parse_grid_content") for c in calls):
        rep.ok("R-WHOCALLS", "parse_grid:built-on-the-iterator", pg.where(), "parse_grid = parse_grid_iterator + collect")
    else:
        rep.bad("R-WHOCALLS", "R-WHOCALLS:parse_grid:built-on-the-iterator", pg.where(), "parse_grid no longer goes through parse_grid_iterator (calls %s)" % [c.split("::")[-1] for c in calls][:8])
    # the collected rows are the iterator's rows, unfiltered and in order
    n += 1
    chain = None
    for bi, t in pg.calls():
        nm = strip_generics(mir.callee_name(t) or "")
        if nm == "std::iter::Iterator::collect":
            chain = repr(G.describe(pg, t["args"][0]))
    if chain is not None and not re.search(r"::(filter|rev|skip|take|step_by|filter_map|skip_while|take_while)\(", chain):
        rep.ok("R-WHOCALLS", "parse_grid:collects-every-row-in-order", pg.where(), "collect() directly over the RowIterator (no filtering / reordering adaptor)")
    else:
        rep.bad("R-WHOCALLS", "R-WHOCALLS:parse_grid:collects-every-row-in-order", pg.where(), "rows are collected through %s" % chain)
    return n


def check_iterator_fused_on_error(ctx, rep):
    """draining the lazy row iterator terminates: an iterator that has yielded an error yields nothing more. After a lexer /
    parser error the position in the input does not advance, so without this the same error comes out of every further `next()`
    and `for row in rows` over a five-line text never ends. Structural form: (a) `next()` starts by testing a bool field of the
    iterator and returns None, without touching the parser, when it is set; (b) from every block that builds a `Some(<Result>)`
    that may be an `Err`, every way to the return passes the assignment of `true` to that field - edges that establish `Ok` (or
    `None`) excepted"""
    prog = ctx.prog
    nx = next((b for b in prog.bodies.values() if b.short == "<" + D + "complex::grid::RowIterator as std::iter::Iterator>::next"), None)
    if nx is None:
        rep.gap("RowIterator::next", "-", "not found")
        return 0
    key = "row-iterator:fused-on-error"
    # the flag: a bool field of *_1 assigned the constant true somewhere in next()
    setters = {}
    for bi in range(nx.n):
        for st in nx.blocks[bi]["stmts"]:
            if st["k"] == "assign" and st["lhs"]["l"] == 1 and len(st["lhs"]["p"]) == 2 and st["lhs"]["p"][0] == "*" and isinstance(st["lhs"]["p"][1], dict) and st["lhs"]["p"][1].get("ty") == "bool":
                c = mir.op_const(st["rv"]["op"]) if st["rv"]["k"] == "use" else None
                if c is not None and c.get("bool") is True:
                    setters.setdefault(st["lhs"]["p"][1]["n"], set()).add(bi)
    if not setters:
        rep.bad("T-FUSE", "T-FUSE:" + key, nx.where(), "RowIterator::next never records that it has yielded an error: after an error the input position does not advance, so every further next() yields the same error and draining the iterator does not terminate")
        return 1
    parser_calls = [bi for bi, t in nx.calls() if "RowParser" in strip_generics(mir.callee_name(t) or "")]
    ok_flag = None
    why = "no entry test of the flag"
    for fld, sblocks in setters.items():
        # (a) entry guard: a switch on _1*.fld whose 'set' edge reaches the return without passing a parser call
        guard = None
        for bi in nx.rpo():
            t = nx.term(bi)
            if t["k"] == "switch" and repr(G.describe(nx, t["op"])) == "_1*.%s" % fld:
                vals = {int(v): tb for v, tb in t["targets"]}
                set_edge = t["otherwise"] if 0 in vals else vals.get(1)
                guard = (bi, set_edge)
                break
        if guard is None:
            continue
        gb, set_edge = guard
        # no parser call before the guard, none on the 'set' side
        idom_ok = all(_dominates(nx, gb, pc) for pc in parser_calls)
        seen, todo, touches = set(), [set_edge], False
        while todo:
            x = todo.pop()
            if x in seen or nx.blocks[x].get("cleanup"):
                continue
            seen.add(x)
            if x in parser_calls:
                touches = True
            todo.extend(nx.succ(x))
        if not idom_ok or touches:
            why = "the flag .%s is tested, but the parser is still asked when it is set" % fld
            continue
        # (b) every possibly-Err Some reaches the return only through the setter
        leak = None
        for bi in range(nx.n):
            for st in nx.blocks[bi]["stmts"]:
                if st["k"] == "assign" and st["rv"]["k"] == "agg" and st["rv"].get("variant") == "Some" and "Result<" in str(st["rv"].get("ty", "")):
                    pay = mir.op_place(st["rv"]["ops"][0]) if st["rv"]["ops"] else None
                    # a payload built as Ok(..) in place cannot be an Err
                    if pay is not None and not pay["p"]:
                        sd = nx.single_def(pay["l"])
                        if sd and sd[1] != "term" and sd[2]["k"] == "agg" and sd[2].get("variant") == "Ok":
                            continue
                    seen2, todo2 = set(), [bi]
                    while todo2 and leak is None:
                        x = todo2.pop()
                        if x in seen2 or x in sblocks or nx.blocks[x].get("cleanup"):
                            continue
                        seen2.add(x)
                        t = nx.term(x)
                        if t["k"] == "return":
                            leak = bi
                            break
                        if t["k"] == "switch":
                            d = G.describe(nx, t["op"])
                            rd = repr(d)
                            vals = {int(v): tb for v, tb in t["targets"]}
                            if d.kind == "discr" and "Some.0" in rd:
                                # discriminant of the payload: the Ok edge establishes that nothing failed
                                nxt = [tb for v, tb in vals.items() if v != 0] + ([t["otherwise"]] if 0 in vals else [])
                                # when only Err(1) is listed, `otherwise` is the Ok edge
                                if 0 not in vals:
                                    nxt = [tb for v, tb in vals.items() if v == 1]
                                todo2.extend(nxt)
                                continue
                            sdd = nx.single_def(mir.op_place(t["op"])["l"]) if mir.op_place(t["op"]) is not None and not mir.op_place(t["op"])["p"] else None
                            if sdd and sdd[1] != "term" and sdd[2]["k"] == "discr" and not sdd[2]["place"]["p"] and sdd[2]["place"]["l"] == st["lhs"]["l"] and str(sdd[2].get("adt", "")).endswith("option::Option"):
                                # discriminant of the item itself, which was just built as Some: the None edge is not taken
                                todo2.extend([tb for v, tb in vals.items() if v == 1] if 1 in vals else [t["otherwise"]])
                                continue
                        todo2.extend(nx.succ(x))
        if leak is not None:
            why = "a row result that may be an error (built at %s) reaches the return without the flag .%s being set" % (nx.where(leak), fld)
            continue
        ok_flag = fld
        break
    if ok_flag:
        rep.ok("T-FUSE", key, nx.where(), "next() returns None once .%s is set, and sets it on every path that yields an Err" % ok_flag)
    else:
        rep.bad("T-FUSE", "T-FUSE:" + key, nx.where(), "RowIterator is not fused after an error (%s): draining it over a text with a bad row does not terminate" % why)
    return 1


def _dominates(body, a, b):
    idom = body.idom()
    x = b
    while True:
        if x == a:
            return True
        p = idom.get(x) if isinstance(idom, dict) else idom[x]
        if p is None or p == x:
            return False
        x = p
