"""C13: the composition skeleton of the def namespace queries.

The property describes each query as a set built from other sets (fits = base in inheritance(def); inheritance = def + all
supertypes; all supertypes = closure of `is`; reflect = tag defs + conjuncts + their supertypes). What is decided here is that
the code composes exactly those parts, with the arguments in those positions and the closure loops complete - a necessary
condition. The *contents* of the sets for an arbitrary defs grid are runtime values and are not decided."""
import re

from rules import guards as G
from vlib import mir
from vlib.dataflow import must_pass
from vlib.mir import strip_generics

NS = "haystack::defs::namespace::Namespace::"


def _family(prog, b):
    return [b] + [prog.bodies[c] for c in prog.closures_of.get(b.id, [])]


OPTION_PAYLOAD = ("Option::is_some_and", "Option::map", "Option::and_then", "Option::map_or", "Option::map_or_else", "Option::filter", "Option::is_none_or", "Option::inspect",
                  "Result::map", "Result::and_then", "Result::is_ok_and")
ITER_ELEMENT = ("::filter_map", "::filter", "::map", "::any", "::all", "::for_each", "::find", "::try_for_each", "::find_map", "::flat_map", "::position", "::take_while", "::skip_while", "::inspect")


def _closure_env(prog, parent, penv):
    """{closure id: {"caps": [repr of captured operand, in the parent's terms], "param": repr the closure's first parameter stands for}}"""
    out = {}
    for bi in range(parent.n):
        for st in parent.blocks[bi]["stmts"]:
            if st["k"] == "assign" and st["rv"]["k"] == "agg" and st["rv"].get("ak") == "closure":
                cid = st["rv"].get("closure")
                caps = [_norm(repr(G.describe(parent, o)), penv) for o in st["rv"]["ops"]]
                out[cid] = {"caps": caps, "param": None, "local": st["lhs"]["l"]}
    # what the closure's parameter is: payload of an Option receiver, or an element of an iterator receiver
    for bi, t in parent.calls():
        nm = strip_generics(mir.callee_name(t) or "")
        for a in t["args"][1:]:
            d = G.describe(parent, a)
            if d.kind == "agg" and d.v == "closure":
                # find which closure: by the defining local of the operand
                pl = mir.op_place(a)
                for cid, e in out.items():
                    if pl is not None and pl["l"] == e["local"] and not pl["p"]:
                        recv = _norm(repr(G.describe(parent, t["args"][0])), penv)
                        if nm.endswith(OPTION_PAYLOAD):
                            e["param"] = recv + " as Some.0"
                        elif nm.endswith(ITER_ELEMENT):
                            e["param"] = "elem(" + recv + ")"
    return out


def _norm(r, env):
    """rewrite a repr of a closure body into its parent's terms: captured variables and the parameter"""
    if not env:
        return r
    caps = env["caps"]

    def cap(m):
        k = int(m.group(1))
        return caps[k] if k < len(caps) else m.group(0)

    if env.get("param"):
        r = re.sub(r"(?<![\w.])_2(?![\w])\**", "\x00P\x00", r)
    r = re.sub(r"_1\*?\.(\d+)\**", cap, r)
    if env.get("param"):
        r = r.replace("\x00P\x00", env["param"])
    return r


def _calls(prog, b, with_closures=True):
    """[(body, block, callee, [arg reprs])] over the body and (recursively) its closures, with the closures' operands rewritten
    into the terms of the enclosing function (captured variables by what was captured, the parameter by what it stands for)"""
    out = []

    def visit(x, env):
        for bi, t in x.calls():
            out.append((x, bi, strip_generics(mir.callee_name(t) or ""), [_norm(repr(G.describe(x, a)), env) for a in t["args"]]))
        if not with_closures:
            return
        cenv = _closure_env(prog, x, env)
        for c in prog.closures_of.get(b.id, []):
            if (prog.bodies[c].rec.get("parent") or b.id) != x.id:
                continue
            visit(prog.bodies[c], cenv.get(c) or cenv.get(prog.bodies[c].rec.get("alias_of")) or {"caps": [], "param": None})

    visit(b, None)
    return out


def _find(calls, suffix):
    return [c for c in calls if c[2].endswith(suffix)]


def _ok(rep, key, where, msg):
    rep.ok("T-DEFS", key, where, msg)


def _bad(rep, key, where, msg):
    rep.bad("T-DEFS", "T-DEFS:" + key, where, msg)


def check_fits(ctx, rep):
    prog = ctx.prog
    n = 0
    b = prog.get(NS + "fits")
    if b is None:
        rep.gap("Namespace::fits", "-", "not found")
        return 0
    cs = _calls(prog, b)
    n += 1
    get = _find(cs, "Namespace::get") + _find(cs, "Namespace::get_by_name")
    inh = _find(cs, "Namespace::inheritance")
    con = [c for c in cs if c[2].endswith("::contains") or c[2].endswith("Iterator::any") or c[2].endswith("::any")]
    payload_ok = len(con) == 1 and (re.search(r"as Some\.0$", con[0][3][1] or "") is not None) and ("Namespace::get(_1*, _3*)" in con[0][3][1] or re.fullmatch(r"_\d+ as Some\.0", con[0][3][1] or "") is not None)
    good = (len(get) == 1 and get[0][3] == ["_1*", "_3*"] and len(inh) == 1 and inh[0][3] == ["_1*", "_2*"] and len(con) == 1
            and "Namespace::inheritance(_1*, _2*)" in con[0][3][0] and payload_ok)
    if good:
        _ok(rep, "fits:base-in-inheritance-of-def", b.where(), "fits(def, base) = inheritance(def).contains(get(base)), false when base is undefined")
    else:
        _bad(rep, "fits:base-in-inheritance-of-def", b.where(), "fits is not `inheritance(def).contains(get(base_def))` with def / base_def in those positions (get%s inheritance%s contains%s): the subtype test runs the wrong way round or against the wrong set" % ([c[3] for c in get], [c[3] for c in inh], [c[3][:1] for c in con]))
    # the only decision is whether base_def exists: no other branch in fits or its closures (is_some_and / if let are the same thing)
    n += 1
    sw = []
    for x in _family(prog, b):
        for bi in range(x.n):
            if x.term(bi)["k"] == "switch":
                sw.append((x, bi, repr(G.describe(x, x.term(bi)["op"]))))
    extra = [w for w in sw if "Namespace::get(_1*, _3*)" not in w[2]]
    if not extra and len(sw) <= 1:
        _ok(rep, "fits:single-branch", b.where(), "the only branch is on whether base_def exists")
    else:
        _bad(rep, "fits:single-branch", (extra[0][0].where(extra[0][1]) if extra else b.where()), "fits has %d branch(es) besides the existence test of base_def" % len(extra))
    for fn, sym in (("fits_marker", "marker"), ("fits_val", "val"), ("fits_choice", "choice"), ("fits_entity", "entity")):
        fb = prog.get(NS + fn)
        if fb is None:
            rep.gap(NS + fn, "-", "not found")
            continue
        n += 1
        ret = repr(G.describe_place(fb, {"l": 0, "p": []}))
        want = "haystack::defs::namespace::Namespace::fits(_1*, _2*, <haystack::val::symbol::Symbol as std::convert::From>::from(conststr:%s))" % sym
        if ret == want:
            _ok(rep, "%s:constant" % fn, fb.where(), "%s(def) = fits(def, ^%s)" % (fn, sym))
        else:
            _bad(rep, "%s:constant" % fn, fb.where(), "%s is %s, expected fits(def, ^%s)" % (fn, ret[-120:], sym))
    return n


def check_inheritance(ctx, rep):
    prog = ctx.prog
    b = prog.get(NS + "inheritance")
    if b is None:
        rep.gap("Namespace::inheritance", "-", "not found")
        return 0
    cs = _calls(prog, b)
    n = 1
    ins = [c for c in _find(cs, "HashSet::insert")]
    ext = [c for c in cs if c[2].endswith("Extend>::extend")]
    sup = _find(cs, "Namespace::all_supertypes_of")
    get = _find(cs, "Namespace::get")
    good = (len(get) >= 1 and all(c[3] == ["_1*", "_2*"] for c in get) and len(sup) == 1 and sup[0][3] == ["_1*", "_2*"]
            and len(ins) == 1 and re.search(r"as Some\.0$", ins[0][3][1]) and len(ext) == 1 and "Namespace::all_supertypes_of(_1*, _2*)" in ext[0][3][1]
            and ins[0][3][0] == ext[0][3][0])
    if good:
        _ok(rep, "inheritance:def-plus-all-supertypes", b.where(), "inheritance(s) = {get(s)} + all_supertypes_of(s), collected from one set")
    else:
        _bad(rep, "inheritance:def-plus-all-supertypes", b.where(), "inheritance is not the def itself plus all_supertypes_of the same symbol (insert%s extend%s all_supertypes_of%s)" % ([c[3] for c in ins], [c[3][1][-60:] for c in ext], [c[3] for c in sup]))
    # the def itself is put in unconditionally once it exists: the insert is dominated only by the existence test
    n += 1
    if ins:
        x, bi = ins[0][0], ins[0][1]
        gs = [g for g in G.guards_at(x, bi) if not (g.a is not None and "Try>::branch" in repr(g.a))]
        extra = [g for g in gs if not ("Namespace::get(_1*, _2*)" in repr(g.a) or "DashMap::get" in repr(g.a))]
        if not extra:
            _ok(rep, "inheritance:def-unconditional", x.where(bi), "the def is inserted whenever it exists (and the answer is not cached yet)")
        else:
            _bad(rep, "inheritance:def-unconditional", x.where(bi), "the def itself is only put into its inheritance under %s" % [repr(g)[:70] for g in extra][:2])
    return n


def _closure_pipeline(prog, b, direct):
    """the body extends its work list with `<popped defs>.filter(|d| visited.insert(d)).map(|d| self.<direct>(d.def_symbol()))`,
    optionally followed by `.filter(|x| !x.is_empty())` and `.map(clone)`: nothing else selects"""
    for bi, t in b.calls():
        nm = strip_generics(mir.callee_name(t) or "")
        if not nm.endswith("Extend>::extend") or len(t["args"]) < 2:
            continue
        chain = []
        cur = mir.op_place(t["args"][1])
        for _i in range(10):
            if cur is None or cur["p"]:
                break
            sd = b.single_def(cur["l"])
            if not sd:
                break
            if sd[1] != "term":
                if sd[2]["k"] == "use":
                    cur = mir.op_place(sd[2]["op"])
                    continue
                break
            tt = b.term(sd[0])
            an = strip_generics(mir.callee_name(tt) or "")
            last = an.split("::")[-1]
            if last in ("filter", "map", "filter_map", "take", "skip", "take_while", "skip_while", "step_by", "rev", "flat_map", "flatten", "chain"):
                cid = _closure_id_of(b, tt["args"][1]) if len(tt["args"]) > 1 else None
                clo = next((x for k, x in prog.bodies.items() if k == cid or x.rec.get("alias_of") == cid), None)
                chain.append((last, clo))
            elif last not in ("iter", "into_iter", "copied", "cloned", "by_ref"):
                break
            if not tt["args"]:
                break
            cur = mir.op_place(tt["args"][0])
        chain.reverse()  # innermost first
        if len(chain) < 2 or chain[0][0] != "filter" or chain[1][0] != "map":
            continue
        f0, m0 = chain[0][1], chain[1][1]
        if f0 is None or m0 is None:
            continue
        r0 = G.describe_place(f0, {"l": 0, "p": []})
        if not (r0.kind == "call" and strip_generics(r0.v).endswith("HashSet::insert")):
            continue
        r1 = G.describe_place(m0, {"l": 0, "p": []})
        if not (r1.kind == "call" and strip_generics(r1.v).endswith("Namespace::" + direct) and len(r1.args) == 2 and "DefDict::def_symbol(" in repr(r1.args[1]) and re.search(r"def_symbol\(_2\**\)", repr(r1.args[1]))):
            continue
        ok = True
        for kind, clo in chain[2:]:
            if kind == "map" and clo is not None:
                rr = G.describe_place(clo, {"l": 0, "p": []})
                if not (rr.kind == "call" and strip_generics(rr.v).endswith(("Clone>::clone", "ToOwned>::to_owned", "::to_vec"))):
                    ok = False
            elif kind == "filter" and clo is not None:
                rr = G.describe_place(clo, {"l": 0, "p": []})
                if not (rr.kind == "unop" and rr.v == "Not" and rr.args and "is_empty(" in repr(rr.args[0])):
                    ok = False
            else:
                ok = False
        if ok:
            return True
    return False


def _closure_loop(prog, rep, fn, direct):
    """work-list closure: seeded with direct(s); every def inserted for the first time has direct(def_symbol(def)) pushed;
    the result is the visited set"""
    b = prog.get(NS + fn)
    if b is None:
        rep.gap(NS + fn, "-", "not found")
        return 0
    n = 0
    cs = _calls(prog, b, with_closures=False)
    d = _find(cs, "Namespace::" + direct)
    n += 1
    seeds = [c for c in d if c[3] == ["_1*", "_2*"]]
    steps = [c for c in d if len(c[3]) == 2 and c[3][0] == "_1*" and "DefDict::def_symbol(" in c[3][1]]
    ins = _find(cs, "HashSet::insert")
    if len(seeds) == 1 and not steps and not ins and _closure_pipeline(prog, b, direct):
        # `stack.extend(popped.iter().filter(|d| visited.insert(*d)).map(|d| direct(d.def_symbol())) ..)`: the adaptor chain runs the
        # step for exactly the newly inserted defs and pushes every result (an emptiness filter aside) - step and completeness at once
        _ok(rep, "%s:closure-step" % fn, b.where(), "seeded with %s(s); each newly visited def is expanded by %s(def) (adaptor chain)" % (direct, direct))
        n += 1
        _ok(rep, "%s:closure-complete" % fn, b.where(), "the chain extends the work list with the %s of every newly visited def (skipped only when that list is empty)" % direct)
        n += 1
        ret = repr(G.describe_place(b, {"l": 0, "p": []}))
        if "HashSet" in ret and "Iterator::collect(" in ret:
            _ok(rep, "%s:result-is-visited-set" % fn, b.where(), "the result is collected from the visited set")
        else:
            _bad(rep, "%s:result-is-visited-set" % fn, b.where(), "the result (%s) is not the visited set" % ret[:80])
        return n
    if len(seeds) == 1 and len(steps) == 1 and len(ins) == 1:
        inserted = ins[0][3][1]
        stepped = re.search(r"def_symbol\((.*)\)$", steps[0][3][1]).group(1)
        if inserted == stepped:
            _ok(rep, "%s:closure-step" % fn, b.where(steps[0][1]), "seeded with %s(s); each visited def is expanded by %s(def)" % (direct, direct))
        else:
            _bad(rep, "%s:closure-step" % fn, b.where(steps[0][1]), "the def that is expanded (%s) is not the def that was just visited (%s)" % (stepped, inserted))
    else:
        _bad(rep, "%s:closure-step" % fn, b.where(), "expected one seed %s(s), one step %s(def_symbol(def)) and one visited-set insert (found %d / %d / %d)" % (direct, direct, len(seeds), len(steps), len(ins)))
        return n
    # completeness: from the 'newly inserted' edge, the loop header is reached only through the push of the step's result
    n += 1
    ib = ins[0][1]
    new_edge = None
    for sb in b.rpo():
        t = b.term(sb)
        if t["k"] == "switch":
            dv = G.describe(b, t["op"])
            r = repr(dv)
            if "HashSet::insert(" in r and sb in b.reachable(ib):
                vals = {int(v): tb for v, tb in t["targets"]}
                neg = dv.kind == "unop" and dv.v == "Not"
                true_edge = t["otherwise"] if 0 in vals else vals.get(1)
                false_edge = vals.get(0)
                new_edge = false_edge if neg else true_edge
                break
    pushes = [c[1] for c in _find(cs, "Vec::push")]
    step_b = steps[0][1]
    if new_edge is None:
        rep.gap("%s: insert result" % fn, b.where(ib), "branch on the result of the visited-set insert not found")
        return n
    # loop header = the iterator next() of the innermost loop containing the insert
    header = None
    for scc in b.sccs():
        if ib in scc:
            nx = [x for x in scc if b.term(x)["k"] == "call" and strip_generics(mir.callee_name(b.term(x)) or "").endswith("Iterator>::next")]
            if nx:
                header = min(nx, key=lambda h: len(G.blocks_between(b, h, ib)))
    if header is None:
        rep.gap("%s: loop header" % fn, b.where(ib), "iterator loop around the insert not found")
        return n
    okp, path = must_pass(b, [new_edge], header, [step_b]) if new_edge != step_b else (True, None)
    # after the step, reaching the header without a push is allowed only on the `is_empty` edge of the step's own result
    okq = True
    if okp:
        empt = set()
        for sb in b.reachable(step_b):
            t = b.term(sb)
            if t["k"] == "switch":
                r = repr(G.describe(b, t["op"]))
                if "is_empty(" in r and ("Namespace::%s(" % direct) in r:
                    vals = {int(v): tb for v, tb in t["targets"]}
                    neg = r.startswith("unop:Not")
                    te = t["otherwise"] if 0 in vals else vals.get(1)
                    fe = vals.get(0)
                    empt.add((sb, fe if neg else te))
        okq, path = must_pass(b, [step_b], header, pushes, avoid_edges=empt)
    if okp and okq:
        _ok(rep, "%s:closure-complete" % fn, b.where(step_b), "every newly visited def has its %s pushed on the work list (skipped only when that list is empty)" % direct)
    else:
        _bad(rep, "%s:closure-complete" % fn, b.where(step_b), "a newly visited def can return to the loop without its %s being pushed: the transitive closure stops early" % direct)
    # the result is the visited set
    n += 1
    ret = repr(G.describe_place(b, {"l": 0, "p": []}))
    if "Iterator::collect(" in ret and "HashSet" in ret and ins[0][3][0] in ret:
        _ok(rep, "%s:returns-visited-set" % fn, b.where(), "the result is the visited set, collected")
    else:
        _bad(rep, "%s:returns-visited-set" % fn, b.where(), "the result (%s) is not the collected visited set" % ret[:100])
    return n


def check_closures(ctx, rep):
    prog = ctx.prog
    return _closure_loop(prog, rep, "all_supertypes_of", "supertypes_of") + _closure_loop(prog, rep, "all_subtypes_of", "subtypes_of")


def check_direct_edges(ctx, rep):
    """subtypes index = inverse of the `is` lists; supertypes_of = the `is` list's defined members"""
    prog = ctx.prog
    n = 0
    b = prog.get(NS + "compute_subtypes")
    if b is None:
        rep.gap(NS + "compute_subtypes", "-", "not found")
    else:
        n += 1
        cs = _calls(prog, b)
        gl = _find(cs, "HaystackDict>::get_list")
        en = _find(cs, "BTreeMap::entry")
        pu = _find(cs, "Vec::push")
        key_is_symbol = False
        if len(en) == 1:
            kr = en[0][3][1]
            if "as Symbol.0" in kr:
                key_is_symbol = True
            else:
                # the symbols come out of an iterator chain over the `is` list that keeps exactly the Symbol payloads
                m0 = re.search(r"_(\d+) as Some\.0", kr)
                src = repr(G.describe_place(b, {"l": int(m0.group(1)), "p": []})) if m0 else ""
                keeps_symbols = False
                for cb in _family(prog, b)[1:]:
                    for sb, v in [(x, y) for x, y in [(bb, G.describe(cb, st["rv"]["ops"][0])) for bb in range(cb.n) for st in cb.blocks[bb]["stmts"] if st["k"] == "assign" and not st["lhs"]["p"] and st["lhs"]["l"] == 0 and st["rv"]["k"] == "agg" and st["rv"].get("variant") == "Some" and st["rv"]["ops"]]]:
                        if "as Symbol.0" in repr(v):
                            keeps_symbols = True
                cuts = re.search(r"::(take|skip|step_by|take_while|skip_while|rev|nth)\(", src)
                if "Iterator>::next(" in src and "get_list(" in src and "conststr:is" in src and "filter_map" in src and keeps_symbols and not cuts:
                    key_is_symbol = True
        good = (len(gl) == 1 and gl[0][3][1] == "conststr:is" and len(en) == 1 and en[0][3][0] == "_1*.subtypes" and key_is_symbol
                and len(pu) == 1 and "or_default(" in pu[0][3][0] and "BTreeMap::entry(_1*.subtypes" in pu[0][3][0])
        if good:
            owner = re.search(r"get_list\(|^", gl[0][3][0]) and gl[0][3][0]
            pushed = re.search(r"Clone>::clone\((.*)\)$", pu[0][3][1])
            good = bool(pushed) and pushed.group(1) == owner
        if good:
            _ok(rep, "subtypes-index:inverse-of-is", b.where(), "for every Symbol s in d.is: subtypes[s].push(d)")
        else:
            _bad(rep, "subtypes-index:inverse-of-is", b.where(), "compute_subtypes does not push each def under every symbol of its own `is` list (get_list%s entry%s push%s)" % ([c[3] for c in gl], [c[3][1][-50:] for c in en], [c[3][1][-60:] for c in pu]))
        # no filtering other than 'is a Symbol'
        n += 1
        sw = []
        for bi in range(b.n):
            t = b.term(bi)
            if t["k"] == "switch":
                r = repr(G.describe(b, t["op"]))
                if not ("Iterator>::next" in r or "get_list" in r or r.startswith("discr:(_") or "Try>::branch" in r):
                    sw.append(r[:80])
        if not sw:
            _ok(rep, "subtypes-index:unfiltered", b.where(), "only loop control, the presence of `is` and the Symbol test branch")
        else:
            _bad(rep, "subtypes-index:unfiltered", b.where(), "compute_subtypes skips entries on a further condition: %s" % sw[:2])
    b = prog.get(NS + "supertypes_of")
    if b is None:
        rep.gap(NS + "supertypes_of", "-", "not found")
    else:
        n += 1
        cs = _calls(prog, b)
        gl = _find(cs, "HaystackDict>::get_list")
        get = _find(cs, "Namespace::get")
        own = [c for c in get if c[3] == ["_1*", "_2*"]]
        lookups = [c for c in get if c[3][0] == "_1*" and "as Symbol.0" in c[3][1]]
        owner_ok = len(gl) == 1 and gl[0][3][1] == "conststr:is" and (re.search(r"as Some\.0$", gl[0][3][0]) is not None) and ("Namespace::get(_1*, _2*)" in gl[0][3][0] or re.fullmatch(r"_\d+ as Some\.0", gl[0][3][0]) is not None)
        pu = [c for c in _find(cs, "Vec::push") if re.search(r"as Some\.0$", c[3][1])]
        names = [c[2] for c in cs]
        collected = any(nm.endswith("::filter_map") for nm in names) and any(nm.endswith("::collect") for nm in names)
        cut = [nm.split("::")[-1] for nm in names if re.search(r"::(take|take_while|skip|skip_while|step_by|nth|filter|find|rev|dedup)$", nm)]
        good = owner_ok and len(own) >= 1 and len(lookups) == 1 and (len(pu) == 1 or collected) and not cut
        if good:
            _ok(rep, "supertypes_of:defined-members-of-is", b.where(), "supertypes_of(s) = [get(x) for Symbol x in get(s).is if defined]")
        else:
            _bad(rep, "supertypes_of:defined-members-of-is", b.where(), "supertypes_of does not collect get(x) for every symbol x of the def's own `is` list (is-list of the def itself: %s, lookups of its symbols: %d, collected: %s, cutting adaptors: %s)" % (owner_ok, len(lookups), bool(pu) or collected, cut))
    return n


def _closure_id_of(body, op):
    pl = mir.op_place(op)
    if pl is None or pl["p"]:
        return None
    for _bi, si, rv in body.defs().get(pl["l"], []):
        if si != "term" and rv["k"] == "agg" and rv.get("ak") == "closure":
            return rv.get("closure")
    return None


def upstream_filters(prog, closure_body):
    """closure bodies of the `filter` adaptors that stand upstream of the adaptor `closure_body` is handed to, in the same iterator
    chain: what such a closure returns is a condition under which `closure_body` runs at all (`.filter(p).filter_map(f)` runs f
    only on elements with p)"""
    out = []
    cid = closure_body.rec.get("alias_of", closure_body.id)
    parent = prog.bodies.get(closure_body.rec.get("parent") or closure_body.rec.get("root"))
    if parent is None:
        return out
    for bi, t in parent.calls():
        if not any(_closure_id_of(parent, a) in (cid, closure_body.id) for a in t.get("args", [])[1:]):
            continue
        cur = mir.op_place(t["args"][0])
        for _i in range(12):
            if cur is None or cur["p"]:
                break
            sd = parent.single_def(cur["l"])
            if not sd or sd[1] != "term":
                if sd and sd[2]["k"] == "use":
                    cur = mir.op_place(sd[2]["op"])
                    continue
                break
            tt = parent.term(sd[0])
            nm = strip_generics(mir.callee_name(tt) or "")
            if nm.endswith("Iterator::filter") and len(tt["args"]) > 1:
                fid = _closure_id_of(parent, tt["args"][1])
                for k, fb in prog.bodies.items():
                    if k == fid or fb.rec.get("alias_of") == fid:
                        out.append(fb)
                        break
            if not tt["args"]:
                break
            cur = mir.op_place(tt["args"][0])
    return out


_SELECTING = ("Iterator::filter(", "Iterator::filter_map(", "Iterator::skip(", "Iterator::take(", "Iterator::skip_while(", "Iterator::take_while(",
              "Iterator::step_by(", "Iterator::nth(", "Iterator::find(", "Iterator::last(", "Option::filter(")


def _selects(txt):
    """the described value passes through an adaptor that can leave elements out"""
    return any(x in txt for x in _SELECTING)


def _flat_map_union(prog, cs, ret):
    """the iterator spelling of `for d in defs { set.insert(d); set.extend(all_supertypes_of(d.def_symbol())) }`:
    defs.flat_map(|d| once(d).chain(self.all_supertypes_of(d.def_symbol()))) collected into a HashSet that `ret` is made from"""
    fm = [c for c in cs if c[2].endswith("Iterator::flat_map")]
    if len(fm) != 1 or "Iterator::flat_map(" not in ret or "HashSet" not in ret:
        return False
    src = fm[0][3][0]
    x = "elem(%s)" % src
    for c in cs:
        if not c[2].endswith("Iterator::chain") or c[0].rec["kind"] != "Closure":
            continue
        a = c[3]
        if a[0] != "std::iter::once(%s)" % x or a[1] != "haystack::defs::namespace::Namespace::all_supertypes_of(_1*, haystack::defs::namespace::DefDict::def_symbol(%s))" % x:
            continue
        rv = G.describe_place(c[0], {"l": 0, "p": []})
        if rv.kind == "call" and strip_generics(rv.v).endswith("Iterator::chain"):
            return True
    return False


def _pipeline_tag_defs(prog, b, cs):
    """`subject.keys().filter_map(|key| self.get(^key)).collect()`: returns the text of the collected list, or None"""
    for c in cs:
        if c[0].id != b.id or not c[2].endswith("Iterator::filter_map"):
            continue
        src = c[3][0]
        if "BTreeMap::keys(" not in src or "_2*" not in src or _selects(src):
            continue
        t = b.term(c[1])
        cid = _closure_id_of(b, t["args"][1]) if len(t["args"]) > 1 else None
        clo = next((x for k, x in prog.bodies.items() if k == cid or x.rec.get("alias_of") == cid), None)
        if clo is None:
            continue
        rv = G.describe_place(clo, {"l": 0, "p": []})
        inner = [x for x in cs if x[0].id == clo.id and (x[2].endswith("Namespace::get") or x[2].endswith("Namespace::get_by_name"))]
        if rv.kind == "call" and strip_generics(rv.v).endswith(("Namespace::get", "Namespace::get_by_name")) and len(inner) == 1 and "elem(" in inner[0][3][1] and inner[0][3][0] == "_1*":
            coll = [x for x in cs if x[0].id == b.id and x[2].endswith("Iterator::collect") and x[3] and x[3][0].startswith("std::iter::Iterator::filter_map(" + src)]
            if len(coll) == 1:
                return "std::iter::Iterator::collect(" + coll[0][3][0]
    return None


def _pipeline_markers(prog, b, cs):
    """`subject.keys()..filter(|tag| <has a def> && subject.has_marker(tag)).collect()`: the selecting closure is true only when
    has_marker(subject, tag) is (truth table), and consults nothing but the tag's def and marker-ness; returns the collected text"""
    from rules import pathcond as PC

    for c in cs:
        if c[0].id != b.id or not c[2].endswith("Iterator::filter"):
            continue
        src = c[3][0]
        if "BTreeMap::keys(" not in src or "_2*" not in src or _selects(src):
            continue
        t = b.term(c[1])
        cid = _closure_id_of(b, t["args"][1]) if len(t["args"]) > 1 else None
        clo = next((x for k, x in prog.bodies.items() if k == cid or x.rec.get("alias_of") == cid), None)
        if clo is None:
            continue
        inner = [x for x in cs if x[0].id == clo.id]
        hm = [x for x in inner if x[2].endswith("HaystackDict>::has_marker")]
        other = [x for x in inner if not x[2].endswith(("HaystackDict>::has_marker", "Namespace::has", "Namespace::get", "Namespace::get_by_name", "From>::from", "::as_str", "Deref>::deref", "Option::is_some"))]
        if len(hm) != 1 or hm[0][3][0] != "_2*" or "elem(" not in hm[0][3][1] or other:
            continue
        rets = {bi for bi in range(clo.n) if clo.term(bi)["k"] == "return"}
        pos, _neg = PC.bool_outcomes(PC.enumerate_paths(clo, lambda x: x in rets))
        atoms = PC.atoms_of(pos)
        H = [a for a in atoms if a.startswith("has_marker(")]
        if len(H) != 1:
            continue
        o, _c = PC.entails(pos, lambda asg: bool(asg.get(H[0])), atoms)
        if not o:
            continue
        coll = [x for x in cs if x[0].id == b.id and x[2].endswith("Iterator::collect") and x[3] and x[3][0].startswith("std::iter::Iterator::filter(" + src)]
        if len(coll) == 1:
            return "std::iter::Iterator::collect(" + coll[0][3][0]
    return None


def _helper_union_ok(prog, fb):
    """find_supertypes_from_defs = union over the given defs of {def} + all_supertypes_of(def): loop, fold or flat_map spelling"""
    cs2 = _calls(prog, fb)
    ins2 = _find(cs2, "HashSet::insert")
    sup2 = _find(cs2, "Namespace::all_supertypes_of")
    ext2 = [c for c in cs2 if c[2].endswith("Extend>::extend")]
    ret2 = repr(G.describe_place(fb, {"l": 0, "p": []}))
    good = (len(ins2) == 1 and len(sup2) == 1 and len(ext2) == 1 and sup2[0][3][0] == "_1*" and sup2[0][3][1] == "haystack::defs::namespace::DefDict::def_symbol(%s)" % ins2[0][3][1]
            and ins2[0][3][0] == ext2[0][3][0] and "Namespace::all_supertypes_of(" in ext2[0][3][1] and not _selects(ext2[0][3][1]) and "Iterator::collect(" in ret2 and ins2[0][3][0] in ret2 and not _selects(ret2))
    return good or _flat_map_union(prog, cs2, ret2)


def check_reflect(ctx, rep):
    prog = ctx.prog
    n = 0
    b = prog.get(NS + "reflect")
    if b is None:
        rep.gap(NS + "reflect", "-", "not found")
        return 0
    # whether "each def plus all its supertypes" is a helper of reflect or written out in it is the same program: look at
    # reflect with that private helper spliced in
    from vlib import inline as _inl

    b = _inl.inlined_view(prog, b, {NS + "find_supertypes_from_defs"}, type(b), strip_generics)
    cs = _calls(prog, b)
    n += 1
    ret = repr(G.describe_place(b, {"l": 0, "p": []}))
    mret = re.match(r"^haystack::defs::reflection::Reflection::make\(_2\*, (.*), _1\*\)$", ret)
    ins_all = _find(cs, "HashSet::insert")
    sup_all = _find(cs, "Namespace::all_supertypes_of")
    ext_all = [c for c in cs if c[2].endswith("Extend>::extend")]
    union_ok = False
    for c_ins in ins_all:
        x = c_ins[3][1]
        for c_sup in sup_all:
            if c_sup[3][0] == "_1*" and c_sup[3][1] == "haystack::defs::namespace::DefDict::def_symbol(%s)" % x:
                if any(c_ins[3][0] == e[3][0] and "Namespace::all_supertypes_of(" in e[3][1] and not _selects(e[3][1]) for e in ext_all):
                    union_ok = True
    fb0 = prog.get(NS + "find_supertypes_from_defs")
    if not union_ok and fb0 is not None and mret and _helper_union_ok(prog, fb0) and strip_generics(fb0.id) in [strip_generics(mir.callee_name(t) or "") for _bi, t in prog.get(NS + "reflect").calls()]:
        # the union is the helper's business (whatever its spelling: loop, fold, adaptor chain) and reflect hands its result on
        union_ok = True
    if not union_ok and mret and "Iterator::flat_map(" in mret.group(1):
        # the closure of the spliced helper is the helper's: judge the step there
        if fb0 is not None and _flat_map_union(prog, _calls(prog, fb0), repr(G.describe_place(fb0, {"l": 0, "p": []}))):
            union_ok = True
        elif _flat_map_union(prog, cs, mret.group(1)):
            union_ok = True
    if mret and "Iterator::collect(" in mret.group(1) and "HashSet" in mret.group(1) and union_ok:
        _ok(rep, "reflect:result", b.where(), "Reflection::make(subject, union over the collected defs of {def} + all_supertypes_of(def), ns)")
    else:
        _bad(rep, "reflect:result", b.where(), "reflect does not return Reflection::make(subject, <each collected def plus all_supertypes_of that def>, self) (returns %s; union step found: %s)" % (ret[:120], union_ok))
    n += 1
    keys = _find(cs, "BTreeMap::keys")
    push = _find(cs, "Vec::push")
    # the def of a tag: get(^key) or get_by_name(key) (which is get(^name), checked below); `key` is the loop's item
    key_item = None
    lookups = []
    for c in _find(cs, "Namespace::get"):
        m = re.search(r"Symbol as std::convert::From>::from\((.*)\)$", c[3][1])
        if m:
            key_item = m.group(1)
            lookups.append(c)
    for c in _find(cs, "Namespace::get_by_name"):
        key_item = c[3][1]
        lookups.append(c)
        gb = prog.get(NS + "get_by_name")
        gcs = _calls(prog, gb) if gb is not None else []
        if not any(x[2].endswith("BTreeMap::get") and "Symbol as std::convert::From>::from(_2" in x[3][1] for x in gcs):
            key_item = None
    good = len(keys) == 1 and "_2*" in keys[0][3][0] and key_item is not None and len(lookups) == 1 and len(push) == 1 and re.search(r"as Some\.0$", push[0][3][1]) is not None
    if good:
        gs = [g for g in G.guards_at(push[0][0], push[0][1]) if "Namespace::get" not in repr(g.a) and "Iterator>::next" not in repr(g.a)]
        good = not gs
    pipe_defs = None
    if not good:
        pipe_defs = _pipeline_tag_defs(prog, b, cs)
        good = pipe_defs is not None
    if good:
        _ok(rep, "reflect:tag-defs", b.where(), "the def of every tag of the record that has one is taken, whatever the tag's value")
    else:
        _bad(rep, "reflect:tag-defs", b.where(), "reflect does not take get(^tag) for every key of the record unconditionally")
    n += 1
    hm = _find(cs, "HaystackDict>::has_marker")
    ins = [c for c in _find(cs, "HashSet::insert") if hm and c[3][1] == hm[0][3][1]]
    good = len(ins) == 1 and len(hm) == 1 and hm[0][3][0] == "_2*" and ins[0][3][1] == hm[0][3][1] == key_item
    if good:
        gs = G.guards_at(ins[0][0], ins[0][1])
        good = any(g.op == "True" and g.a is not None and g.a.kind == "call" and g.a.v.endswith("has_marker") for g in gs)
    pipe_markers = None
    if not good:
        pipe_markers = _pipeline_markers(prog, b, cs)
        good = pipe_markers is not None
    if good:
        _ok(rep, "reflect:markers", b.where(), "a tag counts as a conjunct part exactly when the record has it as a marker")
    else:
        _bad(rep, "reflect:markers", b.where(), "the marker set handed to the conjunct search is not `tags of the record that are markers`")
    n += 1
    fc = _find(cs, "Namespace::find_conjuncts")
    ext = [c for c in cs if c[2].endswith("Extend>::extend")]
    ext = [c for c in ext if "Namespace::find_conjuncts(" in c[3][1]]
    same_list = bool(push) and len(ext) == 1 and ext[0][3][0] == push[0][3][0]
    if not same_list and pipe_defs is not None and len(ext) == 1:
        # the list that is extended is the one collected from the tag pipeline
        same_list = pipe_defs in ext[0][3][0]
    marker_arg_ok = len(fc) == 1 and ("HashSet" in fc[0][3][1] or (pipe_markers is not None and pipe_markers in fc[0][3][1]))
    if len(fc) == 1 and fc[0][3][0] == "_1*" and marker_arg_ok and len(ext) == 1 and same_list:
        _ok(rep, "reflect:conjuncts", b.where(fc[0][1]), "the conjunct defs found for the markers are added to the tag defs")
    else:
        _bad(rep, "reflect:conjuncts", b.where(), "the defs list is not extended by find_conjuncts(markers)")
    # find_supertypes_from_defs: each def and all its supertypes
    fb = prog.get(NS + "find_supertypes_from_defs")
    if fb is None:
        pass  # written out inside reflect: covered by reflect:result above
    else:
        n += 1
        good = _helper_union_ok(prog, fb)
        if good:
            _ok(rep, "reflect:supertypes-of-all", fb.where(), "result = union over defs of {def} + all_supertypes_of(def)")
        else:
            _bad(rep, "reflect:supertypes-of-all", fb.where(), "find_supertypes_from_defs is not the union of each def with all_supertypes_of that same def")
    # find_conjuncts: all parts must be markers of the record
    cb = prog.get(NS + "find_conjuncts")
    if cb is None:
        rep.gap(NS + "find_conjuncts", "-", "not found")
    else:
        n += 1
        cs3 = _calls(prog, cb)
        alls = [c for c in cs3 if c[2].endswith("Iterator>::all") or c[2].endswith("Iterator::all")]
        anys = [c for c in cs3 if c[2].endswith("Iterator>::any") or c[2].endswith("Iterator::any")]
        cont = _find(cs3, "HashSet::contains")
        join = [c for c in cs3 if c[2].endswith("::join")]
        gbn = _find(cs3, "Namespace::get_by_name")
        sep_ok = any("conststr:-" in a for c in join for a in c[3])
        if len(alls) == 1 and not anys and len(cont) == 1 and sep_ok and len(gbn) == 1:
            gs = G.guards_at(gbn[0][0], gbn[0][1])
            cond = any(g.op == "True" and g.a is not None and (g.a.v.endswith("Iterator>::all") or g.a.v.endswith("Iterator::all")) for g in gs if g.a is not None and g.a.kind == "call")
            if not cond and gbn[0][0].rec["kind"] == "Closure":
                # the pipeline spelling: `.filter(|..| parts.all(..)).filter_map(|..| get_by_name(..))`
                for fb in upstream_filters(prog, gbn[0][0]):
                    rv = G.describe_place(fb, {"l": 0, "p": []})
                    if rv.kind == "call" and strip_generics(rv.v).endswith(("Iterator>::all", "Iterator::all")):
                        cond = True
            if cond:
                _ok(rep, "conjuncts:all-parts-are-markers", cb.where(), "a conjunct is looked up (name = parts joined by '-') only when ALL its parts are markers of the record")
            else:
                _bad(rep, "conjuncts:all-parts-are-markers", cb.where(), "the conjunct lookup is not guarded by the all-parts test")
        else:
            _bad(rep, "conjuncts:all-parts-are-markers", cb.where(), "find_conjuncts does not test ALL parts against the marker set (all=%d any=%d contains=%d join('-')=%s get_by_name=%d)" % (len(alls), len(anys), len(cont), sep_ok, len(gbn)))
    return n


def check_reflection_fits(ctx, rep):
    prog = ctx.prog
    n = 0
    b = prog.get("haystack::defs::reflection::Reflection::fits")
    if b is None:
        rep.gap("Reflection::fits", "-", "not found")
    else:
        n += 1
        cs = _calls(prog, b)
        anys = [c for c in cs if c[2].endswith("Iterator>::any") or c[2].endswith("Iterator::any")]
        alls = [c for c in cs if c[2].endswith("Iterator>::all") or c[2].endswith("Iterator::all")]
        fits = _find(cs, "Namespace::fits")
        gsym = _find(cs, "HaystackDict>::get_symbol")
        good = (len(anys) == 1 and not alls and ".defs" in anys[0][3][0] and len(fits) == 1 and len(gsym) == 1 and gsym[0][3][1] == "conststr:def"
                and "elem(" in gsym[0][3][0] and ".defs" in gsym[0][3][0]
                and fits[0][3][0] == "_1*.ns" and re.search(r"as Some\.0$", fits[0][3][1]) is not None and fits[0][3][2] == "_2*")
        if good:
            _ok(rep, "reflection-fits:any-def-fits-base", b.where(), "Reflection::fits(base) = ANY reflected def d with ns.fits(d.def, base)")
        else:
            _bad(rep, "reflection-fits:any-def-fits-base", b.where(), "Reflection::fits is not `any def of the reflection fits base` (any=%d all=%d fits%s)" % (len(anys), len(alls), [c[3][1:] for c in fits]))
    e = next((x for x in prog.bodies.values() if x.short == "<haystack::filter::nodes::IsA as haystack::filter::eval::Eval>::eval"), None)
    if e is None:
        rep.gap("IsA::eval", "-", "not found")
    else:
        n += 1
        ret = repr(G.describe_place(e, {"l": 0, "p": []}))
        if re.match(r"^haystack::defs::reflection::Reflection::fits\(haystack::defs::namespace::Namespace::reflect\(_2\*\.ns\**, _2\*\.dict\**\), _1\*\.symbol\)$", ret):
            _ok(rep, "isa:reflect-then-fits", e.where(), "^symbol holds on a record iff reflect(record).fits(symbol)")
        else:
            _bad(rep, "isa:reflect-then-fits", e.where(), "IsA::eval is %s, expected ns.reflect(dict).fits(symbol)" % ret[:160])
    return n


FULL_SCANS = ["supertypes_of", "compute_subtypes", "all_subtypes_of", "all_supertypes_of", "reflect", "find_supertypes_from_defs", "find_conjuncts", "inheritance"]


def check_full_scans(ctx, rep):
    """the query functions look at every element of the lists they walk: each iterator loop is left only when its iterator
    is exhausted (or the work list is empty) - a `break` on some element silently drops the rest of an `is` list or of a
    subtree, which an acyclic sample never shows"""
    prog = ctx.prog
    n = 0
    for fn in FULL_SCANS:
        b = prog.get(NS + fn)
        if b is None:
            if fn in ("find_supertypes_from_defs", "find_conjuncts", "compute_subtypes"):
                continue  # a private step; when it is written out in its caller the caller's loops are the ones checked
            rep.gap(NS + fn, "-", "not found")
            continue
        if fn == "reflect":
            from vlib import inline as _inl

            b = _inl.inlined_view(prog, b, {NS + "find_supertypes_from_defs"}, type(b), strip_generics)
        k = 0
        for scc in b.sccs():
            if len(scc) < 2:
                continue
            heads = [x for x in scc if b.term(x)["k"] == "call" and strip_generics(mir.callee_name(b.term(x)) or "").endswith("Iterator>::next")]
            if not heads:
                continue
            for h in heads:
                n += 1
                # the loop of this header: blocks of the SCC that can reach h without leaving the SCC and are reachable from h
                # natural loop of h: h plus the blocks that reach a back edge (u -> h, h dominates u) without passing through h
                idom = b.idom()

                def dominated_by(x, hh):
                    while True:
                        if x == hh:
                            return True
                        if x == 0 or x not in idom:
                            return False
                        x = idom[x]

                loop = {h}
                work = [u for u in b.pred(h) if u in scc and dominated_by(u, h)]
                while work:
                    x = work.pop()
                    if x in loop:
                        continue
                    loop.add(x)
                    work.extend(p for p in b.pred(x) if p in scc)
                # inner-most: drop blocks that belong to a nested loop with its own header only if they cannot exit; keep simple: all exits of `loop`
                bad = []
                for u in loop:
                    for v in b.succ(u):
                        if v in loop:
                            continue
                        t = b.term(u)
                        ok = False
                        if t["k"] == "switch":
                            r = repr(G.describe(b, t["op"]))
                            if r.startswith("discr:(") and "Iterator>::next(" in r:
                                ok = True  # exhaustion of an iterator of this loop nest
                            if "is_empty(" in r or "Vec::pop(" in r:
                                ok = True  # work list empty
                            if "Try>::branch" in r:
                                ok = True  # error propagation
                        if not ok:
                            bad.append((u, v))
                key = "%s:loop#%d:left-only-when-exhausted" % (fn, k)
                k += 1
                if bad:
                    _bad(rep, "%s:full-scan" % fn, b.where(bad[0][0]), "a loop of %s can be left before its iterator is exhausted (edge bb%d -> bb%d): the remaining elements are never looked at" % (fn, bad[0][0], bad[0][1]))
                else:
                    _ok(rep, key, b.where(h), "the loop is left only on exhaustion")
        # the iterator-adaptor spelling of a scan: exhaustive by construction unless an adaptor cuts it short
        for x, bi, nm, args in _calls(prog, b):
            if re.search(r"::(collect|for_each|extend|fold|count|sum)$", nm) and not nm.endswith("Extend>::extend"):
                n += 1
            if re.search(r"Iterator(>|)::(take|take_while|skip|skip_while|step_by|nth|last)$", nm):
                n += 1
                _bad(rep, "%s:full-scan" % fn, x.where(bi), "%s walks a list through `%s`, which stops before the end: the remaining elements are never looked at" % (fn, nm.split("::")[-1]))
    return n
