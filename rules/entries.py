"""Entry-point sets shared by the properties (selected by resolved trait / path, never by line)."""
import re

ZENC = "haystack::encoding::zinc::encode::"
ZDEC = "haystack::encoding::zinc::decode::"


def by_trait(prog, trait, name=None):
    return sorted(b.id for b in prog.methods_of_trait(trait, name))


def by_regex(prog, rx):
    return sorted(b.id for b in prog.find(rx))


def encoders(prog):
    out = set()
    out |= set(by_trait(prog, ZENC + "ToZinc"))
    out |= set(by_trait(prog, ZENC + "ZincEncode"))
    out |= set(by_regex(prog, r"^" + re.escape(ZENC) + r"(to_zinc_string|ToZinc::to_zinc_string)$"))
    out |= set(by_trait(prog, "serde::Serialize"))
    for b in prog.methods_of_trait("std::fmt::Display", "fmt"):
        adt = (b.rec.get("impl") or {}).get("self_adt", "")
        if adt.startswith("haystack::val::") or adt.startswith("haystack::filter::") or adt.startswith("haystack::units::") or adt.startswith(ZDEC + "id::"):
            out.add(b.id)
    out |= set(by_regex(prog, r"^haystack::val::dict::dict_to_dis$"))
    out |= set(by_regex(prog, r"^<haystack::val::dict::Dict as haystack::val::dict::HaystackDict>::dis$"))
    out |= set(by_regex(prog, r"^haystack::val::dis_macro::dis_macro$"))
    out |= {b.id for b in prog.bodies.values() if b.file.endswith("encoding/json/encode.rs")}
    # the exported encode entry points of the C API run the same encoders and then build a C string
    out |= {b.id for b in prog.bodies.values() if b.file.startswith("src/c_api/") and str(b.rec.get("abi", "")).startswith("C") and re.search(r"_to_(zinc|json)_string$", b.rec.get("name", ""))}
    return sorted(out)


def zinc_decoders(prog):
    out = set()
    out |= set(by_regex(prog, r"^" + re.escape(ZDEC)))
    return sorted(x for x in out if "::test::" not in x)


def json_decoders(prog):
    out = set(by_regex(prog, r"^haystack::encoding::json::decode::"))
    out |= set(by_regex(prog, r"^<haystack::encoding::json::decode::"))
    out |= {b.id for b in prog.bodies.values() if b.file.endswith("encoding/json/decode.rs")}
    return sorted(out)


def filter_parser(prog):
    out = {b.id for b in prog.bodies.values() if b.file.endswith(("filter/lexer.rs", "filter/parser.rs"))}
    out |= set(by_regex(prog, r"haystack::filter::.*TryFrom.*try_from$"))
    out |= set(by_regex(prog, r"^c_api::filter::haystack_filter_parse$"))
    return sorted(out)


def filter_eval(prog):
    out = set(by_trait(prog, "haystack::filter::eval::Eval"))
    out |= set(by_trait(prog, "haystack::filter::filtered::Filtered"))
    out |= set(by_trait(prog, "haystack::filter::filtered::ListFiltered"))
    out |= set(by_regex(prog, r"^haystack::defs::namespace::Namespace::(reflect|has_relationship|fits|inheritance|supertypes_of|all_supertypes_of|all_subtypes_of|subtypes_of)$"))
    return sorted(out)


def extern_c(prog):
    return sorted(b.id for b in prog.bodies.values() if b.rec.get("abi", "").startswith("C") and b.rec.get("no_mangle"))
