"""C04: token-level tables of the Zinc reader and writer against the transcribed specification (spec/zinc.json)."""
import json
import os
import re

from rules import escapes, guards as G, scanai, kinds
from vlib import fmtargs, mir
from vlib.mir import callee_of, op_place, strip_generics

SPEC = os.path.join(os.path.dirname(os.path.dirname(os.path.abspath(__file__))), "spec", "zinc.json")
D = "haystack::encoding::zinc::decode::"


def cls_mask(spec):
    m = 0
    i = 0
    s = spec
    while i < len(s):
        if s[i] == "\\" and i + 1 < len(s):
            m |= 1 << ord(s[i + 1])
            i += 2
        elif i + 2 < len(s) and s[i + 1] == "-":
            m |= scanai.mask_range(ord(s[i]), ord(s[i + 2]))
            i += 3
        else:
            m |= 1 << ord(s[i])
            i += 1
    return m


def lexer_keywords(prog):
    """{literal: description of the Value the zinc lexer builds for it}"""
    body = prog.get(D + "lexer::Lexer::read")
    if body is None:
        return None, None
    tab = {}
    for b in body.rpo():
        t = body.term(b)
        if t["k"] != "call":
            continue
        nm = strip_generics(mir.callee_name(t) or "")
        if not (nm.endswith("for str>::eq") or nm.endswith("PartialEq for &A>::eq")):
            continue
        lit = [G.describe(body, a) for a in t["args"]]
        lit = [v.v for v in lit if v.kind == "conststr"]
        if not lit or "t" not in t:
            continue
        sw = body.term(t["t"])
        if sw["k"] != "switch":
            continue
        vals = {int(x[0]): x[1] for x in sw["targets"]}
        te = sw["otherwise"] if 0 in vals else vals.get(1)
        if te is None:
            continue
        eff = keyword_arm(body, te)
        tab[lit[0]] = eff
    return tab, body


def keyword_arm(body, start):
    seen = {start}
    st = [start]
    out = []
    n = 0
    while st and n < 12:
        b = st.pop(0)
        n += 1
        for s in body.blocks[b]["stmts"]:
            if s["k"] == "assign" and s["rv"]["k"] == "agg" and s["rv"].get("adt") == "haystack::val::value::Value":
                out.append(s["rv"]["variant"])
        t = body.term(b)
        if t["k"] == "call":
            nm = strip_generics(mir.callee_name(t) or "")
            if nm.startswith("haystack::val::value::Value::make_"):
                arg = ""
                if t["args"]:
                    c = mir.op_const(t["args"][0])
                    if c is not None and "float" in c:
                        arg = ":" + c["float"]
                out.append(nm.split("::")[-1] + arg)
        for x in body.succ(b):
            if x not in seen and len(body.pred(x)) <= 1:
                seen.add(x)
                st.append(x)
    return out


KW_EXPECT = {
    "Null": ["Null"], "Marker": ["Marker"], "Remove": ["Remove"], "Na": ["Na"],
    "Bool:true": ["make_true"], "Bool:false": ["make_false"], "Number:NaN": ["make_number:NaN"], "Number:+inf": ["make_number:inf"],
}


def writer_literals(prog):
    """{kind description: literal text} as written by the Zinc encoder for the singleton kinds"""
    out = {}
    E = "haystack::encoding::zinc::encode::"
    def consts(body):
        r = []
        for bi, t in body.calls():
            nm = strip_generics(mir.callee_name(t) or "")
            if nm == "std::io::Write::write_all":
                v = G.describe(body, t["args"][1])
                if v.kind == "conststr":
                    r.append((bi, v.v))
            elif nm == "std::io::Write::write_fmt":
                a = fmtargs.arguments_of(body, t["args"][1])
                if a:
                    r.append((bi, "".join(p[1] if p[0] == "lit" else "{}" for p in a[0])))
        return r
    for ty, kind in (("marker::Marker", "Marker"), ("remove::Remove", "Remove"), ("na::Na", "Na")):
        b = escapes.find_writer(prog, ty)
        if b:
            cs = consts(b)
            if len(cs) == 1:
                out[kind] = cs[0][1]
    b = escapes.find_writer(prog, "boolean::Bool")
    if b:
        for bi, s in consts(b):
            for g in G.guards_at(b, bi):
                if repr(g.a).endswith(".value") and g.op in ("True", "False"):
                    out["Bool:" + ("true" if g.op == "True" else "false")] = s
    b = escapes.find_writer(prog, "number::Number")
    if b:
        for bi, s in consts(b):
            gs = [repr(g) for g in G.guards_at(b, bi)]
            if any("is_nan" in g and "True" in g for g in gs):
                out["Number:NaN"] = s
            if any("is_infinite" in g and "True" in g for g in gs):
                out["Number:inf-template"] = s
    vb = next((x for x in prog.bodies.values() if x.short == "<haystack::val::value::Value as haystack::encoding::zinc::encode::ZincEncode>::zinc_encode"), None)
    if vb:
        names = {int(v["discr"]): v["name"] for v in prog.adts["haystack::val::value::Value"]["variants"]}
        for bi, s in consts(vb):
            for g in G.guards_at(vb, bi):
                if g.op == "Eq" and g.a.kind == "discr" and g.b is not None and g.b.kind == "const" and names.get(g.b.v) == "Null":
                    out["Null"] = s
    return out


def check(ctx, rep):
    prog = ctx.prog
    spec = json.load(open(SPEC))
    n = 0
    # --- Str escapes: reader
    tab, eb = escapes.str_escape_table(prog)
    if not tab:
        rep.gap("parse_str_escape", "-", "table not found")
    else:
        sm = spec["str_escapes"]["map"]
        for letter, cp in sorted(sm.items()):
            n += 1
            got = tab.get(ord(letter))
            key = "str-escape-reader:\\%s" % letter
            if got == chr(cp):
                rep.ok("T-SPEC", key, eb.where(), "reader decodes \\%s to U+%04X as the grammar says" % (letter, cp))
            elif got is None:
                rep.bad("T-SPEC", "T-SPEC:" + key, eb.where(), "reader does not accept the grammar's escape \\%s" % letter)
            else:
                rep.bad("T-SPEC", "T-SPEC:" + key, eb.where(), "reader decodes \\%s to U+%04X but the grammar says U+%04X" % (letter, ord(got) if got != "unicode" else 0, cp))
        n += 1
        if tab.get(ord("u")) == "unicode":
            rep.ok("T-SPEC", "str-escape-reader:\\u", eb.where(), "\\uXXXX handled")
        else:
            rep.bad("T-SPEC", "T-SPEC:str-escape-reader:\\u", eb.where(), "no \\uXXXX escape in the Str reader")
    # --- Str / Uri escapes: writer emits only grammar escapes, denoting the char
    for tname, skey in (("string::Str", "str_escapes"), ("uri::Uri", "uri_escapes")):
        w = escapes.find_writer(prog, tname)
        tr = escapes.writer_transducer(prog, w) if w else None
        if not tr:
            rep.gap(tname + " writer", "-", "transducer not extracted")
            continue
        cells, skip, _ = tr
        sm = spec[skey]["map"]
        for iv, tpl, where in cells:
            if tpl[0] != "lit" or not tpl[1].startswith("\\"):
                continue
            n += 1
            s = tpl[1]
            key = "%s-escape-writer:%s" % (tname.split("::")[-1], s)
            if len(s) == 2 and s[1] in sm:
                c = sm[s[1]]
                if iv == [(c, c)]:
                    rep.ok("T-SPEC", key, where, "%s denotes U+%04X in the grammar and is emitted exactly for it" % (s, c))
                else:
                    rep.bad("T-SPEC", "T-SPEC:" + key, where, "writer emits %s for %s but the grammar says it denotes U+%04X" % (s, escapes.iv_str(iv), c))
            elif re.fullmatch(r"\\u[0-9a-fA-F]{4}", s):
                c = int(s[2:], 16)
                if iv == [(c, c)]:
                    rep.ok("T-SPEC", key, where, "unicode escape for exactly U+%04X" % c)
                else:
                    rep.bad("T-SPEC", "T-SPEC:" + key, where, "writer emits %s for %s" % (s, escapes.iv_str(iv)))
            elif spec[skey]["complete"]:
                rep.bad("T-SPEC", "T-SPEC:" + key, where, "writer emits escape %s which the grammar does not define" % s)
            else:
                rep.ok("T-SPEC", key, where, "escape outside the transcribed (partial) table: judged by the round-trip rule of C01, not here")
    # --- keywords
    kw, lb = lexer_keywords(prog)
    wl = writer_literals(prog)
    if not kw:
        rep.gap("Lexer::read keywords", "-", "keyword arms not found")
    else:
        for lit, kind in sorted(spec["keywords"].items()):
            if lit == "-INF":
                continue
            n += 1
            key = "keyword:%s" % lit
            got = kw.get(lit)
            want = KW_EXPECT.get(kind)
            if got is None:
                rep.bad("T-SPEC", "T-SPEC:" + key, lb.where(), "the lexer does not recognise the keyword %s" % lit)
            elif want and any(w in got for w in want):
                rep.ok("T-SPEC", key, lb.where(), "lexer maps %s to %s" % (lit, got))
            else:
                rep.bad("T-SPEC", "T-SPEC:" + key, lb.where(), "lexer maps keyword %s to %s, the grammar says %s" % (lit, got, kind))
            wk = wl.get(kind)
            if kind == "Number:+inf":
                wk = wl.get("Number:inf-template", "").replace("{}", "")
            n += 1
            if wk == lit:
                rep.ok("T-SPEC", "keyword-writer:%s" % lit, "-", "writer emits %r for %s" % (wk, kind))
            else:
                rep.bad("T-SPEC", "T-SPEC:keyword-writer:%s" % lit, "-", "writer emits %r for %s, the grammar's keyword is %r" % (wk, kind, lit))
        extra = set(kw) - set(spec["keywords"])
        if extra:
            rep.note("lexer also accepts literals outside the grammar: %s" % sorted(extra))
    # -INF: dedicated reader
    ni = prog.get(D + "scalar::number::parse_neg_inf")
    n += 1
    if ni is not None and any(G.describe(ni, a).kind == "conststr" and G.describe(ni, a).v == "INF" for _, t in ni.calls() for a in t["args"]):
        rep.ok("T-SPEC", "keyword:-INF", ni.where(), "'-' followed by the sequence INF")
    else:
        rep.bad("T-SPEC", "T-SPEC:keyword:-INF", ni.where() if ni else "-", "-INF reader not found")
    # --- character classes: reader classes contain the grammar's
    ai = scanai.AI(prog)
    cls = spec["classes"]
    for fn, cname in ((D + "scalar::reference::parse_ref", "ref_body"), (D + "scalar::symbol::parse_symbol", "symbol_body"), (D + "id::parse_literal", "id_part"), (D + "scalar::date_time::parse_time_zone_name", "tz_name_part")):
        body = prog.get(fn)
        got = escapes.loop_accept_class(prog, ai, body) if body else None
        if got is None:
            rep.gap(fn, "-", "class not extracted")
            continue
        n += 1
        need = cls_mask(cls[cname])
        key = "class:%s" % cname
        if need & ~got:
            rep.bad("T-SPEC", "T-SPEC:" + key, body.where(), "reader class %s lacks %s of the grammar's %s" % (scanai.mask_str(got), scanai.mask_str(need & ~got), cname))
        else:
            rep.ok("T-SPEC", key, body.where(), "reader class %s contains the grammar's %s" % (scanai.mask_str(got), cname))
    isu = prog.get(D + "scalar::number::is_unit_char")
    if isu:
        t, f, u = scanai.byte_class(ai, isu.id)
        need = cls_mask(cls["unit_ascii"]) | scanai.mask_range(0x81, 0xFF)
        n += 1
        if need & ~t:
            rep.bad("T-SPEC", "T-SPEC:class:unit", isu.where(), "unit character class %s lacks %s" % (scanai.mask_str(t), scanai.mask_str(need & ~t)))
        else:
            rep.ok("T-SPEC", "class:unit", isu.where(), "unit class %s contains the grammar's ASCII unit characters and bytes 0x81-0xFF (0x80 is excluded by `cur > 128`; no database unit needs it, see C15)" % scanai.mask_str(t))
    # scanner predicates: exact classes
    S = D + "scanner::Scanner::"
    expect = {
        "is_digit": scanai.mask_range(48, 57),
        "is_hex_digit": scanai.mask_range(48, 57) | scanai.mask_range(65, 70) | scanai.mask_range(97, 102),
        "is_upper": scanai.mask_range(65, 90),
        "is_lower": scanai.mask_range(97, 122),
        "is_alpha": scanai.mask_range(65, 90) | scanai.mask_range(97, 122),
        "is_alpha_num": scanai.mask_range(48, 57) | scanai.mask_range(65, 90) | scanai.mask_range(97, 122),
        "is_space": scanai.mask_of(b" \t"),
        "is_newline": scanai.mask_of(b"\r\n"),
        "is_white_space": scanai.mask_of(b" \t\r\n"),
    }
    for nm, want in sorted(expect.items()):
        fb = prog.get(S + nm)
        if fb is None:
            rep.gap("Scanner::" + nm, "-", "not found")
            continue
        t, f, u = scanai.byte_class(ai, fb.id)
        n += 1
        key = "scanner-class:%s" % nm
        if t == want and not u:
            rep.ok("T-SPEC", key, fb.where(), "true exactly for %s" % scanai.mask_str(want))
        else:
            rep.bad("T-SPEC", "T-SPEC:" + key, fb.where(), "Scanner::%s is true for %s, the grammar's class is %s (differs on %s)" % (nm, scanai.mask_str(t), scanai.mask_str(want), scanai.mask_str((t ^ want) | u)))
    # id start: parse_id rejects non-lowercase first chars
    pid = prog.get(D + "id::parse_id")
    if pid:
        n += 1
        calls = [strip_generics(mir.callee_name(t) or "") for _, t in pid.calls()]
        if any(c.endswith("Scanner::is_lower") for c in calls):
            rep.ok("T-SPEC", "class:id_start", pid.where(), "identifiers must start with a lower-case letter")
        else:
            rep.bad("T-SPEC", "T-SPEC:class:id_start", pid.where(), "parse_id no longer tests the first character with is_lower")
    return n


def check_number_no_arith(ctx, rep):
    """the f64 of a decoded number is the result of str::parse::<f64> on the token's text: no floating-point arithmetic or
    libm call takes part (scaling a parsed mantissa by a power of ten rounds twice and is off by one ulp for about a quarter
    of the exponent spellings)"""
    prog = ctx.prog
    n = 0
    for b in prog.bodies.values():
        if not b.file.endswith("encoding/zinc/decode/scalar/number.rs"):
            continue
        n += 1
        bad = []
        for bi, blk in enumerate(b.blocks):
            for st in blk["stmts"]:
                if st["k"] == "assign" and st["rv"]["k"] == "binop" and st["rv"]["op"].replace("WithOverflow", "") in ("Add", "Sub", "Mul", "Div", "Rem"):
                    pl = st["lhs"] if "lhs" in st else st.get("place")
                    ty = b.local_ty(pl["l"]) if pl and not pl["p"] else ""
                    if ty in ("f64", "f32"):
                        bad.append((bi, "%s on %s" % (st["rv"]["op"], ty)))
        for bi, t in b.calls():
            nm = strip_generics(mir.callee_name(t) or "")
            if re.match(r"^std::f(32|64)::<impl f(32|64)>::(powi|powf|exp|exp2|mul_add|ln|log10|sqrt)$", nm) or nm.startswith("core::f64::<impl f64>::pow"):
                bad.append((bi, nm.split("::")[-1]))
        # ... and no f64 is turned back into text on the way: `format!("{mantissa}{exponent}").parse()` with a mantissa that was
        # already converted rounds twice (about 8 % of the shortest scientific spellings of doubles come out one ulp off)
        for bi, t in b.calls():
            nm = strip_generics(mir.callee_name(t) or "")
            if nm.startswith("core::fmt::rt::Argument::new_"):
                c = callee_of(t) or {}
                targs = [x for x in c.get("targs", []) if not x.startswith("'")]
                if targs and targs[0].replace("&", "").strip() in ("f64", "f32"):
                    bad.append((bi, "an %s is formatted into text (%s)" % (targs[0], nm.split("::")[-1])))
        key = "number-text-parsed-once:%s" % b.short.split("::")[-1]
        if bad:
            rep.bad("T-NUMFMT", "T-NUMFMT:" + key, b.where(bad[0][0]), "%s computes with floats (%s): the decoded value is no longer the correctly rounded value of the text" % (b.short.split("::")[-1], ", ".join(x[1] for x in bad[:3])))
        else:
            rep.ok("T-NUMFMT", key, b.where(), "no float arithmetic; values come from str::parse::<f64>")
    return n


def check_lookahead_on_demand(ctx, rep):
    """the end of the input right after a complete token is not an error: in the number / date / time dispatcher a look-ahead whose
    failure is propagated with `?` (end of input included) happens only after the byte already seen has ruled a plain number out
    (`-` after four digits, `-` in front). A look-ahead propagated without such a byte test makes `1234m` at the end of the input
    an error although it is a complete Number"""
    from rules import guards as G
    from vlib import mir
    from vlib.mir import strip_generics

    prog = ctx.prog
    b = prog.get("haystack::encoding::zinc::decode::lexer::parse_number_date_time")
    if b is None:
        rep.gap("parse_number_date_time", "-", "not found")
        return 0
    peeks = {x.id for x in prog.bodies.values() if strip_generics(x.id).endswith("scanner::Scanner::peek")}
    n = 0
    seen = {}
    for bi, t in b.calls():
        nm = mir.callee_name(t)
        cb = prog.bodies.get(nm)
        if cb is None:
            continue
        last = strip_generics(nm).split("::")[-1]
        if last.startswith("parse_"):
            continue  # committed to a token kind: from here on the end of the input is that reader's business
        reach, _ = prog.reachable_from([nm])
        if not (nm in peeks or any(p in reach for p in peeks)):
            continue
        dl = t["dest"]["l"]
        propagated = any(strip_generics(mir.callee_name(t2) or "").endswith("Try>::branch") and mir.op_place(t2["args"][0]) is not None and mir.op_place(t2["args"][0])["l"] == dl for _b2, t2 in b.calls())
        if not propagated:
            continue
        n += 1
        i = seen.get(last, 0)
        seen[last] = i + 1
        key = "lookahead-on-demand:%s#%d" % (last, i)
        byte_tests = [g for g in G.guards_at(b, bi) if g.op == "Eq" and g.a is not None and g.b is not None and re.fullmatch(r"_1\*\.(cur|last_peek)", repr(g.a)) and g.b.kind == "const"]
        if byte_tests:
            rep.ok("T-LOOKAHEAD", key, b.where(bi), "propagated look-ahead only after %s == %s" % (repr(byte_tests[0].a), repr(byte_tests[0].b)))
        else:
            rep.bad("T-LOOKAHEAD", "T-LOOKAHEAD:" + key, b.where(bi), "the failure of %s (end of input included) is propagated with `?` although no byte seen so far rules a plain Number out: a complete Number at the end of the input is reported as an error" % last)
    return n



def check_exponent_reader(ctx, rep):
    """both digit sequences of a number - mantissa and exponent - are read by the same reader (the one that knows the `_` separator
    and reports malformed digits): parse_exponent has no digit loop of its own. Sibling agreement inside one token"""
    from vlib import mir
    from vlib.mir import strip_generics

    prog = ctx.prog
    b = prog.get("haystack::encoding::zinc::decode::scalar::number::parse_exponent")
    pn = prog.get("haystack::encoding::zinc::decode::scalar::number::parse_number")
    if b is None or pn is None:
        rep.gap("parse_exponent", "-", "not found")
        return 0
    def readers(x):
        return sorted({strip_generics(mir.callee_name(t) or "").split("::")[-1] for _bi, t in x.calls() if strip_generics(mir.callee_name(t) or "").split("::")[-1].startswith("parse_decimal")})
    loops = [scc for scc in b.sccs() if len(scc) > 1]
    rm, re_ = readers(pn), readers(b)
    if re_ and re_ == rm and not loops:
        rep.ok("T-SPEC", "number:exponent-read-like-mantissa", b.where(), "mantissa and exponent digits both come from %s" % re_)
    else:
        rep.bad("T-SPEC", "T-SPEC:number:exponent-read-like-mantissa", b.where(), "the exponent digits are read by %s (own loop: %s) while the mantissa is read by %s: spellings the grammar allows in both places (`_` separators) are accepted in one and refused in the other" % (re_ or "no digit reader", bool(loops), rm))
    return 1


def check_line_breaks_are_tokens(ctx, rep):
    """in Zinc a line break ends the version line, the column line and every row, so the lexer hands it out as a token: the token
    reader skips blanks (spaces / tabs) only. The skipper that also eats line breaks exists for the places of the grammar that
    allow blank lines (between rows, before a nested grid); a who-may-call rule: it is not called from `Lexer::read`"""
    from vlib import mir
    from vlib.mir import strip_generics

    prog = ctx.prog
    rd = next((b for b in prog.bodies.values() if strip_generics(b.id).endswith("zinc::decode::lexer::Lexer::read") and b.rec["kind"] != "Closure"), None)
    if rd is None:
        rep.gap("Lexer::read", "-", "not found")
        return 0
    fam = [rd] + [prog.bodies[c] for c in prog.closures_of.get(rd.id, [])]
    bad = [(b, bi, strip_generics(mir.callee_name(t) or "")) for b in fam for bi, t in b.calls() if strip_generics(mir.callee_name(t) or "").endswith("::consume_white_spaces")]
    blanks = [1 for b in fam for _bi, t in b.calls() if strip_generics(mir.callee_name(t) or "").endswith("::consume_spaces")]
    if bad:
        b, bi, nm = bad[0]
        rep.bad("T-SPEC", "T-SPEC:lexer:line-break-is-a-token", b.where(bi), "the token reader skips white space with %s, which also consumes line breaks: a blank before the end of a line swallows the line break and two lines of the grid fuse" % nm.split("::")[-2:])
    elif blanks:
        rep.ok("T-SPEC", "lexer:line-break-is-a-token", rd.where(), "the token reader skips blanks only (consume_spaces)")
    else:
        rep.gap("lexer:line-break-is-a-token", rd.where(), "no blank skipper found in Lexer::read")
    return 1


def check_date_lookahead(ctx, rep):
    """the look-ahead that tells a date from a number (`is_partial_date`, run after four digits and a `-`) accepts every date the
    writer can emit: its five positional byte tests - month tens, month units, `-`, day tens, day units - are evaluated for all 256
    byte values and must contain `0`-`1`, `0`-`9`, `-`, `0`-`3`, `0`-`9`. An exclusive range where an inclusive one is meant
    sends every date on the 30th / 31st to the number reader"""
    from rules import guards as G
    from vlib import mir
    from vlib.mir import strip_generics

    prog = ctx.prog
    b = prog.get("haystack::encoding::zinc::decode::scalar::date_time::is_partial_date")
    if b is None:
        rep.gap("is_partial_date", "-", "not found")
        return 0
    classes = []
    for bi in b.rpo():
        cands = []
        for st in b.blocks[bi]["stmts"]:
            if st["k"] == "assign" and not st["lhs"]["p"] and st["rv"]["k"] == "binop" and st["rv"]["op"] in ("Eq", "Ne", "Lt", "Le", "Gt", "Ge") and b.local_ty(st["lhs"]["l"]) == "bool":
                cands.append(G.Val("binop", st["rv"]["op"], [G.describe(b, st["rv"]["a"]), G.describe(b, st["rv"]["b"])]))
        t = b.term(bi)
        if t["k"] == "call" and strip_generics(mir.callee_name(t) or "").split("::")[-1] == "contains" and not t["dest"]["p"] and b.local_ty(t["dest"]["l"]) == "bool":
            cands.append(G.Val("call", strip_generics(mir.callee_name(t) or ""), [G.describe(b, a) for a in t["args"]]))
        for d in cands:
            m = re.search(r"(_\d+ as Continue\.0)", repr(d))
            if not m:
                continue
            var = m.group(1)
            acc = set()
            unknown = False
            for v in range(256):
                r = G._eval(d, var, v, {})
                if r is None:
                    unknown = True
                    break
                if r:
                    acc.add(v)
            classes.append((bi, None if unknown else acc))
    need = [set(b"01"), set(b"0123456789"), set(b"-"), set(b"0123"), set(b"0123456789")]
    names = ["month tens", "month units", "separator", "day tens", "day units"]
    key = "date-lookahead:positional-classes"
    if len(classes) != 5 or any(c[1] is None for c in classes):
        rep.bad("T-SPEC", "T-SPEC:" + key, b.where(), "is_partial_date does not consist of five positional byte tests that can be evaluated (%d found)" % len(classes))
        return 1
    short = [(names[i], sorted(chr(x) for x in need[i] - classes[i][1])) for i in range(5) if not need[i] <= classes[i][1]]
    if short:
        rep.bad("T-SPEC", "T-SPEC:" + key, b.where(classes[0][0]), "the date look-ahead refuses %s: dates the writer emits are handed to the number reader and fail" % "; ".join("%s %s" % (n, miss) for n, miss in short))
    else:
        rep.ok("T-SPEC", key, b.where(), "month tens 0-1, month units 0-9, '-', day tens 0-3, day units 0-9 all accepted (evaluated for 256 byte values each)")
    return 1
