"""R-DET: answers do not depend on the iteration order of a randomly seeded hash container.

std's HashMap / HashSet iterate in an order that differs from one container instance to the next (RandomState). Collecting such an
iteration gives the same *set* every time; feeding it to a consumer that stops at, or ranks by, position - find, position, first
`next()`, last, nth, take / skip, min / max with ties - gives an answer that can differ between two identical queries. The rule
looks at every order-sensitive consumer in the query code and at where its receiver comes from."""
import re

from rules import guards as G
from vlib import mir
from vlib.mir import strip_generics

ORDER_SENSITIVE = ("Iterator::find", "Iterator::find_map", "Iterator::position", "Iterator::rposition", "Iterator::last", "Iterator::nth",
                   "Iterator::take", "Iterator::skip", "Iterator::take_while", "Iterator::skip_while", "Iterator::max_by", "Iterator::max_by_key",
                   "Iterator::min_by", "Iterator::min_by_key", "Iterator::reduce", "Iterator::fold", "Iterator::try_fold", "Iterator::next",
                   "Iterator>::next", "Iterator::step_by", "Iterator::zip", "Iterator::enumerate")
HASH_SRC = re.compile(r"std::collections::Hash(Map|Set)::|std::collections::hash_(map|set)::|<std::collections::Hash(Map|Set) as|<&'?[a-z_]* ?(mut )?std::collections::Hash(Map|Set) as")
# an ordering step between the hash container and the consumer makes the order a function of the contents again
REORDERS = ("::sort", "::sort_by", "::sort_by_key", "::sort_unstable", "BTreeSet", "BTreeMap", "BinaryHeap")


def check(ctx, rep, files=("src/haystack/defs/",)):
    prog = ctx.prog
    n = 0
    for b in prog.bodies.values():
        if not b.file.startswith(files) or "::test" in b.id:
            continue
        loop_heads = set()
        for scc in b.sccs():
            if len(scc) > 1:
                loop_heads |= set(scc)
        for bi, t in b.calls():
            nm = strip_generics(mir.callee_name(t) or "")
            if not nm.endswith(ORDER_SENSITIVE) or not t["args"]:
                continue
            if nm.endswith("::next") and bi in loop_heads:
                continue  # a `for` loop: every element is visited (early exits are the full-scan rule's business)
            rcv = repr(G.describe(b, t["args"][0]))
            if not HASH_SRC.search(rcv):
                continue
            n += 1
            fn = strip_generics(b.rec.get("root", b.id)).split("::")[-1]
            cons = nm.split("::")[-1]
            key = "order:%s:%s" % (fn, cons)
            if any(r in rcv for r in REORDERS):
                rep.ok("R-DET", key, b.where(bi), "%s over a hash container, but through an ordering step" % cons)
            else:
                rep.bad("R-DET", "R-DET:" + key, b.where(bi), "%s is applied to the iteration of a randomly seeded hash container (%s): which element it yields can differ between two identical queries" % (cons, rcv[:120]))
    if n == 0:
        rep.ok("R-DET", "order:no-order-sensitive-consumer-of-hash-iteration", "-", "no find / first / last / nth / take / min / max / fold ... is applied to a HashMap / HashSet iteration in %s" % (files,))
    return n



def check_no_hidden_state(ctx, rep, files=("src/haystack/defs/",)):
    """the two DashMap caches are the only state a query may leave behind (R-LOCK K3-K5 govern them): the query code uses no
    thread-local and no other interior-mutable static - a `thread_local!` visited-set or memo that survives an early return makes
    the next query on that thread answer differently"""
    prog = ctx.prog
    hits = []
    for b in prog.bodies.values():
        if not b.file.startswith(files) or "::test" in b.id:
            continue
        for bi, t in b.calls():
            nm = strip_generics(mir.callee_name(t) or "")
            if nm.startswith("std::thread::LocalKey::") or nm.startswith("std::thread::local::LocalKey::"):
                hits.append((b, bi, nm))
    if hits:
        b, bi, nm = hits[0]
        rep.bad("R-DET", "R-DET:hidden-state:%s" % strip_generics(b.rec.get("root", b.id)).split("::")[-1], b.where(bi), "%s keeps state in a thread-local (%s): what one query leaves there is seen by the next query on the same thread" % (strip_generics(b.rec.get("root", b.id)).split("::")[-1], nm.split("::")[-1]))
    else:
        rep.ok("R-DET", "hidden-state:none", "-", "no thread-local state in %s" % (files,))
    return 1
