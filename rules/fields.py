"""R-FIELDS: every field of Self is read on every non-error path of an encoder impl (DESIGN 2.7).
Information that is never read cannot be written, so this is a necessary condition of every round-trip property."""
import json
import os
import re

from rules import guards as G
from vlib import mir
from vlib.dataflow import forward
from vlib.mir import callee_of, op_place, strip_generics

EXCEPTIONS = {
    ("haystack::val::number::Number", "unit"): "non-finite numbers carry no unit in the data model (NaN / INF paths)",
    ("haystack::val::grid::Grid", "ver"): "the format version is normalised to the writer's version by design (caveat recorded under C11)",
    ("haystack::val::reference::Ref", "dis"): None,  # no exception: placeholder to show the table is keyed by (type, field)
}
EXCEPTIONS = {k: v for k, v in EXCEPTIONS.items() if v}


def _fields_in_place(pl, selfs):
    if pl["l"] not in selfs:
        return None
    for pr in pl["p"]:
        if isinstance(pr, dict) and "n" in pr:
            return pr["n"]
    return "*whole*" if True else None


class FieldRule:
    def __init__(self, prog):
        self.prog = prog
        self.memo = {}

    def self_aliases(self, body, param=1):
        al = {param}
        changed = True
        while changed:
            changed = False
            for l, ds in body.defs().items():
                if l in al or len(ds) != 1 or ds[0][1] == "term":
                    continue
                rv = ds[0][2]
                src = None
                if rv["k"] == "use":
                    src = op_place(rv["op"])
                elif rv["k"] == "ref":
                    src = rv["place"]
                    if src["p"] not in ([], ["*"]):
                        src = None
                if src is not None and src["l"] in al and all(x == "*" for x in src["p"]):
                    al.add(l)
                    changed = True
        return al

    def read_all_paths(self, fid, depth=0, param=1):
        """fields of the given parameter read on every path to a non-error return"""
        if (fid, param) in self.memo:
            return self.memo[(fid, param)]
        self.memo[(fid, param)] = frozenset()  # recursion guard (empty: sound for a must-analysis)
        body = self.prog.bodies[fid]
        al = self.self_aliases(body, param)

        def places_of_stmt(st):
            out = [st["lhs"]]
            rv = st["rv"]
            if rv["k"] in ("ref", "rawptr", "discr"):
                out.append(rv["place"])
            for o in ([rv.get("op")] if rv["k"] in ("use", "cast", "repeat") else []) + ([rv.get("a"), rv.get("b")] if rv["k"] == "binop" else []) + ([rv.get("a")] if rv["k"] == "unop" else []) + (rv.get("ops", []) if rv["k"] == "agg" else []):
                pl = op_place(o) if o else None
                if pl is not None:
                    out.append(pl)
            return out

        def transfer(b, facts):
            f = set(facts)
            blk = body.blocks[b]
            for st in blk["stmts"]:
                if st["k"] != "assign":
                    continue
                for pl in places_of_stmt(st):
                    if pl["l"] in al:
                        for pr in pl["p"]:
                            if isinstance(pr, dict) and "n" in pr:
                                f.add(pr["n"])
                                break
            t = blk["term"]
            if t["k"] == "switch":
                pl = op_place(t["op"])
                if pl is not None and pl["l"] in al:
                    for pr in pl["p"]:
                        if isinstance(pr, dict) and "n" in pr:
                            f.add(pr["n"])
                            break
            if t["k"] == "call":
                nm = strip_generics(mir.callee_name(t) or "")
                if nm.endswith("as std::ops::FromResidual>::from_residual"):
                    return {}  # error exit: not an Ok path
                for j, a in enumerate(t["args"]):
                    pl = op_place(a)
                    if pl is None or pl["l"] not in al:
                        continue
                    named = [pr["n"] for pr in pl["p"] if isinstance(pr, dict) and "n" in pr]
                    if named:
                        f.add(named[0])
                    elif depth < 5:
                        # the value handed on whole: use the callee's own all-paths summary for that parameter; for an external
                        # generic callee (to_string, BTreeMap ops) the callbacks on the same type with self as receiver
                        tg, cb, ext = self.prog.site_targets(body, t)
                        adt = self.param_adt(body, param)
                        subs = None
                        if tg:
                            subs = [self.read_all_paths(g, depth + 1, j + 1) for g in tg if self.param_adt(self.prog.bodies[g], j + 1) == adt]
                        elif cb:
                            subs = [self.read_all_paths(g, depth + 1, 1) for g in cb if self.param_adt(self.prog.bodies[g], 1) == adt]
                        if subs:
                            common = set(subs[0])
                            for s2 in subs[1:]:
                                common &= set(s2)
                            f |= common
            return frozenset(f)

        IN = forward(body, frozenset(), transfer, must=True)
        res = None
        for b in range(body.n):
            if body.term(b)["k"] == "return" and b in IN:
                out = transfer(b, IN[b])
                out = out if isinstance(out, frozenset) else frozenset()
                res = out if res is None else (res & out)
        res = res if res is not None else frozenset()
        self.memo[(fid, param)] = res
        return res

    def param_adt(self, body, param):
        """ADT path of a parameter's type (references stripped)"""
        tys = body.rec.get("sig_inputs")
        if tys is None or param > len(tys):
            # closures: fall back to the local's type
            ty = body.locals[param]["ty"] if param < len(body.locals) else ""
        else:
            ty = tys[param - 1]
        ty = re.sub(r"^(&(mut )?('[a-z_]+ )?)+", "", ty)
        m = re.match(r"^([A-Za-z_0-9:]+)", ty)
        return m.group(1) if m else ty

    def same_self(self, f, g):
        a = (self.prog.bodies[f].rec.get("impl") or {}).get("self_adt")
        b = (self.prog.bodies[g].rec.get("impl") or {}).get("self_adt")
        return a is not None and a == b


ENC_TRAITS = {
    "haystack::encoding::zinc::encode::ToZinc": "to_zinc",
    "haystack::encoding::zinc::encode::ZincEncode": "zinc_encode",
    "serde::Serialize": "serialize",
}


def check(ctx, rep, traits):
    prog = ctx.prog
    fr = FieldRule(prog)
    n = 0
    for b in sorted(prog.bodies.values(), key=lambda x: x.id):
        im = b.rec.get("impl") or {}
        tr = im.get("trait")
        if tr not in traits or b.rec.get("name") != ENC_TRAITS[tr] or b.rec["kind"] == "Closure":
            continue
        adt = im.get("self_adt")
        a = prog.adts.get(adt)
        if not a or a["kind"] != "Struct" or not a["variants"][0]["fields"]:
            continue
        n += 1
        fields = [f["name"] for f in a["variants"][0]["fields"]]
        got = fr.read_all_paths(b.id)
        short = adt.split("::")[-1]
        for f in fields:
            key = "%s:%s:%s.%s" % (tr.split("::")[-1], ENC_TRAITS[tr], short, f)
            if f in got:
                rep.ok("R-FIELDS", key, b.where(), "read on every non-error path")
            elif (adt, f) in EXCEPTIONS:
                rep.ok("R-FIELDS", key, b.where(), "table: " + EXCEPTIONS[(adt, f)])
            else:
                rep.bad("R-FIELDS", "R-FIELDS:" + key, b.where(), "%s for %s can return Ok without ever reading field `%s`: whatever it holds is lost by the encoder" % (tr.split("::")[-1], short, f))
    return n
