"""R-REC: recursion reachable from an entry set is bounded (DESIGN 2.3)."""
from vlib import mir


def check(ctx, entries, rep, data_bounded=False, allow=None):
    prog = ctx.prog
    reach, parent = prog.reachable_from(entries)
    sccs = prog.call_sccs(reach)
    rep.analysed["recursive_sccs"] = len(sccs)
    for comp in sccs:
        short = [mir.strip_generics(x) for x in comp]
        key = "R-REC:" + "|".join(sorted(short))[:300]
        where = prog.bodies[comp[0]].where()
        cert = depth_guard(prog, comp)
        if cert:
            rep.ok("R-REC", key, where, "depth-guard:" + cert)
            continue
        if data_bounded:
            readers = [f for f in comp if consumes_input(prog, f)]
            cyc = same_self_cycle(prog, comp)
            if not readers and cyc is None:
                rep.ok("R-REC", key, where, "data-bounded:no member reads input text and every cycle passes a call on a strict sub-part of self (%d functions)" % len(comp))
                continue
            if readers:
                rep.bad("R-REC", key, where, "recursive cycle contains input-consuming function %s: not data-bounded" % mir.strip_generics(readers[0]), {"scc": short})
            else:
                rep.bad("R-REC", key, where, "recursion without structural descent: %s pass `self` on unchanged around a cycle" % " -> ".join(mir.strip_generics(x).split("::")[-1] for x in cyc), {"scc": short, "cycle": [mir.strip_generics(x) for x in cyc]})
            continue
        if allow and allow(comp):
            rep.ok("R-REC", key, where, "table:" + allow(comp))
            continue
        rep.bad("R-REC", key, where, "unbounded recursion: call-graph cycle %s has no depth guard (an input nested deeply enough exhausts the stack)" % " <-> ".join(s.split("::")[-1] for s in short[:6]), {"scc": short})
    return sccs


def depth_guard(prog, comp):
    """some function of the SCC compares an integer field/argument against a constant and returns on the far side
    before recursing, and increments it on the way down. (Recognised shape: SwitchInt/compare of a `depth`-like
    integer place with a constant, one edge leading to an Err/return without any call back into the SCC.)"""
    from rules import guards as G

    compset = set(comp)
    for f in comp:
        body = prog.bodies[f]
        rec_blocks = []
        for bi, t in body.calls():
            tg, _ = prog.call_targets(body, t)
            if tg & compset:
                rec_blocks.append(bi)
        if not rec_blocks:
            continue
        ok_all = True
        why = None
        for rb in rec_blocks:
            found = False
            for g in G.guards_at(body, rb):
                if g.op in ("Lt", "Le", "Gt", "Ge") and g.b is not None and (g.b.kind == "const" or g.a.kind == "const"):
                    other = g.a if g.b.kind == "const" else g.b
                    if other.kind in ("place", "binop") and ("depth" in repr(other) or "level" in repr(other) or "nest" in repr(other)):
                        found = True
                        why = "%s: recursive calls dominated by %r" % (mir.strip_generics(f).split("::")[-1], g)
            ok_all = ok_all and found
        if ok_all and why:
            return why
    return None


WALKER_TRAITS = (
    "haystack::encoding::zinc::encode::ToZinc",
    "haystack::encoding::zinc::encode::ZincEncode",
    "serde::Serialize",
    "std::fmt::Display",
    "std::fmt::Debug",
    "std::clone::Clone",
    "std::cmp::PartialEq",
    "std::cmp::PartialOrd",
    "std::cmp::Ord",
    "std::cmp::Eq",
    "std::hash::Hash",
    "std::ops::Drop",
    "haystack::filter::eval::Eval",
)


def is_value_walker(prog, f):
    b = prog.bodies[f]
    im = b.rec.get("impl") or {}
    if im.get("trait") in WALKER_TRAITS:
        return True
    if b.rec["kind"] == "Closure":
        root = prog.bodies.get(b.rec.get("root"))
        if root is not None:
            return is_value_walker(prog, root.id)
    sh = b.short
    return sh.endswith(("encode::write_dict_tags", "ToZinc::to_zinc_string", "encode::to_zinc_string", "dict::dict_to_dis", "dis_macro::dis_macro", "HaystackDict>::dis"))


INPUT_TYPES = ("decode::scanner::Scanner", "decode::lexer::Lexer", "filter::lexer::Lexer", "decode::parser::Parser", "filter::parser::Parser", "serde::Deserializer", "serde::de::")


def consumes_input(prog, f):
    b = prog.bodies[f]
    sig = " ".join(b.rec.get("sig_inputs", []))
    if any(t in sig for t in INPUT_TYPES):
        return True
    im = b.rec.get("impl") or {}
    return im.get("trait") in ("serde::de::Visitor", "serde::Deserialize")


def same_self_cycle(prog, comp):
    """edges f -> g (both in comp) where f hands its own first parameter (or a whole captured variable) to g
    unchanged; returns a cycle of such edges, or None. A cycle of the SCC that has no such sub-cycle passes at
    least one call whose receiver is a strict sub-part (field, element), so it terminates on finite data."""
    from rules import guards as G
    import re

    compset = set(comp)
    edges = {f: set() for f in comp}
    for f in comp:
        body = prog.bodies[f]
        is_closure = body.rec["kind"] == "Closure"
        for bi, t, tg, cb in prog.call_sites(f):
            hit = (tg | cb) & compset
            if not hit:
                continue
            whole = False
            for a in t["args"]:
                r = repr(G.describe(body, a))
                if not is_closure and re.fullmatch(r"_1\**", r):
                    whole = True
                if is_closure and re.fullmatch(r"_1\*?\.\d+\**", r):
                    whole = True
            if whole:
                edges[f] |= hit
        for cid in prog.closures_of.get(f, []):
            if cid in compset:
                edges[f].add(cid)
    # find a cycle
    color = {}
    stack = []

    def dfs(u):
        color[u] = 1
        stack.append(u)
        for v in sorted(edges[u]):
            if color.get(v) == 1:
                return stack[stack.index(v):] + [v]
            if v not in color:
                r = dfs(v)
                if r:
                    return r
        stack.pop()
        color[u] = 2
        return None

    for f in comp:
        if f not in color:
            r = dfs(f)
            if r:
                return r
    return None
