"""R-REC: recursion reachable from an entry set is bounded (DESIGN 2.3)."""
from vlib import mir
from vlib.mir import callee_of, strip_generics


def check(ctx, entries, rep, data_bounded=False, allow=None, decoder=False):
    prog = ctx.prog
    reach, parent = prog.reachable_from(entries)
    sccs = prog.call_sccs(reach)
    rep.analysed["recursive_sccs"] = len(sccs)
    for comp in sccs:
        short = [mir.strip_generics(x) for x in comp]
        key = "R-REC:" + "|".join(sorted(short))[:300]
        where = prog.bodies[comp[0]].where()
        cert = depth_guard(prog, comp)
        if cert:
            rep.ok("R-REC", key, where, "depth-guard:" + cert)
            continue
        cert = serde_bounded(prog, comp)
        if cert:
            rep.ok("R-REC", key, where, "serde-bounded:" + cert)
            rep.assume("A3: serde_json enforces its default recursion limit (128); the crate never calls disable_recursion_limit")
            continue
        if decoder and not any(consumes_input(prog, f) for f in comp):
            cyc = same_self_cycle(prog, comp)
            if cyc is None:
                rep.ok("R-REC", key, where, "data-bounded:walks a value built by a depth-guarded decoder; every cycle descends into a strict sub-part (%d functions)" % len(comp))
                continue
        if data_bounded:
            readers = [f for f in comp if consumes_input(prog, f)]
            cyc = same_self_cycle(prog, comp)
            if not readers and cyc is None:
                rep.ok("R-REC", key, where, "data-bounded:no member reads input text and every cycle passes a call on a strict sub-part of self (%d functions)" % len(comp))
                continue
            if readers:
                rep.bad("R-REC", key, where, "recursive cycle contains input-consuming function %s: not data-bounded" % mir.strip_generics(readers[0]), {"scc": short})
            else:
                rep.bad("R-REC", key, where, "recursion without structural descent: %s pass `self` on unchanged around a cycle" % " -> ".join(mir.strip_generics(x).split("::")[-1] for x in cyc), {"scc": short, "cycle": [mir.strip_generics(x) for x in cyc]})
            continue
        if allow and allow(comp):
            rep.ok("R-REC", key, where, "table:" + allow(comp))
            continue
        rep.bad("R-REC", key, where, "unbounded recursion: call-graph cycle %s has no depth guard (an input nested deeply enough exhausts the stack)" % " <-> ".join(s.split("::")[-1] for s in short[:6]), {"scc": short})
    return sccs


def guarded_functions(prog, comp):
    """functions of the SCC in which every call back into the SCC is dominated by the passing edge of a comparison
    of a depth counter (an integer field/local whose name says depth/level/nest) with a constant, the other edge
    of which cannot reach any such call"""
    from rules import guards as G

    compset = set(comp)
    out = {}
    for f in comp:
        body = prog.bodies[f]
        rec_blocks = []
        for bi, t, tg, cb in prog.call_sites(f):
            if (tg | cb) & compset:
                rec_blocks.append(bi)
        if not rec_blocks:
            continue
        why = None
        ok_all = True
        for rb in rec_blocks:
            found = False
            for g in G.guards_at(body, rb):
                if g.op in ("Lt", "Le", "Gt", "Ge") and g.b is not None and (g.b.kind == "const" or g.a.kind == "const"):
                    other = g.a if g.b.kind == "const" else g.b
                    r = repr(other)
                    if other.kind in ("place", "binop") and ("depth" in r or "level" in r or "nest" in r):
                        found = True
                        why = "%s: recursive calls dominated by %r" % (mir.strip_generics(f).split("::")[-1], g)
            ok_all = ok_all and found
        if ok_all and why:
            out[f] = why
    return out


def depth_guard(prog, comp):
    """every cycle of the SCC passes through a function whose recursive calls sit behind a depth guard"""
    gf = guarded_functions(prog, comp)
    if not gf:
        return None
    rest = set(comp) - set(gf)
    if prog.call_sccs(rest):
        return None
    return "; ".join(sorted(gf.values()))[:300]


def serde_bounded(prog, comp):
    """the SCC recurses only through serde's deserializer (callbacks from serde::de / serde_json functions), which
    enforces serde_json's recursion limit: the SCC restricted to direct local calls is acyclic"""
    compset = set(comp)
    edges = {f: set() for f in comp}
    via_serde = False
    for f in comp:
        for bi, t, tg, cb in prog.call_sites(f):
            edges[f] |= tg & compset
            if cb & compset:
                c = callee_of(t)
                nm = strip_generics(c.get("res") or c["fn"]) if c else ""
                if nm.startswith(("serde::de", "serde::Deserializer", "serde_json::", "serde::Deserialize")):
                    via_serde = True
                else:
                    edges[f] |= cb & compset
        for cid in prog.closures_of.get(f, []):
            if cid in compset:
                edges[f].add(cid)
    # acyclic?
    color = {}

    def dfs(u):
        color[u] = 1
        for v in edges[u]:
            if color.get(v) == 1:
                return True
            if v not in color and dfs(v):
                return True
        color[u] = 2
        return False

    for f in comp:
        if f not in color and dfs(f):
            return None
    return "recursion only through serde's Deserializer callbacks (recursion limit of serde_json, A3)" if via_serde else None


WALKER_TRAITS = (
    "haystack::encoding::zinc::encode::ToZinc",
    "haystack::encoding::zinc::encode::ZincEncode",
    "serde::Serialize",
    "std::fmt::Display",
    "std::fmt::Debug",
    "std::clone::Clone",
    "std::cmp::PartialEq",
    "std::cmp::PartialOrd",
    "std::cmp::Ord",
    "std::cmp::Eq",
    "std::hash::Hash",
    "std::ops::Drop",
    "haystack::filter::eval::Eval",
)


def is_value_walker(prog, f):
    b = prog.bodies[f]
    im = b.rec.get("impl") or {}
    if im.get("trait") in WALKER_TRAITS:
        return True
    if b.rec["kind"] == "Closure":
        root = prog.bodies.get(b.rec.get("root"))
        if root is not None:
            return is_value_walker(prog, root.id)
    sh = b.short
    return sh.endswith(("encode::write_dict_tags", "ToZinc::to_zinc_string", "encode::to_zinc_string", "dict::dict_to_dis", "dis_macro::dis_macro", "HaystackDict>::dis"))


INPUT_TYPES = ("decode::scanner::Scanner", "decode::lexer::Lexer", "filter::lexer::Lexer", "decode::parser::Parser", "filter::parser::Parser", "serde::Deserializer", "serde::de::")


def consumes_input(prog, f):
    b = prog.bodies[f]
    sig = " ".join(b.rec.get("sig_inputs", []))
    if any(t in sig for t in INPUT_TYPES):
        return True
    im = b.rec.get("impl") or {}
    return im.get("trait") in ("serde::de::Visitor", "serde::Deserialize")


STRICT_CALLS = ("::next", "::get", "::first", "::last", "::index", "::get_mut", "::pop", "::next_back", "::nth", "::find")
PASS_CALLS = ("::iter", "::deref", "::as_ref", "::as_mut", "::into_iter", "::enumerate", "::borrow", "::values", "::keys", "::as_slice", "::as_str",
              "::deref_mut", "::iter_mut", "::rev", "::skip", "::take", "::peekable", "::by_ref", "::as_deref", "::unwrap", "::expect", "::copied", "::cloned")


def origins(body, op, depth=40):
    """{(slot local, strict)}: parameters of `body` the operand's value is (a sub-part of); None if unknown"""
    from vlib.mir import op_place, op_const

    if op_const(op) is not None:
        return set()
    pl = op_place(op)
    if pl is None:
        return None
    return _origins_place(body, pl, depth)


def _origins_place(body, pl, depth):
    from vlib.mir import op_place, op_const

    strict = any(x != "*" for x in pl["p"])
    l = pl["l"]
    if 0 < l <= body.arg_count:
        return {(l, strict)}
    if depth <= 0:
        return None
    ds = body.defs().get(l, [])
    if not ds:
        return None
    out = set()
    for bi, si, rv in ds:
        if si == "term":
            c = callee_of(rv)
            nm = strip_generics(c.get("res") or c["fn"]) if c else ""
            if not rv["args"]:
                continue  # nullary constructor (Dict::new(), Default::default()): a constant of bounded size
            if nm.endswith(STRICT_CALLS):
                r = origins(body, rv["args"][0], depth - 1) if rv["args"] else None
                if r is None:
                    return None
                out |= {(x, True) for x, _ in r}
            elif nm.endswith(PASS_CALLS):
                r = origins(body, rv["args"][0], depth - 1) if rv["args"] else None
                if r is None:
                    return None
                out |= {(x, st or strict) for x, st in r}
            else:
                return None
        else:
            k = rv["k"]
            if k == "use" or k == "cast":
                r = origins(body, rv["op"], depth - 1)
            elif k in ("ref", "rawptr"):
                r = _origins_place(body, rv["place"], depth - 1)
            elif k == "agg" and rv.get("ak") in ("tuple",):
                r = set()
                for o in rv["ops"]:
                    x = origins(body, o, depth - 1)
                    if x is None:
                        return None
                    r |= x
            else:
                return None
            if r is None:
                return None
            out |= {(x, st or strict) for x, st in r}
    return out


def same_self_cycle(prog, comp):
    """Structural-descent certificate (a simplified size-change argument). Each function of the SCC gets one
    'walked' slot (a parameter; for closures also a captured variable); along every call edge of the SCC the value
    handed to the callee's walked slot must be the caller's walked slot itself ('=') or a strict sub-part of it ('<':
    a field, a variant payload, an element produced by next/get/index). The '=' edges must not form a cycle.
    Returns an offending cycle / edge list, or None when a consistent assignment exists."""
    from rules import guards as G
    import itertools

    compset = set(comp)
    bodies = {f: prog.bodies[f] for f in comp}

    def slots(f):
        b = bodies[f]
        return list(range(1, b.arg_count + 1))

    # closure upvar -> parent operand
    def closure_info(f):
        b = bodies[f]
        if b.rec["kind"] != "Closure":
            return None
        par = prog.bodies.get(b.rec.get("parent"))
        if par is None:
            return None
        for bi, blk in enumerate(par.blocks):
            for st in blk["stmts"]:
                if st["k"] == "assign" and st["rv"]["k"] == "agg" and st["rv"].get("closure") == f:
                    return par, st["rv"]["ops"], st["lhs"]["l"]
        return None

    # edges: (f, g, rel) where rel: dict (wf, wg) -> '=' | '<'
    edges = []
    for f in comp:
        body = bodies[f]
        for bi, t, tg, cb in prog.call_sites(f):
            for g in (tg & compset):
                rel = {}
                gb = bodies[g]
                for j, a in enumerate(t["args"]):
                    wg = j + 1
                    if wg > gb.arg_count:
                        continue
                    org = origins(body, a)
                    if org is None:
                        continue
                    for (wf, strict) in org:
                        rel[(wf, wg)] = "<" if strict else "="
                edges.append((f, g, rel, "call"))
            for g in (cb & compset) - tg:
                # callback through an external generic function: callee walks its first slot (self / the element)
                rel = {}
                gb = bodies[g]
                wgs = [1] if gb.rec["kind"] != "Closure" else list(range(2, gb.arg_count + 1))
                allorg = []
                known = True
                for a, aty in zip(t["args"], t.get("arg_tys", [])):
                    org = origins(body, a)
                    if org is None:
                        if "haystack::" in aty or "c_api::" in aty:
                            # a crate value of unknown provenance is handed to the callee: no descent can be claimed
                            if not ("{closure" in aty):
                                known = False
                        continue
                    allorg.append(org)
                if not known:
                    edges.append((f, g, {}, "callback"))
                    continue
                if allorg and all(not o for o in allorg):
                    # only constants (freshly built, bounded values) are passed on
                    rel = {(wf, wg): "<" for wf in slots(f) for wg in wgs}
                    edges.append((f, g, rel, "callback"))
                    continue
                c = callee_of(t)
                nm = strip_generics(c.get("res") or c["fn"]) if c else ""
                elementwise = gb.rec["kind"] == "Closure" or not nm.endswith(("::to_string", "std::fmt::format", "::write_fmt", "::new_display", "::new_debug", "::into", "::from", "::clone", "::to_owned"))
                for org in allorg:
                    for (wf, strict) in org:
                        for wg in wgs:
                            r = "<" if (strict or elementwise) else "="
                            if rel.get((wf, wg)) != "=":
                                rel[(wf, wg)] = r if (wf, wg) not in rel or r == "=" else rel[(wf, wg)]
                edges.append((f, g, rel, "callback"))
        for cid in prog.closures_of.get(f, []):
            if cid in compset:
                # the closure runs on behalf of f: its captured variables are f's values
                ci = closure_info(cid)
                rel = {}
                if ci:
                    par, ops, _ = ci
                    # closure slot 1 is the environment; model: walked slot of a closure is one of its own params (>=2),
                    # related to the parent through the adaptor call (callback edge above). The creation edge carries '='
                    # on nothing; it is not a call.
                continue
    # CSP over walked slots
    funcs = list(comp)
    dom = {f: slots(f) for f in funcs}
    for f in funcs:
        if bodies[f].rec["kind"] == "Closure":
            dom[f] = [x for x in dom[f] if x >= 2] or dom[f]
    if any(not dom[f] for f in funcs):
        return [f for f in funcs if not dom[f]][:1] * 2
    out_edges = {}
    for f, g, rel, kind in edges:
        out_edges.setdefault(f, []).append((g, rel, kind))
    order = sorted(funcs, key=lambda f: len(dom[f]))
    assign = {}
    best_fail = [None]

    def consistent(f):
        for (a, b, rel, kind) in edges:
            if a in assign and b in assign and (a == f or b == f):
                if (assign[a], assign[b]) not in rel:
                    best_fail[0] = [a, b]
                    return False
        return True

    def eq_cycle():
        eq = {f: set() for f in funcs}
        for (a, b, rel, kind) in edges:
            if rel.get((assign[a], assign[b])) == "=":
                eq[a].add(b)
        color = {}
        stack = []

        def dfs(u):
            color[u] = 1
            stack.append(u)
            for v in sorted(eq[u]):
                if color.get(v) == 1:
                    return stack[stack.index(v):] + [v]
                if v not in color:
                    r = dfs(v)
                    if r:
                        return r
            stack.pop()
            color[u] = 2
            return None

        for f in funcs:
            if f not in color:
                r = dfs(f)
                if r:
                    return r
        return None

    steps = [0]

    def solve(i):
        steps[0] += 1
        if steps[0] > 200000:
            return False
        if i == len(order):
            cyc = eq_cycle()
            if cyc:
                best_fail[0] = cyc
                return False
            return True
        f = order[i]
        for w in dom[f]:
            assign[f] = w
            if consistent(f) and solve(i + 1):
                return True
            del assign[f]
        return False

    if solve(0):
        return None
    return best_fail[0] or funcs[:2]


def _old_same_self_cycle(prog, comp):

    """edges f -> g (both in comp) where f hands its own first parameter (or a whole captured variable) to g
    unchanged; returns a cycle of such edges, or None. A cycle of the SCC that has no such sub-cycle passes at
    least one call whose receiver is a strict sub-part (field, element), so it terminates on finite data."""
    from rules import guards as G
    import re

    compset = set(comp)
    edges = {f: set() for f in comp}
    for f in comp:
        body = prog.bodies[f]
        is_closure = body.rec["kind"] == "Closure"
        self_upvars = set()
        if is_closure:
            # upvars that hold the enclosing function's own first parameter
            par = prog.bodies.get(body.rec.get("parent"))
            if par is not None:
                for blk in par.blocks:
                    for st in blk["stmts"]:
                        if st["k"] == "assign" and st["rv"]["k"] == "agg" and st["rv"].get("closure") == f:
                            for k, o in enumerate(st["rv"]["ops"]):
                                if re.fullmatch(r"_1\**", repr(G.describe(par, o))):
                                    self_upvars.add(k)
        for bi, t, tg, cb in prog.call_sites(f):
            hit = (tg | cb) & compset
            if not hit:
                continue
            whole = False
            for a in t["args"]:
                r = repr(G.describe(body, a))
                if not is_closure and re.fullmatch(r"_1\**", r):
                    whole = True
                m = re.fullmatch(r"_1\*?\.(\d+)\**", r) if is_closure else None
                if m and int(m.group(1)) in self_upvars:
                    whole = True
            if whole:
                edges[f] |= hit
        for cid in prog.closures_of.get(f, []):
            if cid in compset:
                edges[f].add(cid)
    # find a cycle
    color = {}
    stack = []

    def dfs(u):
        color[u] = 1
        stack.append(u)
        for v in sorted(edges[u]):
            if color.get(v) == 1:
                return stack[stack.index(v):] + [v]
            if v not in color:
                r = dfs(v)
                if r:
                    return r
        stack.pop()
        color[u] = 2
        return None

    for f in comp:
        if f not in color:
            r = dfs(f)
            if r:
                return r
    return None


def check_guard_balance(ctx, rep):
    """a depth counter used as a recursion guard must be restored on every path (incremented once, decremented once,
    balanced), otherwise it degrades into a global budget: long but shallow inputs are rejected as 'too deep'"""
    from rules import guards as G
    from rules import panic as P
    from vlib.dataflow import must_pass

    prog = ctx.prog
    pr = P.PanicRule(ctx)
    fw = pr.field_writes()
    n = 0
    for (adt, fld), ws in sorted(fw.items()):
        if "depth" not in fld:
            continue
        if not adt.startswith("haystack::"):
            continue
        incs, decs, other = [], [], []
        for wb, rv, bi in ws:
            if rv["k"] != "use":
                other.append(wb)
                continue
            c = mir.op_const(rv["op"])
            if c is not None:
                continue
            p2 = mir.op_place(rv["op"])
            sd = wb.single_def(p2["l"]) if p2 is not None and len(p2["p"]) == 1 else None
            if sd and sd[1] != "term" and sd[2]["k"] == "binop":
                y = G.describe(wb, sd[2]["b"])
                if y.kind == "const" and y.v == 1 and sd[2]["op"].startswith("Add"):
                    incs.append((wb, bi))
                    continue
                if y.kind == "const" and y.v == 1 and sd[2]["op"].startswith("Sub"):
                    decs.append((wb, bi))
                    continue
            other.append(wb)
        n += 1
        key = "depth-counter-balanced:%s.%s" % (adt.split("::")[-1], fld)
        where = incs[0][0].where(incs[0][1]) if incs else "-"
        if other:
            rep.bad("R-REC", "R-REC:" + key, where, "depth counter %s.%s is written by something other than +1 / -1 (%s)" % (adt, fld, other[0].short))
            continue
        if not incs:
            continue
        ok = True
        why = ""
        for wb, ib in incs:
            mine = [bi for (b2, bi) in decs if b2.id == wb.id]
            if not mine:
                ok, why = False, "%s increments it but never decrements it" % wb.short.split("::")[-1]
                break
            for r in [i for i, blk in enumerate(wb.blocks) if blk["term"]["k"] == "return"]:
                good, path = must_pass(wb, [ib], r, mine)
                if not good:
                    ok, why = False, "%s can return between += 1 and -= 1 (blocks %s)" % (wb.short.split("::")[-1], path)
                    break
        if ok:
            rep.ok("R-REC", key, where, "every increment is followed by a decrement on all paths of the same function")
        else:
            rep.bad("R-REC", "R-REC:" + key, where, "depth counter %s.%s is not restored: %s; it then counts groups instead of nesting depth and rejects well-formed long inputs" % (adt.split("::")[-1], fld, why))
    return n
