"""R-FFI: the extern "C" boundary (DESIGN 2.5): N1 null-before-use, N2 null is reported, N3 ownership pairing,
R-ERR error discipline, kind delegation."""
import re

from rules import guards as G
from vlib import mir
from vlib.dataflow import forward
from vlib.mir import callee_of, op_const, op_place, strip_generics

EXEMPT_NULL = ("haystack_value_destroy", "haystack_string_destroy")
ERR_FNS = ("c_api::err::new_error", "c_api::err::update_last_error")
PTR_OK = (
    "std::ptr::const_ptr::<impl *const T>::is_null",
    "std::ptr::mut_ptr::<impl *mut T>::is_null",
    "std::ptr::const_ptr::<impl *const T>::as_ref",
    "std::ptr::mut_ptr::<impl *mut T>::as_ref",
    "std::ptr::mut_ptr::<impl *mut T>::as_mut",
)
IS_NULL = (PTR_OK[0], PTR_OK[1])
AS_REF = PTR_OK[2:]
NON_ERROR_SENTINELS = {
    "haystack_value_get_number_unit": "null also means 'the number has no unit' (documented)",
    "haystack_value_get_ref_dis": "null also means 'the ref has no display name' (documented)",
    "last_error_message": "the error channel itself: null means 'no pending error'",
}


def ptr_params(body):
    out = []
    for i, ty in enumerate(body.rec.get("sig_inputs", [])):
        if ty.startswith("*const") or ty.startswith("*mut"):
            out.append((i + 1, ty))
    return out


def aliases_of(body, p):
    """locals that hold (a copy / pointer cast of) parameter p"""
    al = {p}
    changed = True
    while changed:
        changed = False
        for l, ds in body.defs().items():
            if l in al or len(ds) != 1 or ds[0][1] == "term":
                continue
            rv = ds[0][2]
            src = None
            if rv["k"] == "use":
                src = op_place(rv["op"])
            elif rv["k"] == "cast" and rv["ck"] in ("PtrToPtr", "Transmute") or rv["k"] == "cast" and rv["ck"].startswith("PointerCoercion"):
                src = op_place(rv["op"])
            if src is not None and not src["p"] and src["l"] in al:
                al.add(l)
                changed = True
    return al


def nonnull_facts(body, params):
    """must-dataflow: set of pointer params known non-null at block entry"""
    alias = {p: aliases_of(body, p) for p, _ in params}
    owner = {}
    for p, al in alias.items():
        for l in al:
            owner[l] = p

    def arg_param(op):
        pl = op_place(op)
        if pl is not None and not pl["p"]:
            return owner.get(pl["l"])
        return None

    # locals holding the bool of is_null(p) / the Option of as_ref(p)
    isnull = {}
    asref = {}
    for bi, t in body.calls():
        nm = strip_generics(mir.callee_name(t) or "")
        if nm in IS_NULL and t["args"]:
            p = arg_param(t["args"][0])
            if p is not None and not t["dest"]["p"]:
                isnull[t["dest"]["l"]] = p
        if nm in AS_REF and t["args"]:
            p = arg_param(t["args"][0])
            if p is not None and not t["dest"]["p"]:
                asref[t["dest"]["l"]] = p

    def transfer(b, facts):
        t = body.term(b)
        if t["k"] != "switch":
            return frozenset(facts)
        pl = op_place(t["op"])
        if pl is None or pl["p"]:
            return frozenset(facts)
        l = pl["l"]
        outs = {}
        succs = body.succ(b)
        for s in succs:
            outs[s] = frozenset(facts)
        p = None
        # switch directly on the is_null bool (possibly through one move)
        src = l
        sd = body.single_def(l)
        if sd and sd[1] != "term" and sd[2]["k"] == "use":
            sp = op_place(sd[2]["op"])
            if sp is not None and not sp["p"]:
                src = sp["l"]
        if src in isnull:
            p = isnull[src]
            for val, tb in t["targets"]:
                if int(val) == 0:
                    outs[tb] = frozenset(set(facts) | {p})
            vals = {int(v) for v, _ in t["targets"]}
            if 0 not in vals:
                outs[t["otherwise"]] = frozenset(set(facts) | {p})
        elif sd and sd[1] != "term" and sd[2]["k"] == "discr":
            dp = sd[2]["place"]
            if not dp["p"] and dp["l"] in asref:
                p = asref[dp["l"]]
                for val, tb in t["targets"]:
                    if int(val) == 1:
                        outs[tb] = frozenset(set(facts) | {p})
                vals = {int(v) for v, _ in t["targets"]}
                if 1 not in vals and 0 in vals:
                    outs[t["otherwise"]] = frozenset(set(facts) | {p})
        return outs

    IN = forward(body, frozenset(), transfer, must=True)
    return IN, alias, owner, isnull, asref


def null_arms(body, params):
    """[(param, block)]: blocks entered exactly when the pointer param is known null (true edge of is_null, None edge
    of as_ref/as_mut)"""
    IN, alias, owner, isnull, asref = nonnull_facts(body, params)
    out = []
    for b in range(body.n):
        t = body.term(b)
        if t["k"] != "switch":
            continue
        pl = op_place(t["op"])
        if pl is None or pl["p"]:
            continue
        l = pl["l"]
        src = l
        sd = body.single_def(l)
        if sd and sd[1] != "term" and sd[2]["k"] == "use":
            sp = op_place(sd[2]["op"])
            if sp is not None and not sp["p"]:
                src = sp["l"]
        if src in isnull:
            vals = {int(v): tb for v, tb in t["targets"]}
            tb = vals.get(1, t["otherwise"] if 0 in vals else None)
            if tb is not None:
                out.append((isnull[src], tb))
        elif sd and sd[1] != "term" and sd[2]["k"] == "discr":
            dp = sd[2]["place"]
            if not dp["p"] and dp["l"] in asref:
                vals = {int(v): tb for v, tb in t["targets"]}
                tb = vals.get(0, t["otherwise"] if 1 in vals else None)
                if tb is not None:
                    out.append((asref[dp["l"]], tb))
    return out


def n1_uses(prog, body, params, depth=0):
    """[(param, block, description)] of uses of a pointer parameter that need it non-null but are not dominated by a
    null test"""
    IN, alias, owner, isnull, asref = nonnull_facts(body, params)
    bad = []
    n_checked = 0
    for b in body.reachable():
        blk = body.blocks[b]
        if blk.get("cleanup"):
            continue
        facts = IN.get(b, frozenset())

        def need(p, what, line=None):
            nonlocal n_checked
            n_checked += 1
            if p not in facts:
                bad.append((p, b, what, line))

        for st in blk["stmts"]:
            if st["k"] != "assign":
                continue
            rv = st["rv"]
            # deref of an alias anywhere
            places = [st["lhs"]]
            if rv["k"] in ("ref", "rawptr", "discr"):
                places.append(rv["place"])
            ops = []
            if rv["k"] in ("use", "cast", "repeat"):
                ops.append(rv["op"])
            elif rv["k"] == "binop":
                ops += [rv["a"], rv["b"]]
            elif rv["k"] == "unop":
                ops.append(rv["a"])
            elif rv["k"] == "agg":
                ops += rv["ops"]
            for o in ops:
                pl = op_place(o)
                if pl is not None:
                    places.append(pl)
            for pl in places:
                if pl["l"] in owner and "*" in pl["p"]:
                    need(owner[pl["l"]], "dereference", st.get("line"))
            if rv["k"] == "agg":
                for o in rv["ops"]:
                    pl = op_place(o)
                    if pl is not None and not pl["p"] and pl["l"] in owner:
                        need(owner[pl["l"]], "stored into %s without a null test" % (rv.get("ak")), st.get("line"))
        t = blk["term"]
        if t["k"] == "call":
            nm = strip_generics(mir.callee_name(t) or "?")
            for j, a in enumerate(t["args"]):
                pl = op_place(a)
                if pl is None or pl["l"] not in owner:
                    continue
                if "*" in pl["p"]:
                    need(owner[pl["l"]], "dereference in call argument", t.get("line"))
                    continue
                if pl["p"]:
                    continue
                p = owner[pl["l"]]
                if nm in PTR_OK:
                    n_checked += 1
                    continue
                res = mir.callee_name(t)
                if res in prog.bodies and depth < 3:
                    cb = prog.bodies[res]
                    cparams = [(j + 1, ty) for (i, ty) in ptr_params(cb) if i == j + 1]
                    if cparams:
                        sub, _n = n1_uses(prog, cb, cparams, depth + 1)
                        n_checked += 1
                        if sub and p not in facts:
                            bad.append((p, b, "forwarded to %s, which uses it unchecked (%s)" % (strip_generics(res), sub[0][2]), t.get("line")))
                        continue
                need(p, "passed to %s" % nm, t.get("line"))
    return bad, n_checked


# ---------------------------------------------------------------------- R-ERR


def sentinel_kind(ret_ty):
    if ret_ty.startswith("std::option::Option<std::boxed::Box<"):
        return "none"
    if ret_ty in ("*const i8", "*mut i8", "*const u8"):
        return "null"
    if ret_ty == "c_api::ResultType":
        return "ERR"
    if ret_ty == "usize":
        return "usize::MAX"
    if ret_ty == "u32":
        return "u32::MAX"
    if ret_ty == "f64":
        return "NaN"
    return None


def is_sentinel_value(body, kind, rv_or_term, is_term):
    if is_term:
        nm = strip_generics(mir.callee_name(rv_or_term) or "")
        return kind == "null" and nm in ("std::ptr::null", "std::ptr::null_mut")
    rv = rv_or_term
    if rv["k"] == "agg":
        if kind == "none" and rv.get("adt") == "std::option::Option" and rv.get("variant") == "None":
            return True
        if kind == "ERR" and rv.get("adt") == "c_api::ResultType" and rv.get("variant") == "ERR":
            return True
        return False
    if rv["k"] in ("use", "cast"):
        v = G.describe(body, rv["op"])
        if kind == "usize::MAX":
            return v.kind == "const" and v.v == (1 << 64) - 1
        if kind == "u32::MAX":
            return v.kind == "const" and v.v == (1 << 32) - 1
        if kind == "NaN":
            c = op_const(rv["op"])
            return c is not None and c.get("float") == "NaN"
        if kind == "null":
            return (v.kind == "call" and v.v in ("std::ptr::null", "std::ptr::null_mut")) or (v.kind == "const" and v.v == 0)
        if kind == "none":
            return v.kind == "agg" and v.v == "None"
        if kind == "ERR":
            return v.kind == "agg" and v.v == "ERR"
    return False


def err_facts(body):
    def transfer(b, facts):
        t = body.term(b)
        if t["k"] == "call":
            nm = strip_generics(mir.callee_name(t) or "")
            if nm in ERR_FNS:
                return frozenset(set(facts) | {"err"})
        return frozenset(facts)

    return forward(body, frozenset(), transfer, must=True)


def err_blocks(body):
    return [b for b, t in body.calls() if strip_generics(mir.callee_name(t) or "") in ERR_FNS]


def all_paths_hit(body, start, hits):
    """every path from `start` (inclusive) to a return passes a block in `hits`"""
    hits = set(hits)
    if start in hits:
        return True, None
    seen = {start}
    st = [(start, [start])]
    while st:
        b, path = st.pop()
        if body.term(b)["k"] == "return":
            return False, path
        for n in body.succ(b):
            if n in hits or n in seen:
                continue
            seen.add(n)
            st.append((n, path + [n]))
    return True, None


def check_errors(ctx, rep):
    prog = ctx.prog
    from rules import entries

    E = entries.extern_c(prog)
    n_ret = 0
    for f in E:
        body = prog.bodies[f]
        name = body.rec["name"]
        kind = sentinel_kind(body.rec.get("sig_output", ""))
        IN = err_facts(body)
        if kind:
            k = 0
            for bi, si, rv in body.defs().get(0, []):
                n_ret += 1
                is_term = si == "term"
                if not is_sentinel_value(body, kind, rv, is_term):
                    continue
                key = "%s:sentinel-return#%d" % (name, k)
                k += 1
                facts = IN.get(bi, frozenset())
                where = body.where(bi)
                if "err" in facts:
                    rep.ok("R-ERR", key, where, "sentinel %s returned only after new_error/update_last_error on every path" % kind)
                elif name in NON_ERROR_SENTINELS:
                    rep.ok("R-ERR", key, where, "table:" + NON_ERROR_SENTINELS[name])
                else:
                    rep.bad("R-ERR", "R-ERR:" + key, where, "%s returns its failure sentinel (%s) on a path that records no error message: the caller cannot tell what failed" % (name, kind))
        # N2: null arguments are reported
        if name in EXEMPT_NULL:
            continue
        params = ptr_params(body)
        if not params:
            continue
        eb = err_blocks(body)
        arms = null_arms(body, params)
        seen = set()
        for p, tb in arms:
            key = "%s:null-arm:arg%d:bb-ord%d" % (name, p, len([1 for q, _ in seen if q == p]))
            seen.add((p, tb))
            ok, path = all_paths_hit(body, tb, eb)
            if ok:
                rep.ok("R-ERR", key, body.where(tb), "N2: every path from the null arm records an error before returning")
            else:
                rep.bad("R-ERR", "R-ERR:" + key, body.where(tb), "N2: %s: null argument %d leads to a return without recording an error (path %s)" % (name, p, path))
    return n_ret


# ---------------------------------------------------------------------- N1 driver


def check_null_before_use(ctx, rep):
    prog = ctx.prog
    from rules import entries

    E = entries.extern_c(prog)
    nparams = 0
    nfuncs = 0
    for f in E:
        body = prog.bodies[f]
        name = body.rec["name"]
        params = ptr_params(body)
        if not params:
            continue
        nfuncs += 1
        nparams += len(params)
        if name in EXEMPT_NULL:
            rep.ok("R-FFI-N1", "%s:exempt" % name, body.where(), "destroy function: null tolerance not required by the property")
            continue
        bad, n = n1_uses(prog, body, params)
        badp = {}
        for p, b, what, line in bad:
            badp.setdefault(p, []).append((b, what, line))
        for p, ty in params:
            key = "%s:arg%d" % (name, p)
            if p in badp:
                b, what, line = badp[p][0]
                rep.bad("R-FFI-N1", "R-FFI-N1:" + key, body.where(b, line), "pointer argument %d (%s) of %s is used before any null test: %s" % (p, ty, name, what))
            else:
                rep.ok("R-FFI-N1", key, body.where(), "every use of the pointer is is_null/as_ref/as_mut or dominated by a passed null test")
    return nfuncs, nparams


# ---------------------------------------------------------------------- N3 ownership


def check_ownership(ctx, rep):
    prog = ctx.prog
    from rules import entries

    E = entries.extern_c(prog)
    owned_types = {}
    for f in E:
        body = prog.bodies[f]
        m = re.match(r"^(?:std::option::Option<)?std::boxed::Box<(.+?)>+$", body.rec.get("sig_output", ""))
        if m:
            owned_types.setdefault(m.group(1).rstrip(">"), []).append(body)
    destroyers = {}
    capi = [b for b in prog.bodies.values() if b.file.startswith("src/c_api/")]
    n = 0
    for b in capi:
        for bi, t in b.calls():
            c = callee_of(t)
            if c is None:
                continue
            nm = strip_generics(c.get("res") or c["fn"])
            root = prog.bodies.get(b.rec.get("root", b.id), b)
            rname = root.rec.get("name", "")
            if nm == "std::boxed::Box::from_raw":
                n += 1
                ty = [x for x in c.get("targs", []) if not x.startswith("'")]
                ty = ty[0] if ty else "?"
                if rname == "haystack_value_destroy":
                    destroyers.setdefault(ty, []).append(rname)
                    rep.ok("R-FFI-N3", "from_raw:Box:%s" % rname, b.where(bi), "ownership of a Box<%s> is reconstructed only in the destroy function" % ty)
                elif rname.endswith("_destroy"):
                    destroyers.setdefault(ty, []).append(rname)
                    rep.ok("R-FFI-N3", "from_raw:Box:%s" % rname, b.where(bi), "destroy function for Box<%s>" % ty)
                else:
                    rep.bad("R-FFI-N3", "R-FFI-N3:from_raw:Box:%s" % b.short, b.where(bi), "Box::from_raw outside a destroy function: the handle would be freed while the caller still owns it (double free)")
            elif nm == "std::ffi::CString::from_raw":
                n += 1
                if rname == "haystack_string_destroy":
                    rep.ok("R-FFI-N3", "from_raw:CString:%s" % rname, b.where(bi), "CString ownership reconstructed only in haystack_string_destroy")
                else:
                    rep.bad("R-FFI-N3", "R-FFI-N3:from_raw:CString:%s" % b.short, b.where(bi), "CString::from_raw outside haystack_string_destroy")
            elif nm in ("std::boxed::Box::leak", "std::mem::forget", "std::mem::ManuallyDrop::new", "std::boxed::Box::into_raw", "std::vec::Vec::leak", "std::string::String::leak"):
                n += 1
                rep.bad("R-FFI-N3", "R-FFI-N3:leak:%s:%s" % (b.short, nm.split("::")[-1]), b.where(bi), "%s in the C API: memory that no destroy function can reclaim" % nm)
            elif nm == "std::ffi::CString::into_raw":
                n += 1
                # the raw pointer must be what the function returns
                dl = t["dest"]["l"]
                flows = False
                for bi2, si, rv in _flow_defs(b, 0):
                    if si == "term":
                        flows = flows or (bi2 == bi)
                    else:
                        v = op_place(rv.get("op")) if rv["k"] in ("use", "cast") else None
                        if v is not None and v["l"] == dl:
                            flows = True
                        if rv["k"] in ("use", "cast") and "into_raw" in repr(G.describe(b, rv["op"])):
                            flows = True
                key = "into_raw:%s#%d" % (b.short, bi)
                if flows or t["dest"]["l"] == 0:
                    rep.ok("R-FFI-N3", "into_raw:%s" % b.short, b.where(bi), "CString::into_raw result is the function's return value (freed by haystack_string_destroy)")
                else:
                    rep.bad("R-FFI-N3", "R-FFI-N3:into_raw:%s" % b.short, b.where(bi), "CString::into_raw result does not reach the return value: leaked")
    for ty, bodies in sorted(owned_types.items()):
        key = "owned-handle:%s" % ty
        if ty in destroyers or any(ty in k or k in ty for k in destroyers):
            rep.ok("R-FFI-N3", key, bodies[0].where(), "%d function(s) return an owning Box<%s>; destroy function: %s" % (len(bodies), ty, ",".join(sorted(set(sum(destroyers.values(), []))))))
        else:
            rep.bad("R-FFI-N3", "R-FFI-N3:" + key, bodies[0].where(), "%s returns an owning Box<%s> but no exported function reconstructs ownership of that type: every such handle leaks" % (bodies[0].rec["name"], ty))
    return n, len(owned_types)


# ---------------------------------------------------------------------- kind delegation (C17)

KINDS = ["null", "marker", "remove", "na", "bool", "number", "str", "ref", "uri", "symbol", "date", "time", "datetime", "coord", "xstr", "list", "dict", "grid"]


def check_kind_delegation(ctx, rep):
    prog = ctx.prog
    from rules import entries

    VAL = "haystack::val::value::Value"
    adt = prog.adts.get(VAL)
    variants = {int(v["discr"]): v["name"] for v in adt["variants"]} if adt else {}
    n = 0
    for f in entries.extern_c(prog):
        body = prog.bodies[f]
        name = body.rec["name"]
        m = re.match(r"^haystack_value_(is|get|make)_([a-z]+?)(?:_|$)", name)
        if not m:
            continue
        verb, kind = m.group(1), m.group(2)
        if kind not in KINDS:
            continue
        n += 1
        key = "%s:kind=%s" % (name, kind)
        calls = [strip_generics(mir.callee_name(t) or "") for _, t in body.calls()]
        for cid in prog.closures_of.get(f, []):
            calls += [strip_generics(mir.callee_name(t) or "") for _, t in prog.bodies[cid].calls()]
        if verb == "is":
            preds = [c for c in calls if c.startswith(VAL + "::is_")]
            if preds == [VAL + "::is_" + kind]:
                rep.ok("R-KIND", key, body.where(), "delegates to Value::is_%s only" % kind)
            else:
                rep.bad("R-KIND", "R-KIND:" + key, body.where(), "%s should delegate to Value::is_%s but calls %s" % (name, kind, preds or "no kind predicate"))
        elif verb == "get":
            matched = set()
            for b in range(body.n):
                t = body.term(b)
                if t["k"] != "switch":
                    continue
                v = G.describe(body, t["op"])
                if v.kind == "discr":
                    pl = op_place(t["op"])
                    sd = body.single_def(pl["l"]) if pl and not pl["p"] else None
                    if sd and sd[1] != "term" and sd[2]["k"] == "discr" and sd[2].get("adt") == VAL:
                        for val, tb in t["targets"]:
                            matched.add(variants.get(int(val), "?"))
            want = {x for x in variants.values() if x.lower() == kind}
            if matched and matched == want:
                rep.ok("R-KIND", key, body.where(), "matches on Value::%s only" % "/".join(sorted(matched)))
            elif not matched:
                rep.bad("R-KIND", "R-KIND:" + key, body.where(), "%s does not match on the value's kind at all" % name)
            else:
                rep.bad("R-KIND", "R-KIND:" + key, body.where(), "%s should read a %s but matches on Value::%s" % (name, kind, "/".join(sorted(matched))))
        else:
            made = set()
            for blk in body.blocks:
                for st in blk["stmts"]:
                    if st["k"] == "assign" and st["rv"]["k"] == "agg" and st["rv"].get("adt") == VAL:
                        made.add(st["rv"]["variant"].lower())
            for c in calls:
                mm = re.match(re.escape(VAL) + r"::make_([a-z]+)", c)
                if mm:
                    made.add(mm.group(1))
                mm = re.match(r"^<" + re.escape(VAL) + r" as std::convert::From>::from$", c)
            made_norm = set()
            for x in made:
                for k in KINDS:
                    if x == k or x.startswith(k + "_") or (k == "bool" and x in ("true", "false")) or (k == "datetime" and x.startswith("datetime")) or (k == "number" and x.startswith("number")):
                        made_norm.add(k)
            if kind in made_norm and made_norm <= {kind}:
                rep.ok("R-KIND", key, body.where(), "constructs Value::%s" % kind)
            elif not made_norm:
                rep.ok("R-KIND", key, body.where(), "construction through a conversion (not classified)")
            else:
                rep.bad("R-KIND", "R-KIND:" + key, body.where(), "%s should build a %s but builds %s" % (name, kind, sorted(made_norm)))
    return n


# ---------------------------------------------------------------------- N5 unsafe-call whitelist

UNSAFE_ALLOWED = {
    "std::ptr::const_ptr::<impl *const T>::as_ref": "null-checked conversion to Option<&T>",
    "std::ptr::mut_ptr::<impl *mut T>::as_ref": "null-checked conversion to Option<&T>",
    "std::ptr::mut_ptr::<impl *mut T>::as_mut": "null-checked conversion to Option<&mut T>",
    "std::ffi::CStr::from_ptr": "read a caller-supplied C string (N1 requires the null test)",
    "std::boxed::Box::from_raw": "destroy functions only (N3)",
    "std::ffi::CString::from_raw": "haystack_string_destroy only (N3)",
    "std::fmt::Arguments::new": "format_args! expansion",
    "std::thread::local_impl::LazyStorage::get_or_init": "thread_local! expansion",
}


def check_unsafe_calls(ctx, rep):
    """every call to an `unsafe fn` from the C API is one of the audited primitives or a forward to another extern fn:
    raw writes (ptr::write), unchecked constructors (from_vec_unchecked, from_utf8_unchecked, from_raw_parts,
    get_unchecked, transmute) bypass the checks the memory-safety argument relies on"""
    prog = ctx.prog
    n = 0
    for b in prog.bodies.values():
        if not b.file.startswith("src/c_api/"):
            continue
        seen = {}
        for bi, t in b.calls():
            c = callee_of(t)
            if c is None:
                continue
            head = c["ty"].split("fn(")[0]
            if "unsafe" not in head:
                continue
            n += 1
            nm = strip_generics(c.get("res") or c["fn"])
            k = seen.get(nm, 0)
            seen[nm] = k + 1
            key = "N5:%s:%s#%d" % (b.short, nm, k)
            res = c.get("res")
            if nm in UNSAFE_ALLOWED:
                rep.ok("R-FFI-N5", key, b.where(bi), "audited primitive: " + UNSAFE_ALLOWED[nm])
            elif res in prog.bodies and prog.bodies[res].rec.get("abi", "").startswith("C"):
                rep.ok("R-FFI-N5", key, b.where(bi), "forwards to another extern \"C\" function (checked on its own)")
            else:
                rep.bad("R-FFI-N5", "R-FFI-N5:%s:%s" % (b.short, nm), b.where(bi), "call to unsafe fn %s from the C API is not on the audited list: it bypasses the null / ownership / validity checks the memory-safety argument rests on" % nm)
    # transmutes and raw-pointer writes done without a call
    for b in prog.bodies.values():
        if not b.file.startswith("src/c_api/"):
            continue
        for bi, blk in enumerate(b.blocks):
            for st in blk["stmts"]:
                if st["k"] == "assign" and st["rv"]["k"] == "cast" and st["rv"]["ck"] == "Transmute" and not st.get("exp"):
                    rep.bad("R-FFI-N5", "R-FFI-N5:%s:transmute" % b.short, b.where(bi, st.get("line")), "transmute in the C API")
                if st["k"] == "intrinsic":
                    rep.bad("R-FFI-N5", "R-FFI-N5:%s:intrinsic" % b.short, b.where(bi, st.get("line")), "raw memory intrinsic in the C API: %s" % st.get("dbg", "")[:60])
    return n


# ---------------------------------------------------------------------- C17: failure paths and flags
SWALLOWERS = re.compile(r"(_or_default$|::unwrap_or_default$)")


def check_failure_paths(ctx, rep):
    """'Every failure (wrong kind, bad index, invalid text, unknown unit or zone) is reported':
    (a) no C API function calls a crate helper that swallows the failure (get_unit_or_default & co);
    (b) every fallible crate lookup it calls (get_unit, make_date_time_with_tz, from_str, Filter::try_from, from_ymd, ...)
        has its None / Err edge lead to new_error on all paths;
    (c) an `index` argument is compared with the container's length strictly (index < len), as every sibling does."""
    prog = ctx.prog
    from rules import entries

    n = 0
    for f in entries.extern_c(prog):
        body = prog.bodies[f]
        name = body.rec["name"]
        eb = err_blocks(body)
        k = 0
        for bi, t in body.calls():
            c = callee_of(t)
            if c is None:
                continue
            nm = strip_generics(c.get("res") or c["fn"])
            if SWALLOWERS.search(nm) and (nm.startswith("haystack::") or "Option::unwrap_or_default" in nm or "Result::unwrap_or_default" in nm):
                n += 1
                rep.bad("R-ERR", "R-ERR:%s:swallows:%s" % (name, nm.split("::")[-1]), body.where(bi), "%s calls %s, which replaces a failed lookup by a default: the failure is not reported to the C caller" % (name, nm))
                continue
            dt = t.get("dest_ty", "")
            crate_fallible = (dt.startswith("std::result::Result") or dt.startswith("std::option::Option<&haystack::units")) and (nm.startswith("haystack::") or nm.startswith("<haystack::") or nm.startswith("serde_json::from_") or nm.endswith("CStr::to_str"))
            if not crate_fallible or t["dest"]["p"]:
                continue
            # find the switch on this result's discriminant
            dl = t["dest"]["l"]
            fail_edge = None
            for sb in body.rpo():
                st = body.term(sb)
                if st["k"] != "switch":
                    continue
                pl = op_place(st["op"])
                sd = body.single_def(pl["l"]) if pl is not None and not pl["p"] else None
                if sd and sd[1] != "term" and sd[2]["k"] == "discr" and not sd[2]["place"]["p"] and sd[2]["place"]["l"] == dl:
                    vals = {int(x[0]): x[1] for x in st["targets"]}
                    if dt.startswith("std::result::Result"):
                        fail_edge = vals.get(1, st["otherwise"] if 0 in vals else None)
                    else:
                        fail_edge = vals.get(0, st["otherwise"] if 1 in vals else None)
                    break
            if fail_edge is None:
                continue
            n += 1
            key = "%s:failure-of:%s#%d" % (name, nm.split("::")[-1], k)
            k += 1
            ok, path = all_paths_hit(body, fail_edge, eb)
            if ok:
                rep.ok("R-ERR", key, body.where(bi), "the failure edge of %s reaches new_error / update_last_error on every path" % nm.split("::")[-1])
            else:
                rep.bad("R-ERR", "R-ERR:%s:failure-of:%s" % (name, nm.split("::")[-1]), body.where(bi), "%s can fail in %s without an error being recorded (path %s)" % (nm.split("::")[-1], name, path))
        # (c) an `index` argument reaches a positional operation of the wrapped collection (Vec::insert / remove / swap_remove,
        # slice indexing) only on paths that carry `index < len()` of that collection - whatever the spelling of the test
        idx_params = [i + 1 for i, ty in enumerate(body.rec.get("sig_inputs", [])) if ty == "usize" and body.names.get(i + 1) == "index"]
        if idx_params:
            from rules import pathcond as PC

            p = idx_params[0]
            ops_b = []
            for bi2, t2 in body.calls():
                nm2 = strip_generics(mir.callee_name(t2) or "")
                if re.search(r"(Vec::(insert|remove|swap_remove)|ops::Index(Mut)?(<[^>]*>)?>::index(_mut)?)$", nm2) and len(t2["args"]) > 1 and repr(G.describe(body, t2["args"][1])) == "_%d" % p:
                    ops_b.append((bi2, nm2.split("::")[-1], repr(G.describe(body, t2["args"][0]))))
            for bi2, opn, recv in ops_b:
                n += 1
                paths = PC.enumerate_paths(body, lambda x, bb=bi2: x == bb)
                key = "%s:index-guard-strict" % name
                want = None
                for a in PC.atoms_of(paths):
                    m = re.match(r"^less\(_%d, (.*)\)$" % p, a)
                    if m and "::len(" in m.group(1):
                        want = a
                good = want is not None and bool(paths) and all((want, True) in p[1] for p in paths)
                if good:
                    rep.ok("R-ERR", key, body.where(bi2), "%s(index) is reached only with index < len(): an index equal to the length is rejected like any other bad index" % opn)
                else:
                    weak = [a for a in PC.atoms_of(paths) if a.startswith("less(") and "_%d" % p in a]
                    rep.bad("R-ERR", "R-ERR:" + key, body.where(bi2), "%s reaches %s(index) without `index < len()` on every path (conditions on the index: %s): a bad index is not reported and the container changes / the call panics" % (name, opn, weak or "none"))
    return n


def check_named_flags(ctx, rep):
    """a boolean argument called `utc` selects the UTC accessor on its true edge and the local one on its false edge"""
    prog = ctx.prog
    from rules import entries

    n = 0
    for f in entries.extern_c(prog):
        body = prog.bodies[f]
        flags = [l for l, nm in body.names.items() if nm == "utc" and l <= body.arg_count and body.local_ty(l) == "bool"]
        for fl in flags:
            for bi, t in body.calls():
                nm = strip_generics(mir.callee_name(t) or "")
                kind = "utc" if nm.endswith("::naive_utc") else ("local" if nm.endswith("::naive_local") else None)
                if kind is None:
                    continue
                n += 1
                pol = None
                for g in G.guards_at(body, bi):
                    if g.a is not None and repr(g.a) == "_%d" % fl and g.op in ("True", "False"):
                        pol = g.op
                key = "%s:flag-utc:%s" % (body.rec["name"], kind)
                good = (kind == "utc" and pol == "True") or (kind == "local" and pol == "False")
                if good:
                    rep.ok("R-FLAG", key, body.where(bi), "naive_%s() on the utc == %s edge" % (kind, pol.lower()))
                else:
                    rep.bad("R-FLAG", "R-FLAG:" + key, body.where(bi), "%s reads the %s fields on the `utc == %s` edge: the flag selects the opposite clock" % (body.rec["name"], kind, (pol or "?").lower()))
    return n


# ---------------------------------------------------------------------- C17: the error register, and verb-for-verb delegation
def check_error_register(ctx, rep):
    """'a retrievable error message': the last-error slot is overwritten unconditionally by every failure (the newest failure
    is the one retrieved) and emptied by the read"""
    prog = ctx.prog
    n = 0
    root = next((b for b in prog.bodies.values() if b.rec["kind"] != "Closure" and b.short.endswith("c_api::err::update_last_error")), None)
    if root is None:
        rep.gap("c_api::err::update_last_error", "-", "not found")
        return 0
    fam = [root]
    st = [root.id]
    while st:
        x = st.pop()
        for c in prog.closures_of.get(x, []):
            fam.append(prog.bodies[c])
            st.append(c)
    stores = []
    cond = []
    for fb in fam:
        for bi in range(fb.n):
            for s in fb.blocks[bi]["stmts"]:
                if s["k"] == "assign" and s["lhs"]["p"] and s["lhs"]["p"][0] == "*":
                    v = None
                    if s["rv"]["k"] == "agg":
                        v = s["rv"].get("variant")
                    elif s["rv"]["k"] == "use":
                        dv = G.describe(fb, s["rv"]["op"])
                        v = dv.v if dv.kind == "agg" else None
                    if v == "Some":
                        stores.append((fb, bi))
            t = fb.term(bi)
            if t["k"] == "call":
                nm = strip_generics(mir.callee_name(t) or "")
                if re.search(r"Option::(get_or_insert|get_or_insert_with|or|or_else|xor|is_none|is_some|insert|replace|take_if|filter)$", nm) or re.search(r"RefCell::(try_borrow_mut)$", nm):
                    cond.append((fb, bi, nm.split("::")[-1]))
            if t["k"] == "drop" and False:
                pass
    n += 1
    unconditional = False
    for fb, bi in stores:
        # the store dominates every return of its body
        rets = [x for x in range(fb.n) if fb.term(x)["k"] == "return"]
        idom = fb.idom()

        def dominates(a, b2):
            while True:
                if b2 == a:
                    return True
                if b2 == 0 or b2 not in idom:
                    return False
                b2 = idom[b2]

        if rets and all(dominates(bi, r) for r in rets):
            unconditional = True
    if unconditional and not cond:
        rep.ok("R-ERR", "error-register:last-writer-wins", root.where(), "update_last_error stores Some(err) into the slot on every path, without looking at what was there")
    else:
        rep.bad("R-ERR", "R-ERR:error-register:last-writer-wins", root.where(), "update_last_error does not overwrite the slot unconditionally (%s): after two failures in a row the message retrieved is not the one of the last failure" % (", ".join(c[2] for c in cond) or "no dominating store of Some(err)"))
    tk = next((b for b in prog.bodies.values() if b.rec["kind"] != "Closure" and b.short.endswith("c_api::err::take_last_error")), None)
    if tk is not None:
        n += 1
        names = []
        stt = [tk.id]
        while stt:
            x = stt.pop()
            names += [strip_generics(mir.callee_name(t) or "") for _, t in prog.bodies[x].calls()]
            stt += prog.closures_of.get(x, [])
        if any(x.endswith("Option::take") for x in names):
            rep.ok("R-ERR", "error-register:read-clears", tk.where(), "take_last_error is Option::take on the slot")
        else:
            rep.bad("R-ERR", "R-ERR:error-register:read-clears", tk.where(), "take_last_error does not take() the slot: a stale message stays retrievable")
    return n


COLLECTION_MUTATORS = {"insert", "remove", "push", "pop", "swap_remove", "retain", "retain_mut", "clear", "truncate", "drain", "append", "extend", "extend_from_slice", "entry",
                       "dedup", "dedup_by", "dedup_by_key", "sort", "sort_by", "sort_unstable", "reverse", "split_off", "resize", "swap", "push_front", "push_back", "pop_first",
                       "pop_last", "remove_entry", "try_insert", "or_insert", "or_insert_with", "or_default", "and_modify", "rotate_left", "rotate_right", "fill", "insert_mut"}
# verb in the exported name -> the collection operation(s) it stands for (`set` is today's insert-before semantics, see DESIGN 9.3)
VERB_OPS = {"insert": {"insert"}, "remove": {"remove"}, "push": {"push"}, "set": {"insert"}}


def check_verb_delegation(ctx, rep):
    """'list / dict / grid handles behave as the sequence, map and table they wrap': an exported function whose name carries a
    collection verb performs exactly that operation of the wrapped std collection (and no other mutation) - swap_remove for
    remove or entry().or_insert for insert give different results on the same values"""
    prog = ctx.prog
    from rules import entries

    n = 0
    for f in entries.extern_c(prog):
        b = prog.bodies[f]
        name = b.rec["name"]
        m = re.match(r"^haystack_value_(insert|remove|push|set)_(dict|list|grid)_", name)
        muts = []
        fam = [b.id]
        ids = [b.id]
        while ids:
            x = ids.pop()
            for c in prog.closures_of.get(x, []):
                fam.append(c)
                ids.append(c)
        for fid in fam:
            fb = prog.bodies[fid]
            for bi, t in fb.calls():
                nm = strip_generics(mir.callee_name(t) or "")
                if re.match(r"^(std|alloc)::(vec::Vec|collections::(BTreeMap|HashMap|VecDeque|btree_map::Entry|btree_map::OccupiedEntry|btree_map::VacantEntry|hash_map::Entry))(::|<)", nm) or re.match(r"^(std|alloc)::collections::btree_map::", nm) or re.match(r"^core::slice::<impl \[T\]>::", nm):
                    op = nm.split("::")[-1]
                    if op in COLLECTION_MUTATORS:
                        muts.append((fb, bi, op))
        if not m and not muts:
            continue
        n += 1
        key = "%s:verb-delegation" % name
        if not m:
            # mutators in functions without a collection verb: constructors filling a fresh collection are fine (push / insert / extend)
            odd = [x for x in muts if x[2] not in ("push", "insert", "extend", "sort")]
            if odd:
                rep.bad("R-KIND", "R-KIND:" + key, odd[0][0].where(odd[0][1]), "%s mutates a collection with %s although its name promises no such operation" % (name, odd[0][2]))
            else:
                rep.ok("R-KIND", key, b.where(), "only fills a collection it builds (%s)" % sorted({x[2] for x in muts}))
            continue
        want = VERB_OPS[m.group(1)]
        ops = {x[2] for x in muts}
        if ops & want and not (ops - want):
            rep.ok("R-KIND", key, b.where(), "%s is %s on the wrapped %s" % (m.group(1), "/".join(sorted(ops)), m.group(2)))
        else:
            w = muts[0] if muts else None
            rep.bad("R-KIND", "R-KIND:" + key, (w[0].where(w[1]) if w else b.where()), "%s performs %s on the wrapped %s, the Rust operation of that name is %s: same values, different result" % (name, sorted(ops) or "no mutation", m.group(2), "/".join(sorted(want))))
    return n



def _flow_defs(b, local, seen_l=None):
    """definitions that can reach `local` through plain copies / casts of other locals (a spliced helper hands its result over in
    a local that every one of its return paths assigns)"""
    seen_l = seen_l if seen_l is not None else set()
    out = []
    if local in seen_l:
        return out
    seen_l.add(local)
    for bi2, si, rv in b.defs().get(local, []):
        if si != "term" and rv["k"] in ("use", "cast"):
            pl = op_place(rv["op"])
            if pl is not None and not pl["p"] and (pl["l"] > b.arg_count) and len(b.defs().get(pl["l"], [])) != 1:
                out += _flow_defs(b, pl["l"], seen_l)
                continue
        out.append((bi2, si, rv))
    return out


def _foreign_char_returns(prog, b, seen):
    """[(block, what)] for every value `b` can return that is neither null nor CString::into_raw; a private helper of the C API
    that itself only returns such values is looked through"""
    bad = []
    seen = seen | {b.id}
    for bi2, si, rv in _flow_defs(b, 0):
        if si == "term":
            t = b.term(bi2)
            nm = strip_generics(mir.callee_name(t) or "")
            if nm in ("std::ffi::CString::into_raw", "std::ptr::null", "std::ptr::null_mut"):
                continue
            # `.map_or(null(), |s| s.into_raw())` / `.map(..into_raw..).unwrap_or(null())`: both arms are of the allowed kinds
            if re.search(r"(Option|Result)::(map_or|map_or_else|unwrap_or|unwrap_or_else)$", nm):
                vals = []
                for a in t["args"][1:] if nm.endswith(("map_or", "map_or_else")) else t["args"]:
                    dv = G.describe(b, a)
                    if dv.kind == "call" and dv.v in ("std::ptr::null", "std::ptr::null_mut"):
                        vals.append("null")
                    elif dv.kind == "const" and dv.v == 0:
                        vals.append("null")
                    elif dv.kind == "agg" and dv.v == "closure":
                        cl = None
                        pl0 = op_place(a)
                        for bi3 in range(b.n):
                            for st3 in b.blocks[bi3]["stmts"]:
                                if st3["k"] == "assign" and st3["rv"]["k"] == "agg" and st3["rv"].get("ak") == "closure" and pl0 is not None and st3["lhs"]["l"] == pl0["l"]:
                                    cl = prog.bodies.get(st3["rv"].get("closure"))
                        if cl is not None:
                            r0 = G.describe_place(cl, {"l": 0, "p": []})
                            cnames = [strip_generics(mir.callee_name(tt) or "") for _b4, tt in cl.calls()]
                            if (r0.kind == "call" and r0.v == "std::ffi::CString::into_raw") or ("std::ffi::CString::into_raw" in cnames and len(cnames) == 1):
                                vals.append("into_raw")
                            else:
                                vals.append("?" + repr(r0)[:40])
                        else:
                            vals.append("?closure")
                    elif dv.kind == "fn" and dv.v == "std::ffi::CString::into_raw":
                        vals.append("into_raw")
                    elif dv.kind == "call" and re.search(r"(Option|Result)::map$", dv.v):
                        vals.append("mapped")
                    else:
                        vals.append("?" + repr(dv)[:40])
                if vals and all(x in ("null", "into_raw", "mapped") for x in vals) and "into_raw" in vals + (["into_raw"] if "mapped" in vals else []):
                    continue
                bad.append((bi2, "%s(%s)" % (nm.split("::")[-1], ", ".join(vals))))
                continue
            hb = prog.get(nm) or next((x for x in prog.bodies.values() if strip_generics(x.id) == nm and x.rec["kind"] != "Closure"), None)
            if hb is not None and hb.file.startswith("src/c_api/") and hb.id not in seen and re.match(r"^\*(const|mut) (i8|u8|std::ffi::c_char|core::ffi::c_char|std::os::raw::c_char)$", hb.rec.get("sig_output", "")):
                inner = _foreign_char_returns(prog, hb, seen)
                if inner:
                    bad.append((bi2, "%s -> %s" % (nm.split("::")[-1], inner[0][1])))
                continue
            bad.append((bi2, nm))
            continue
        v = G.describe(b, rv["op"]) if rv["k"] in ("use", "cast") else G.describe_place(b, rv.get("place")) if rv["k"] in ("ref", "rawptr") else None
        r = repr(v) if v is not None else "?"
        if v is not None and ((v.kind == "call" and v.v in ("std::ffi::CString::into_raw", "std::ptr::null", "std::ptr::null_mut")) or (v.kind == "const" and v.v == 0)):
            continue
        if v is not None and v.kind == "call":
            hb = prog.get(v.v) or next((x for x in prog.bodies.values() if strip_generics(x.id) == v.v and x.rec["kind"] != "Closure"), None)
            if hb is not None and hb.file.startswith("src/c_api/") and hb.id not in seen:
                inner = _foreign_char_returns(prog, hb, seen)
                if not inner:
                    continue
        bad.append((bi2, r[:80]))
    return bad


def check_returned_strings(ctx, rep):
    """every `*const c_char` / `*mut c_char` an exported function returns is either null or the result of CString::into_raw:
    the documented protocol frees every returned string with haystack_string_destroy (CString::from_raw), which is undefined
    on a pointer into static or borrowed memory"""
    prog = ctx.prog
    from rules import entries

    n = 0
    for f in entries.extern_c(prog):
        b = prog.bodies[f]
        out = b.rec.get("sig_output", "")
        if not re.match(r"^\*(const|mut) (i8|u8|std::ffi::c_char|core::ffi::c_char|std::os::raw::c_char)$", out):
            continue
        n += 1
        bad = _foreign_char_returns(prog, b, set())
        key = "returned-string:%s" % b.rec["name"]
        if bad:
            rep.bad("R-FFI-N3", "R-FFI-N3:" + key, b.where(bad[0][0]), "%s returns a char pointer that is neither null nor CString::into_raw (%s): haystack_string_destroy on it frees memory the allocator never handed out" % (b.rec["name"], bad[0][1]))
        else:
            rep.ok("R-FFI-N3", key, b.where(), "returns null or CString::into_raw on every path")
    return n


# the Rust API function each codec / filter entry of the C API is documented to wrap; "same result as the Rust API on the same
# values" has, as its structural part, that the wrapper asks exactly that function (not a look-alike: Display is not Zinc,
# `Value::deserialize` on a bare Deserializer does not reject trailing text the way `from_str` does)
CODEC_DELEGATION = {
    "haystack_value_to_zinc_string": "haystack::encoding::zinc::encode::to_zinc_string",
    "haystack_value_from_zinc_string": "haystack::encoding::zinc::decode::value::from_str",
    "haystack_value_to_json_string": "serde_json::to_string",
    "haystack_value_from_json_string": "serde_json::from_str",
    "haystack_filter_parse": "<haystack::filter::Filter as std::convert::TryFrom>::try_from",
}
LOOKALIKES = ("<T as std::string::ToString>::to_string", "serde::Deserialize::deserialize", "<haystack::val::value::Value as serde::Deserialize>::deserialize",
              "serde_json::Deserializer::from_str", "serde_json::to_value", "serde_json::from_value", "serde_json::to_vec", "serde_json::from_slice",
              "serde_json::from_reader", "serde_json::to_writer", "<haystack::val::value::Value as std::fmt::Display>::fmt",
              "haystack::encoding::zinc::encode::ToZinc::to_zinc", "<haystack::val::value::Value as haystack::encoding::zinc::encode::ToZinc>::to_zinc")


def check_codec_delegation(ctx, rep):
    prog = ctx.prog
    from rules import entries

    n = 0
    by_name = {prog.bodies[f].rec["name"]: prog.bodies[f] for f in entries.extern_c(prog)}
    for name, want in sorted(CODEC_DELEGATION.items()):
        b = by_name.get(name)
        if b is None:
            rep.gap("codec-delegation:" + name, "-", "exported function not found")
            continue
        n += 1
        fam = [b] + [prog.bodies[c] for c in prog.closures_of.get(b.id, [])]
        calls = [strip_generics(mir.callee_name(t) or "") for fb in fam for _bi, t in fb.calls()]
        other = sorted({c for c in calls if c in LOOKALIKES or (c.startswith(("serde_json::", "haystack::encoding::")) and c != want)})
        key = "%s:codec-delegation" % name
        if calls.count(want) == 1 and not other:
            rep.ok("R-KIND", key, b.where(), "wraps %s and no other codec entry" % want)
        else:
            rep.bad("R-KIND", "R-KIND:" + key, b.where(), "%s is documented to wrap %s but calls %s: a different function of the same shape, whose answers differ on some inputs" % (name, want, other or "it %d times" % calls.count(want)))
    return n


def check_length_getters(ctx, rep):
    """`*_len` of the C API is the `len()` of the wrapped string / collection (the number the Rust API reports, and for strings the
    byte length of the C string the sibling `*_value` getter returns) or the error sentinel - not a count computed some other way
    (chars().count() differs from len() on every non-ASCII text)"""
    prog = ctx.prog
    from rules import entries

    n = 0
    for f in entries.extern_c(prog):
        b = prog.bodies[f]
        name = b.rec["name"]
        if not name.endswith(("_len", "_count", "_size", "_length")) or b.rec.get("sig_output") not in ("usize", "u32", "u64", "i32", "i64"):
            continue
        n += 1
        key = "%s:length-is-len" % name
        odd = []
        for bi, si, rv in _flow_defs(b, 0):
            if si == "term":
                nm = strip_generics(mir.callee_name(b.term(bi)) or "")
                if nm.split("::")[-1] != "len" or not nm.startswith(("std::", "core::", "alloc::", "haystack::val::")):
                    odd.append(nm)
            elif rv["k"] == "use" and mir.op_const(rv["op"]) is not None:
                continue  # the sentinel
            elif rv["k"] == "cast":
                pl = op_place(rv["op"])
                sd = b.single_def(pl["l"]) if pl is not None and not pl["p"] else None
                nm = strip_generics(mir.callee_name(b.term(sd[0])) or "") if sd and sd[1] == "term" else "?"
                if nm.split("::")[-1] != "len":
                    odd.append("cast of " + nm)
            else:
                odd.append(rv["k"])
        if odd:
            rep.bad("R-KIND", "R-KIND:" + key, b.where(), "%s returns the result of %s, not the len() of the wrapped value" % (name, odd))
        else:
            rep.ok("R-KIND", key, b.where(), "returns len() of the wrapped value or the sentinel")
    return n


def check_null_reported_on_every_path(ctx, rep):
    """N4: 'a null pointer for any pointer argument is reported as an error' on *every* path, not only on those that happen to use
    the pointer: a return that follows no error record lies only on paths on which each pointer argument has been put to a null
    test (is_null / as_ref / as_mut - whose null arm N2 obliges to record the error). A function that tests an out-pointer only
    where it writes it answers `false, no error` for a null out-pointer whenever it returns before the write. Forward may-analysis
    over states (set of tested arguments, error recorded)"""
    prog = ctx.prog
    from rules import entries

    n = 0
    E = set(entries.extern_c(prog))
    for f in sorted(E):
        body = prog.bodies[f]
        name = body.rec["name"]
        if name in EXEMPT_NULL:
            continue
        params = ptr_params(body)
        if not params:
            continue
        IN, alias, owner, isnull, asref = nonnull_facts(body, params)
        # which blocks perform a null test of which parameter
        tests = {}
        for bi, t in body.calls():
            nm = strip_generics(mir.callee_name(t) or "")
            if nm.split("::")[-1] in ("is_null", "as_ref", "as_mut", "as_ref_unchecked") and t["args"]:
                pl = op_place(t["args"][0])
                if pl is not None and not pl["p"] and pl["l"] in owner:
                    tests.setdefault(bi, set()).add(owner[pl["l"]])
            elif mir.callee_name(t) in E:
                # handed on to another exported function, which is under the same obligation for that argument
                for a in t["args"]:
                    pl = op_place(a)
                    if pl is not None and not pl["p"] and pl["l"] in owner:
                        tests.setdefault(bi, set()).add(owner[pl["l"]])
        errb = set(err_blocks(body))
        allp = frozenset(p for p, _ in params)
        states = {0: {(frozenset(), False)}}
        work = [0]
        while work:
            b = work.pop()
            out = set()
            for tested, err in states.get(b, ()):
                out.add((frozenset(tested | tests.get(b, set())), err or b in errb))
            for s in body.succ(b):
                if body.blocks[s].get("cleanup"):
                    continue
                cur = states.setdefault(s, set())
                new = out - cur
                if new:
                    cur |= new
                    work.append(s)
        missing = {}
        for b in range(body.n):
            if body.term(b)["k"] != "return":
                continue
            for tested, err in states.get(b, ()):
                tested = tested | tests.get(b, set())
                if not err:
                    for p in allp - tested:
                        missing.setdefault(p, b)
        for p, ty in params:
            n += 1
            key = "%s:null-reported-on-every-path:arg%d" % (name, p)
            if p in missing:
                rep.bad("R-ERR", "R-ERR:" + key, body.where(missing[p]), "N4: %s can return without an error record on a path that never tests pointer argument %d (%s) for null: a null there goes unreported on that path" % (name, p, ty))
            else:
                rep.ok("R-ERR", key, body.where(), "N4: every return without an error record follows a null test of the argument")
    return n


def check_c_string_conversions(ctx, rep):
    """text that crosses the boundary is converted strictly in both directions: an incoming C string goes through `CStr::to_str`
    (whose Err arm must record an error - N2 / sentinel rules), never through the lossy conversion that turns invalid UTF-8 into a
    live value with U+FFFD in it; an outgoing error message is stripped of NULs before `CString::new`, whose failure would
    otherwise swallow the pending error"""
    prog = ctx.prog
    from rules import entries

    n = 0
    lossy = []
    for b in prog.bodies.values():
        if not b.file.startswith("src/c_api/") or "::test" in b.id:
            continue
        for bi, t in b.calls():
            nm = strip_generics(mir.callee_name(t) or "")
            if nm.split("::")[-1] in ("to_string_lossy", "from_utf8_lossy", "from_utf8_unchecked"):
                lossy.append((b, bi, nm))
    n += 1
    if lossy:
        b, bi, nm = lossy[0]
        rep.bad("R-ERR", "R-ERR:c-strings:strict-utf8:%s" % b.rec.get("name", b.short), b.where(bi), "%s converts a C string with %s: invalid UTF-8 becomes a live value instead of the documented error" % (b.rec.get("name", b.short), nm.split("::")[-1]))
    else:
        rep.ok("R-ERR", "c-strings:strict-utf8", "-", "no lossy / unchecked UTF-8 conversion anywhere under src/c_api")
    # last_error_message
    lem = next((prog.bodies[f] for f in entries.extern_c(prog) if prog.bodies[f].rec["name"] == "last_error_message"), None)
    if lem is not None:
        n += 1
        sites = [(bi, t) for bi, t in lem.calls() if strip_generics(mir.callee_name(t) or "").endswith("CString::new")]
        good = bool(sites)
        for bi, t in sites:
            d = repr(G.describe(lem, t["args"][0]))
            if not re.search(r"str>::replace\(.*const 0[,)]", d) and "::replace(" not in d:
                good = False
        if good:
            rep.ok("R-ERR", "error-register:message-has-no-nul", lem.where(), "the message handed to CString::new went through replace('\\0', ..): the conversion cannot fail, so a pending error always has a retrievable text")
        else:
            rep.bad("R-ERR", "R-ERR:error-register:message-has-no-nul", lem.where(), "last_error_message hands the message to CString::new as it is: a message that quotes a NUL (from an escape in the rejected input) makes the conversion fail after the error was taken, and the failure has no retrievable message")
    return n


def check_out_param_stores(ctx, rep):
    """a result written through an out-pointer is written whatever its contents: the store is not conditional on a property of the
    value being stored (an empty grid is the answer to a query without matches; returning early leaves the previous answer in the
    caller's handle)"""
    prog = ctx.prog
    from rules import entries

    n = 0
    for f in entries.extern_c(prog):
        b = prog.bodies[f]
        params = {p for p, ty in ptr_params(b) if ty.startswith("*mut")}
        if not params:
            continue
        for bi in range(b.n):
            for st in b.blocks[bi]["stmts"]:
                if st["k"] != "assign" or not st["lhs"]["p"] or st["lhs"]["p"][0] != "*" and "*" not in [x for x in st["lhs"]["p"] if isinstance(x, str)]:
                    continue
                # a store through (the payload of as_mut of) a *mut parameter
                root = repr(G.describe_place(b, {"l": st["lhs"]["l"], "p": []}))
                for _i in range(3):
                    mm = re.search(r"\b_(\d+)\b(?= as )", root)
                    if not mm or int(mm.group(1)) <= b.arg_count:
                        break
                    root = root[:mm.start()] + repr(G.describe_place(b, {"l": int(mm.group(1)), "p": []})) + root[mm.end():]
                if not any(re.search(r"\b_%d\b" % p, root) for p in params):
                    continue
                if st["rv"]["k"] not in ("use", "agg"):
                    continue
                ops = [st["rv"]["op"]] if st["rv"]["k"] == "use" else st["rv"]["ops"]
                srcs = set()
                for o in ops:
                    pl = op_place(o)
                    if pl is not None:
                        srcs.add(pl["l"])
                        sd = b.single_def(pl["l"])
                        if sd and sd[1] != "term" and sd[2]["k"] == "agg":
                            for o2 in sd[2]["ops"]:
                                p2 = op_place(o2)
                                if p2 is not None:
                                    srcs.add(p2["l"])
                if not srcs:
                    continue
                # ... and the locals those were moved / copied / built from
                for _i in range(6):
                    more = set()
                    for l in srcs:
                        sd = b.single_def(l)
                        if sd and sd[1] != "term":
                            if sd[2]["k"] in ("use", "cast"):
                                p2 = op_place(sd[2]["op"])
                                if p2 is not None:
                                    more.add(p2["l"])
                            elif sd[2]["k"] == "agg":
                                for o2 in sd[2]["ops"]:
                                    p2 = op_place(o2)
                                    if p2 is not None:
                                        more.add(p2["l"])
                    if more <= srcs:
                        break
                    srcs |= more
                srcs = {l for l in srcs if l > b.arg_count}
                n += 1
                name = b.rec["name"]
                key = "%s:out-param-store-unconditional" % name
                cond = []
                for g in G.guards_at(b, bi):
                    if g.a is None or g.a.kind != "call":
                        continue
                    t = None
                    # the guard is a call one of whose arguments is (a reference to) the stored value
                    for bj, tt in b.calls():
                        if strip_generics(mir.callee_name(tt) or "") == strip_generics(g.a.v) and any((op_place(a) or {}).get("l") in srcs or _refers(b, a, srcs) for a in tt["args"]):
                            t = tt
                    if t is not None:
                        cond.append(strip_generics(g.a.v).split("::")[-1])
                if cond:
                    rep.bad("R-KIND", "R-KIND:" + key, b.where(bi), "%s writes its result through the out-pointer only under %s of the value it would write: for the other values the caller's handle keeps an older answer" % (name, cond))
                else:
                    rep.ok("R-KIND", key, b.where(bi), "the store does not depend on the stored value")
    return n


def _refers(b, op, locals_):
    pl = op_place(op)
    if pl is None or pl["p"]:
        return False
    sd = b.single_def(pl["l"])
    if sd and sd[1] != "term" and sd[2]["k"] in ("ref", "rawptr"):
        return sd[2]["place"]["l"] in locals_
    return False


def check_internal_calls_of_owning_functions(ctx, rep):
    """an exported function that returns an owned C string (CString::into_raw) hands its caller the duty to destroy it; when the
    library calls such a function itself, the result must reach a caller in turn (be returned) or be destroyed - a call whose result
    is dropped leaks the string on every invocation"""
    prog = ctx.prog
    from rules import entries

    E = set(entries.extern_c(prog))
    owning = set()
    for f in E:
        b = prog.bodies[f]
        if b.rec.get("sig_output", "") in ("*const i8", "*mut i8", "*const u8", "*mut u8", "*const c_char", "*mut c_char") and any(strip_generics(mir.callee_name(t) or "").endswith("CString::into_raw") for fb in [b] + [prog.bodies[c] for c in prog.closures_of.get(b.id, [])] for _bi, t in fb.calls()):
            owning.add(f)
    n = 0
    for b in prog.bodies.values():
        if not b.file.startswith("src/c_api/") or "::test" in b.id:
            continue
        for bi, t in b.calls():
            cal = mir.callee_name(t)
            if cal not in owning or cal == b.id:
                continue
            n += 1
            key = "%s:owned-string-from:%s" % (b.rec.get("name", b.short), prog.bodies[cal].rec["name"])
            dl = t["dest"]["l"] if not t["dest"]["p"] else None
            used = dl == 0
            if dl is not None and not used:
                for bj, tt in b.calls():
                    if any((op_place(a) or {}).get("l") == dl for a in tt.get("args", [])):
                        used = True
                for bj in range(b.n):
                    for st in b.blocks[bj]["stmts"]:
                        if st["k"] == "assign" and st["rv"]["k"] == "use" and (op_place(st["rv"]["op"]) or {}).get("l") == dl:
                            used = True
            if used:
                rep.ok("R-FFI-N3", key, b.where(bi), "the owned string is passed on")
            else:
                rep.bad("R-FFI-N3", "R-FFI-N3:" + key, b.where(bi), "%s calls %s and drops the owned C string it returns: one leaked allocation per call" % (b.rec.get("name", b.short), prog.bodies[cal].rec["name"]))
    if n == 0:
        rep.ok("R-FFI-N3", "owned-strings:no-internal-caller", "-", "no function under src/c_api calls an exported function that returns an owned C string (%d such functions)" % len(owning))
    return n
