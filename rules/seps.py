"""One separator between consecutive elements: the two idioms, and where the separator must sit for each.

trailing: element; if index < len - 1 { separator }        (separator after every element but the last)
leading:  if index > 0 { separator }; element              (separator before every element but the first)
A guard of one form with the position of the other writes a separator at an end of the sequence."""
import re

from rules import guards as G


def _reach_avoiding(body, src, avoid):
    seen, st = {src}, [src]
    while st:
        x = st.pop()
        for y in body.succ(x):
            if y != avoid and y not in seen:
                seen.add(y)
                st.append(y)
    return seen


def classify(body, sep_block, index_re, elem_blocks, header=None):
    """-> (ok, form or None, collection repr or None, why). index_re matches the repr of the enumerate index in this body;
    header: block to cut at so that 'same iteration' is meant (None inside a per-element closure)"""
    gs = G.guards_at(body, sep_block)
    why = "no `index < len - 1` / `index > 0` guard on the separator"
    for g in gs:
        a, b2 = g.a, g.b
        if a is None or b2 is None:
            continue
        # trailing
        if g.op == "Lt" and b2.kind == "binop" and b2.v == "Sub" and len(b2.args) == 2 and b2.args[1].kind == "const" and b2.args[1].v == 1 and b2.args[0].kind == "call" and b2.args[0].v.endswith("::len") and re.search(index_re, repr(a)):
            after = _reach_avoiding(body, sep_block, header)
            if any(e in after and e != sep_block for e in elem_blocks):
                return False, None, None, "the separator is guarded like a trailing one (index < len - 1) but an element is written after it in the same iteration"
            return True, "after each element but the last (index < len - 1)", repr(b2.args[0].args[0]) if b2.args[0].args else None, ""
        lead = ((g.op in ("Gt", "Ne") and b2.kind == "const" and b2.v == 0 and re.search(index_re, repr(a))) or (g.op == "Lt" and a.kind == "const" and a.v == 0 and re.search(index_re, repr(b2))))
        if lead:
            if not elem_blocks:
                return False, None, None, "no element write found next to the separator"
            if any(sep_block in _reach_avoiding(body, e, header) for e in elem_blocks):
                return False, None, None, "the separator is guarded like a leading one (index > 0) but an element is written before it in the same iteration"
            return True, "before each element but the first (index > 0)", None, ""
        if g.op in ("Le", "Lt", "Ge", "Gt") and ("len" in repr(b2) or "len" in repr(a)) and (re.search(index_re, repr(a)) or re.search(index_re, repr(b2))):
            why = "guard is `%r`, which is neither index < len - 1 nor index > 0" % g
    return False, None, None, why
