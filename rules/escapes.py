"""T-ESC: escape transducers of the Zinc writers (from MIR) against the tables of the Zinc readers (from MIR)."""
import re

from rules import guards as G
from rules import scanai
from vlib import fmtargs, mir
from vlib.mir import callee_of, op_place, strip_generics

MAXC = 0x10FFFF
SURR = (0xD800, 0xDFFF)


# ---------------------------------------------------------------------- interval sets over code points
def iv_norm(iv):
    iv = sorted((a, b) for a, b in iv if a <= b)
    out = []
    for a, b in iv:
        if out and a <= out[-1][1] + 1:
            out[-1] = (out[-1][0], max(out[-1][1], b))
        else:
            out.append((a, b))
    return out


def iv_and(x, y):
    out = []
    for a, b in x:
        for c, d in y:
            lo, hi = max(a, c), min(b, d)
            if lo <= hi:
                out.append((lo, hi))
    return iv_norm(out)


def iv_not(x):
    out = []
    cur = 0
    for a, b in iv_norm(x):
        if a > cur:
            out.append((cur, a - 1))
        cur = b + 1
    if cur <= MAXC:
        out.append((cur, MAXC))
    return out


def iv_sub(x, y):
    return iv_and(x, iv_not(y))


UNIVERSE = iv_sub([(0, MAXC)], [SURR])


def iv_str(x):
    f = lambda v: ("'%s'" % chr(v)) if 0x21 <= v < 0x7F else "U+%04X" % v
    return "{" + ", ".join(f(a) if a == b else "%s..%s" % (f(a), f(b)) for a, b in x[:6]) + (" ..." if len(x) > 6 else "") + "}"


def cond_to_iv(g, c_repr):
    """code points satisfying a guard on the loop's char, or None if the guard is about something else"""
    if g.b is None:
        # `(lo..=hi).contains(&c)` with constant bounds, taken or not taken
        a0 = g.a
        if a0 is not None and a0.kind == "call" and str(a0.v).split("::")[-1] == "contains" and "Range" in str(a0.v) and len(a0.args) == 2 and repr(a0.args[1]) == c_repr and g.op in ("True", "False"):
            r = a0.args[0]
            lo = hi = None
            if r.kind == "call" and str(r.v).endswith("RangeInclusive::new") and len(r.args) == 2 and all(x.kind == "const" for x in r.args):
                lo, hi = r.args[0].v, r.args[1].v
            elif r.kind == "agg" and str(r.v) == "RangeInclusive" and len(r.args) >= 2 and all(x.kind == "const" for x in r.args[:2]):
                lo, hi = r.args[0].v, r.args[1].v
            elif r.kind == "agg" and str(r.v) == "Range" and len(r.args) >= 2 and all(x.kind == "const" for x in r.args[:2]):
                lo, hi = r.args[0].v, r.args[1].v - 1
            if lo is not None:
                return [(lo, hi)] if g.op == "True" else iv_not([(lo, hi)])
        return None
    a, b = repr(g.a), repr(g.b)
    op = g.op
    if a == c_repr and g.b.kind == "const":
        k = g.b.v
    elif b == c_repr and g.a.kind == "const":
        k = g.a.v
        op = G.SWAP[op]
    else:
        return None
    return {
        "Eq": [(k, k)],
        "Ne": iv_not([(k, k)]),
        "Lt": [(0, k - 1)],
        "Le": [(0, k)],
        "Gt": [(k + 1, MAXC)],
        "Ge": [(k, MAXC)],
    }[op]


# ---------------------------------------------------------------------- writer side
def chars_loop(body):
    """(block of the Chars::next call, repr of the yielded char) of the first `for c in s.chars()` loop"""
    for bi, t in body.calls():
        nm = strip_generics(mir.callee_name(t) or "")
        if nm == "<std::str::Chars as std::iter::Iterator>::next" and not t["dest"]["p"]:
            return bi, "_%d as Some.0" % t["dest"]["l"], t
    return None


def write_template(body, t, c_repr):
    nm = strip_generics(mir.callee_name(t) or "")
    if nm == "std::io::Write::write_all":
        v = G.describe(body, t["args"][1])
        if v.kind == "conststr":
            return ("lit", v.v)
        r = repr(v)
        if v.kind == "agg" and v.v == "array" and len(v.args) == 1 and repr(v.args[0]) == c_repr:
            return ("raw",)
        if "encode_utf8(" + c_repr in r:
            return ("raw",)
        return ("unknown", r)
    if nm == "std::io::Write::write_fmt":
        a = fmtargs.arguments_of(body, t["args"][1])
        if a is None or a[1] is None:
            return ("unknown", "format arguments")
        pieces, args = a
        out = []
        for p in pieces:
            if p[0] == "lit":
                out.append(("lit", p[1]))
            else:
                d = p[1]
                tr, ty, vop = args[d["index"]]
                vr = repr(G.describe(body, vop))
                if tr == "LowerHex" and c_repr in vr:
                    out.append(("hex", d["width"] or 0, d["zero_pad"]))
                elif tr == "Display" and "encode_utf8(" + c_repr in vr:
                    out.append(("rawchar",))
                else:
                    out.append(("arg", tr, vr))
        if len(out) == 2 and out[0] == ("lit", "\\u") and out[1][0] == "hex":
            return ("uesc", out[1][1], out[1][2])
        if len(out) == 1 and out[0] == ("rawchar",):
            return ("raw",)
        return ("fmt", out)
    return None


def writer_transducer(prog, body):
    """[(intervals, template, where)] for the per-char writes of an escaping writer, plus the skipped cell"""
    cl = chars_loop(body)
    if cl is None:
        return None
    nb, c_repr, _ = cl
    scc = next((s for s in body.sccs() if nb in s), None)
    if scc is None:
        return None
    reach = char_reach(body, scc, nb, c_repr)
    cells = []
    for b in sorted(scc):
        t = body.term(b)
        if t["k"] != "call":
            continue
        tpl = write_template(body, t, c_repr)
        if tpl is None:
            continue
        iv = reach.get(b, [])
        cells.append((iv, tpl, body.where(b)))
    covered = []
    for iv, _, _ in cells:
        covered += iv
    skip = iv_sub(UNIVERSE, iv_norm(covered))
    return cells, skip, c_repr


def char_reach(body, scc, next_block, c_repr):
    """for each block of the loop body: the set of characters c for which control can reach it (forward may-analysis
    over interval sets, refined on every branch that tests c; the back edge is cut)"""
    IN = {}
    start = body.term(next_block).get("t")
    work = [(start, list(UNIVERSE))]
    while work:
        b, iv = work.pop()
        if b not in scc or b == next_block:
            continue
        old = IN.get(b)
        new = iv_norm((old or []) + iv)
        if old is not None and new == old:
            continue
        IN[b] = new
        t = body.term(b)
        if t["k"] == "switch":
            conds = G.switch_conditions(body, b)
            for s in body.succ(b):
                out = new
                for g in conds.get(s, []):
                    x = cond_to_iv(g, c_repr)
                    if x is not None:
                        out = iv_and(out, x)
                if out:
                    work.append((s, out))
        else:
            for s in body.succ(b):
                work.append((s, new))
    return IN


def delimiters(body):
    """byte strings written before and after the chars loop (opening / closing delimiter)"""
    cl = chars_loop(body)
    nb = cl[0]
    scc = next((s for s in body.sccs() if nb in s), set())
    before, after = [], []
    for b in body.rpo():
        if b in scc:
            continue
        t = body.term(b)
        if t["k"] == "call" and strip_generics(mir.callee_name(t) or "") == "std::io::Write::write_all":
            v = G.describe(body, t["args"][1])
            if v.kind == "conststr":
                (before if body.dominates(b, nb) else after).append(v.v)
    return before, after


# ---------------------------------------------------------------------- reader side
def cur_consts(body):
    """constants the function compares Scanner.cur with: {const: [blocks]}"""
    out = {}
    for b in range(body.n):
        blk = body.blocks[b]
        for st in blk["stmts"]:
            if st["k"] == "assign" and st["rv"]["k"] == "binop" and st["rv"]["op"] in ("Eq", "Ne"):
                a, c = G.describe(body, st["rv"]["a"]), G.describe(body, st["rv"]["b"])
                for x, y in ((a, c), (c, a)):
                    if repr(x).endswith(".cur") and y.kind == "const":
                        out.setdefault(y.v, []).append(b)
    return out


def reader_loop_facts(prog, body, escape_callees):
    """terminator and introducer bytes of a quoted-literal reader (parse_str / parse_uri)"""
    intro = term = None
    for bi, t in body.calls():
        nm = strip_generics(mir.callee_name(t) or "")
        if nm.split("::")[-1] in escape_callees:
            for g in G.guards_at(body, bi):
                if g.op == "Eq" and repr(g.a).endswith(".cur") and g.b is not None and g.b.kind == "const":
                    intro = g.b.v
        if nm.endswith("Scanner::advance"):
            for g in G.guards_at(body, bi):
                if g.op == "Ne" and repr(g.a).endswith(".cur") and g.b is not None and g.b.kind == "const":
                    term = g.b.v if term is None else term
    return term, intro


def switch_on(body, what):
    """first switch whose operand describes as `what` (a suffix of the repr): (block, terminator)"""
    for b in body.rpo():
        t = body.term(b)
        if t["k"] == "switch":
            r = repr(G.describe(body, t["op"]))
            if r.endswith(what) or re.fullmatch(what, r):
                return b, t
    return None


def arm_effect(body, start, stop_calls=("advance",)):
    """summarise one arm of an escape switch: constant strings converted into the result, pushes, calls"""
    out = {"strs": [], "push": [], "calls": []}
    seen = {start}
    st = [start]
    n = 0
    while st and n < 25:
        b = st.pop(0)
        n += 1
        t = body.term(b)
        if t["k"] == "call":
            nm = strip_generics(mir.callee_name(t) or "")
            short = nm.split("::")[-1]
            out["calls"].append(short)
            for a in t["args"]:
                v = G.describe(body, a)
                if v.kind == "conststr":
                    out["strs"].append(v.v)
            if nm == "std::vec::Vec::push" and len(t["args"]) == 2:
                out["push"].append(repr(G.describe(body, t["args"][1])))
            if short in stop_calls:
                continue
        if t["k"] == "return":
            continue
        for x in body.succ(b):
            if x not in seen and len(body.pred(x)) <= 1:
                seen.add(x)
                st.append(x)
    return out


def str_escape_table(prog):
    """{escape letter: decoded string | 'unicode'} of parse_str_escape"""
    body = prog.get("haystack::encoding::zinc::decode::scalar::str::parse_str_escape")
    if body is None:
        return None, None
    sw = switch_on(body, r".*\.cur")
    if sw is None:
        return None, body
    b, t = sw
    tab = {}
    for val, tb in t["targets"]:
        eff = arm_effect(body, tb)
        if "parse_str_unicode_escape" in eff["calls"]:
            tab[int(val)] = "unicode"
        elif eff["strs"]:
            tab[int(val)] = eff["strs"][0]
        else:
            tab[int(val)] = None
    return tab, body


def uri_escape_table(prog):
    """{byte after backslash: 'keep' (backslash stays) | 'char' (only the char)} and what every other byte leads to, computed byte
    by byte: from the point where the byte after the backslash has been peeked, the branches that depend on it are followed for
    each of the 256 values and the effects up to the loop's `advance` are read off (two pushes / one push / the \\uXXXX reader).
    A `match`, an if-chain with `matches!`, or a helper give the same table."""
    body = prog.get("haystack::encoding::zinc::decode::scalar::uri::parse_uri")
    if body is None:
        return None, None, None
    start = var = None
    for sb in body.rpo():
        t = body.term(sb)
        if t["k"] == "switch":
            d = G.describe(body, t["op"])
            if d.kind == "discr" and "Scanner::peek" in repr(d) and "branch" in repr(d):
                vals = {int(x): tb for x, tb in t["targets"]}
                start = vals.get(0)
                break
    if start is None:
        return None, None, body
    cand = set()
    for sb in body.reachable(start):
        t = body.term(sb)
        if t["k"] == "switch":
            for m in re.finditer(r"(_\d+ as Continue\.0)", repr(G.describe(body, t["op"]))):
                cand.add(m.group(1))
    # the peek's own payload is the first one assigned after `start`
    if not cand:
        return None, None, body
    var = sorted(cand, key=lambda x: int(re.match(r"_(\d+)", x).group(1)))[0]
    tab = {}
    default = {}
    for v in range(256):
        calls = G.calls_along_path(body, var, start, v, scanai.U8_PREDS, stop=("advance",))
        if calls is None:
            return None, None, body
        pushes = sum(1 for c in calls if c == "std::vec::Vec::push")
        uni = any(c.endswith("parse_str_unicode_escape") for c in calls)
        kind = "unicode" if uni else ("keep" if pushes == 2 else ("char" if pushes == 1 else "?"))
        default[kind] = default.get(kind, 0) + 1
        tab[v] = kind
    # the default arm is the behaviour of the bytes not singled out: the most frequent one
    dkind = max(default, key=lambda k: default[k])
    explicit = {v: k for v, k in tab.items() if k != dkind}
    ucalls = G.calls_along_path(body, var, start, ord("u"), scanai.U8_PREDS, stop=("advance",)) or []
    # what happened before the byte was peeked on this path also counts (a read hoisted above the branches is after the peek)
    deff = {"strs": [], "push": [], "calls": [c.split("::")[-1] for c in ucalls] if dkind == "unicode" else []}
    return explicit, deff, body


# ---------------------------------------------------------------------- the checks
def find_writer(prog, type_name):
    for b in prog.bodies.values():
        if b.short == "<haystack::val::%s as haystack::encoding::zinc::encode::ToZinc>::to_zinc" % type_name:
            return b
    return None


def check_str(ctx, rep):
    prog = ctx.prog
    w = find_writer(prog, "string::Str")
    r = prog.get("haystack::encoding::zinc::decode::scalar::str::parse_str")
    if w is None or r is None:
        rep.gap("Str writer/reader", "-", "not found")
        return 0
    tr = writer_transducer(prog, w)
    if tr is None:
        rep.gap("Str writer", w.where(), "no `for c in value.chars()` loop found")
        return 0
    cells, skip, _ = tr
    term, intro = reader_loop_facts(prog, r, ("parse_str_escape",))
    tab, eb = str_escape_table(prog)
    if term is None or intro is None or not tab:
        rep.gap("Str reader tables", r.where(), "terminator=%s introducer=%s escapes=%s" % (term, intro, tab))
        return 0
    before, after = delimiters(w)
    if before[:1] == [chr(term)] and after[-1:] == [chr(term)]:
        rep.ok("T-ESC", "Str:delimiters", w.where(), "writer opens and closes with %r, the reader's terminator" % chr(term))
    else:
        rep.bad("T-ESC", "T-ESC:Str:delimiters", w.where(), "writer delimiters %s/%s do not match the reader's terminator %r" % (before, after, chr(term)))
    return _check_cells(rep, "Str", cells, skip, term, intro, tab, w, domain=UNIVERSE)


def _check_cells(rep, name, cells, skip, term, intro, tab, w, domain, uri_tab=None):
    n = 0
    # cells must be pairwise disjoint (one write per char)
    for i in range(len(cells)):
        for j in range(i + 1, len(cells)):
            if iv_and(cells[i][0], cells[j][0]):
                rep.gap("%s writer cells" % name, cells[i][2], "two write sites cover the same characters %s" % iv_str(iv_and(cells[i][0], cells[j][0])))
    for iv, tpl, where in cells:
        iv = iv_and(iv, domain)
        if not iv:
            continue
        n += 1
        key = "%s:cell:%s:%s" % (name, tpl[0], iv_str(iv))
        if tpl[0] == "raw":
            bad = iv_and(iv, [(term, term), (intro, intro)])
            if bad:
                rep.bad("T-ESC", "T-ESC:" + key, where, "%s writer copies %s verbatim, but the reader treats it as terminator/escape introducer: the value does not read back" % (name, iv_str(bad)))
            else:
                rep.ok("T-ESC", key, where, "copied verbatim; cell avoids the reader's terminator %r and introducer %r" % (chr(term), chr(intro)))
        elif tpl[0] == "lit":
            s = tpl[1]
            ok = False
            why = ""
            if len(iv) == 1 and iv[0][0] == iv[0][1] and len(s) >= 2 and ord(s[0]) == intro:
                c = iv[0][0]
                if uri_tab is not None:
                    kind = uri_tab.get(ord(s[1]))
                    if kind == "char" and len(s) == 2 and ord(s[1]) == c:
                        ok = True
                    elif s[1] == "u" and len(s) == 6:
                        ok = int(s[2:], 16) == c and "unicode-ok" in uri_tab
                        why = "" if ok else "the reader's \\u branch cannot decode it" if "unicode-ok" not in uri_tab else "wrong code point"
                    elif kind == "keep":
                        why = "the reader keeps the backslash for \\%s (value grows by one char)" % s[1]
                    else:
                        why = "the reader has no escape \\%s" % s[1]
                else:
                    dec = tab.get(ord(s[1]))
                    if dec is not None and dec != "unicode" and len(s) == 2 and dec == chr(c):
                        ok = True
                    else:
                        why = "the reader decodes \\%s to %r" % (s[1], dec)
            else:
                why = "escape literal %r for a cell of several characters" % s
            if ok:
                rep.ok("T-ESC", key, where, "%r written as %r, which the reader maps back to it" % (chr(iv[0][0]), s))
            else:
                rep.bad("T-ESC", "T-ESC:" + key, where, "%s writer emits %r for %s but %s" % (name, s, iv_str(iv), why))
        elif tpl[0] == "uesc":
            width, zp = tpl[1], tpl[2]
            over = iv_and(iv, [(0x10000, MAXC)])
            can = (tab.get(ord("u")) == "unicode") if uri_tab is None else ("unicode-ok" in uri_tab)
            if width != 4 or not zp:
                rep.bad("T-ESC", "T-ESC:" + key, where, "\\u escape written with width %s (zero padded: %s); the reader takes exactly 4 hex digits" % (width, zp))
            elif over:
                rep.bad("T-ESC", "T-ESC:" + key, where, "%s writer emits \\u%%04x for %s: more than 4 hex digits, which the reader (4 digits, one UTF-16 unit) cannot decode" % (name, iv_str(over)))
            elif not can:
                rep.bad("T-ESC", "T-ESC:" + key, where, "%s writer emits \\uXXXX for %s but the reader's unicode-escape branch can never succeed" % (name, iv_str(iv)))
            else:
                rep.ok("T-ESC", key, where, "\\u%04x for BMP characters only; the reader decodes 4 hex digits to that code unit")
        else:
            rep.gap("%s writer cell" % name, where, "output template not understood: %s" % (tpl,))
    sk = iv_and(skip, domain)
    key = "%s:skipped:%s" % (name, iv_str(sk))
    if sk:
        rep.bad("T-ESC", "T-ESC:" + key, w.where(), "%s writer drops characters %s of the well-formed domain" % (name, iv_str(sk)))
    else:
        rep.ok("T-ESC", "%s:nothing-skipped" % name, w.where(), "every character of the well-formed domain is written (skipped outside the domain: %s)" % iv_str(skip))
    return n


def uri_unicode_branch_ok(prog):
    """the default arm of parse_uri's escape switch advances the scanner before parse_str_unicode_escape, and that callee
    then has a successful outcome (R-CURSOR: entered with cur == '\\\\' it can only fail)"""
    tab, deff, body = uri_escape_table(prog)
    if body is None or deff is None:
        return False, "parse_uri escape switch not found"
    ai = scanai.AI(prog)
    use = prog.get("haystack::encoding::zinc::decode::scalar::str::parse_str_unicode_escape")
    if use is None:
        return False, "parse_str_unicode_escape not found"
    calls = deff["calls"]
    if "parse_str_unicode_escape" not in calls:
        return False, "default arm does not call parse_str_unicode_escape"
    idx = calls.index("parse_str_unicode_escape")
    advanced = any(c in ("read", "advance", "expect_and_consume") for c in calls[:idx])
    cur = scanai.ALL if advanced else (1 << 92)
    outs = ai.summary(use.id, cur, 0, 2, ())
    ai.solve()
    outs = ai.summary(use.id, cur, 0, 2, ())
    can_ok = any(o[0] == 0 for o in outs)
    if can_ok:
        return True, "the arm consumes the backslash first; callee has an Ok outcome"
    return False, "parse_str_unicode_escape is entered with the cursor still on '\\\\' and has no successful outcome (abstract interpretation: %d outcomes, all Err)" % len(outs)


def check_uri(ctx, rep):
    prog = ctx.prog
    w = find_writer(prog, "uri::Uri")
    r = prog.get("haystack::encoding::zinc::decode::scalar::uri::parse_uri")
    if w is None or r is None:
        rep.gap("Uri writer/reader", "-", "not found")
        return 0
    tr = writer_transducer(prog, w)
    if tr is None:
        rep.gap("Uri writer", w.where(), "no chars loop")
        return 0
    cells, skip, _ = tr
    term, intro = reader_loop_facts(prog, r, ("peek",))
    tab, deff, _ = uri_escape_table(prog)
    if term is None or intro is None or not tab:
        rep.gap("Uri reader tables", r.where(), "terminator=%s introducer=%s escapes=%s" % (term, intro, tab))
        return 0
    ok, why = uri_unicode_branch_ok(prog)
    if ok:
        tab = dict(tab)
        tab["unicode-ok"] = True
        rep.ok("R-CURSOR", "parse_uri:unicode-escape-branch", r.where(), why)
    else:
        rep.bad("R-CURSOR", "R-CURSOR:parse_uri:unicode-escape-branch", r.where(), "a \\uXXXX escape in a Uri can never be decoded: " + why)
    before, after = delimiters(w)
    if before[:1] == [chr(term)] and after[-1:] == [chr(term)]:
        rep.ok("T-ESC", "Uri:delimiters", w.where(), "writer opens and closes with %r" % chr(term))
    else:
        rep.bad("T-ESC", "T-ESC:Uri:delimiters", w.where(), "writer delimiters %s/%s vs reader terminator %r" % (before, after, chr(term)))
    # well-formed Uris contain no control characters, but the reader accepts them (raw or as \uXXXX), so for 're-encoding loses
    # nothing the first decode kept' (C11) the writer has to give them back: the whole of Unicode is the domain
    return _check_cells(rep, "Uri", cells, skip, term, intro, {}, w, domain=UNIVERSE, uri_tab=tab)


def check_raw_interpolations(ctx, rep):
    """strings interpolated with {} between quotes by a writer must go through the Str writer (or be an identifier):
    Ref.dis, XStr.value"""
    prog = ctx.prog
    n = 0
    for tname, field, must_escape in (("reference::Ref", "dis", True), ("xstr::XStr", "value", True)):
        w = find_writer(prog, tname)
        if w is None:
            rep.gap("%s writer" % tname, "-", "not found")
            continue
        n += 1
        raw = []
        escaped = False
        for bi, t in w.calls():
            nm = strip_generics(mir.callee_name(t) or "")
            if nm == "std::io::Write::write_fmt":
                a = fmtargs.arguments_of(w, t["args"][1])
                if a and a[1]:
                    pieces, args = a
                    for k, p in enumerate(pieces):
                        if p[0] == "arg":
                            tr, ty, vop = args[p[1]["index"]]
                            vr = repr(G.describe(w, vop))
                            prev = pieces[k - 1][1] if k > 0 and pieces[k - 1][0] == "lit" else ""
                            if ("." + field) in vr and prev.endswith('"'):
                                raw.append((bi, vr))
            if nm.endswith("Str as haystack::encoding::zinc::encode::ToZinc>::to_zinc"):
                src = repr(G.describe(w, t["args"][0]))
                if ("." + field) in src or True:
                    escaped = True
        key = "%s.%s:quoted-through-Str-writer" % (tname.split("::")[-1], field)
        if raw:
            rep.bad("T-ESC", "T-ESC:" + key, w.where(raw[0][0]), "%s.%s is interpolated between quotes unescaped: a '\"' or '\\' in it ends the literal early when read back" % (tname.split("::")[-1], field))
        elif escaped:
            rep.ok("T-ESC", key, w.where(), "written through the Str writer (same escapes as any Str)")
        else:
            rep.gap(key, w.where(), "could not find how the field is written")
    return n


# ---------------------------------------------------------------------- T-LAYOUT: header line of the Zinc grid writer
def _tag_helpers(prog):
    """private free functions of the Zinc encoder (not trait methods) that hand one of their parameters to write_dict_tags:
    {body id: parameter index (1-based local) whose dict is written}"""
    out = {}
    for b in prog.bodies.values():
        if not b.file.endswith("encoding/zinc/encode.rs") or b.rec["kind"] == "Closure" or (b.rec.get("impl") or {}).get("trait"):
            continue
        if b.rec.get("name") == "write_dict_tags":
            continue
        for bi, t in b.calls():
            if strip_generics(mir.callee_name(t) or "").endswith("encode::write_dict_tags") and len(t["args"]) > 1:
                m = re.match(r"^_(\d+)(\*|\.| as )", repr(G.describe(b, t["args"][1])) + ".")
                if m and int(m.group(1)) <= b.arg_count:
                    out[b.id] = int(m.group(1))
    return out


def meta_tag_sites(prog, w):
    """blocks of writer body `w` that write the tags of a `.meta` dict: a direct write_dict_tags(.., X.meta, ..) or a call of a
    private helper that passes that argument on to write_dict_tags"""
    helpers = _tag_helpers(prog)
    out = []

    def is_meta(op):
        r = repr(G.describe(w, op))
        if ".meta" in r:
            return True
        # the payload of a local that holds (a view of) the meta: `meta.as_ref()` handed to a spliced helper
        m = re.fullmatch(r"_(\d+)( as Some\.0|\*)*", r)
        if m:
            return ".meta" in repr(G.describe_place(w, {"l": int(m.group(1)), "p": []}))
        return False

    for bi, t in w.calls():
        c = callee_of(t)
        nm = strip_generics(mir.callee_name(t) or "")
        if nm.endswith("encode::write_dict_tags"):
            if len(t["args"]) > 1 and is_meta(t["args"][1]):
                out.append(bi)
        elif c is not None:
            for hid, pidx in helpers.items():
                if strip_generics(hid) == nm and len(t["args"]) >= pidx and ".meta" in repr(G.describe(w, t["args"][pidx - 1])):
                    out.append(bi)
    return out


def check_space_before_meta_tags(ctx, rep):
    """wherever the tags of a meta dict are written with ' ' as their separator (grid meta after the version, column meta after
    the name), the write just before them on every path is a single space - in whichever function the call sits"""
    from vlib.dataflow import must_pass

    prog = ctx.prog
    n = 0
    for b in prog.bodies.values():
        if not b.file.endswith("encoding/zinc/encode.rs"):
            continue
        adt = (b.rec.get("impl") or {}).get("self_adt") or ""
        for bi, t in b.calls():
            if not strip_generics(mir.callee_name(t) or "").endswith("encode::write_dict_tags") or len(t["args"]) < 3:
                continue
            sep = G.describe(b, t["args"][2])
            if not (sep.kind == "conststr" and sep.v == " ") or adt.endswith("dict::Dict"):
                continue
            n += 1
            writes = [wb for wb, wt in b.calls() if wb != bi and (strip_generics(mir.callee_name(wt) or "").startswith("std::io::Write::") or strip_generics(mir.callee_name(wt) or "").endswith("encode::write_str"))]
            spaces = [wb for wb in writes if G.describe(b, b.term(wb)["args"][1]).kind == "conststr" and G.describe(b, b.term(wb)["args"][1]).v == " "]
            others = [wb for wb in writes if wb not in spaces and bi in b.reachable(wb)]
            ok, path = must_pass(b, [0], bi, spaces) if 0 not in spaces else (True, None)
            for wb in others:
                o2, p2 = must_pass(b, [wb], bi, spaces)
                ok = ok and o2
            key = "space-before-meta-tags:%s" % (adt.split("::")[-1] or b.rec.get("name"))
            if ok:
                rep.ok("T-LAYOUT", key, b.where(bi), "on every path the write just before the meta tags is a space")
            else:
                rep.bad("T-LAYOUT", "T-LAYOUT:column:space-between-name-and-meta" if "Column" in key or b.rec.get("name") else "T-LAYOUT:" + key, b.where(bi), "meta tags can follow what precedes them without a separating space: the reader sees one long token / rejects the line")
    return n



def check_grid_layout(ctx, rep):
    """the grid writer's header is one line: ver:"..." [space + meta tags] newline, then the column line.
    (The reader requires the meta on the version line and a newline before the columns.)"""
    prog = ctx.prog
    from vlib.dataflow import must_pass

    w = None
    for b in prog.bodies.values():
        if b.short == "<haystack::val::grid::Grid as haystack::encoding::zinc::encode::ZincEncode>::zinc_encode":
            w = b
    if w is None:
        rep.gap("Grid writer", "-", "not found")
        return 0
    ver = meta = None
    nls, cols = [], []
    for bi, t in w.calls():
        nm = strip_generics(mir.callee_name(t) or "")
        if nm == "std::io::Write::write_fmt":
            a = fmtargs.arguments_of(w, t["args"][1])
            if a:
                lits = "".join(p[1] for p in a[0] if p[0] == "lit")
                if lits.startswith("ver:"):
                    ver = (bi, lits)
        elif nm == "std::io::Write::write_all":
            v = G.describe(w, t["args"][1])
            if v.kind == "conststr":
                if v.v == "\n":
                    nls.append(bi)
                if v.v.startswith("empty"):
                    cols.append(bi)
        elif nm.endswith("Column as haystack::encoding::zinc::encode::ToZinc>::to_zinc"):
            cols.append(bi)
    ms = meta_tag_sites(prog, w)
    meta = ms[0] if len(ms) == 1 else None
    if ver is None or meta is None or not cols:
        rep.gap("Grid writer layout", w.where(), "ver=%s meta=%s columns=%s" % (ver, meta, cols))
        return 0
    n = 0
    vb, vl = ver
    if "\n" in vl:
        rep.bad("T-LAYOUT", "T-LAYOUT:grid:ver-line-open", w.where(vb), "the version fragment %r already ends the line: grid meta written after it lands on the column line and the decoder rejects the text" % vl)
    else:
        rep.ok("T-LAYOUT", "grid:ver-line-open", w.where(vb), "version fragment %r leaves the header line open" % vl)
    n += 1
    # no newline between ver and meta
    reach_nl_then_meta = False
    for nb in nls:
        if nb in w.reachable(vb) and meta in w.reachable(nb) and not w.dominates(meta, nb):
            # a newline block lies on some path ver -> meta
            from rules.guards import blocks_between
            if nb in blocks_between(w, vb, meta):
                reach_nl_then_meta = True
    if reach_nl_then_meta:
        rep.bad("T-LAYOUT", "T-LAYOUT:grid:meta-on-ver-line", w.where(meta), "a newline can be written between the version and the grid meta")
    else:
        rep.ok("T-LAYOUT", "grid:meta-on-ver-line", w.where(meta), "no newline is written between the version and the grid meta")
    n += 1
    for cb in cols:
        for src, what in ((vb, "version"), (meta, "grid meta")):
            if cb not in w.reachable(src):
                continue
            ok, path = must_pass(w, [src], cb, nls)
            key = "grid:newline-between-%s-and-columns@%s" % (what.replace(" ", "-"), "empty" if w.term(cb)["k"] == "call" and "write_all" in (mir.callee_name(w.term(cb)) or "") else "cols")
            n += 1
            if ok:
                rep.ok("T-LAYOUT", key, w.where(cb), "every path from the %s to the column line writes a newline first" % what)
            else:
                rep.bad("T-LAYOUT", "T-LAYOUT:" + key, w.where(cb), "the column line can follow the %s without a newline (path %s)" % (what, path))
    return n


# ---------------------------------------------------------------------- alphabet inclusion
def loop_accept_class(prog, ai, body):
    """bytes of Scanner.cur for which the (first) scanner loop of `body` enters its body (reaches Vec::push)"""
    for scc in body.sccs():
        pushes = [b for b in scc if body.term(b)["k"] == "call" and strip_generics(mir.callee_name(body.term(b)) or "") == "std::vec::Vec::push"]
        if not pushes:
            continue
        h = scanai.header_of(body, scc)
        m = 0
        start = (scanai.ALL, 0, 0, 2, frozenset())
        for _ in range(6):
            v0 = ai.version
            IN = ai.run_states(body, h, start, scc)
            ai.solve()
            if ai.version == v0:
                break
        for pb in pushes:
            for k, c in IN.get(pb, {}).items():
                m |= c
        return m
    return None


def check_alphabets(ctx, rep):
    prog = ctx.prog
    ai = scanai.AI(prog)
    D = "haystack::encoding::zinc::decode::"
    lower = scanai.mask_range(97, 122)
    upper = scanai.mask_range(65, 90)
    digit = scanai.mask_range(48, 57)
    want = {
        D + "scalar::reference::parse_ref": ("Ref body", lower | upper | digit | scanai.mask_of(b"_:-.~")),
        D + "scalar::symbol::parse_symbol": ("Symbol body", lower | upper | digit | scanai.mask_of(b"_:-.~")),
        D + "id::parse_literal": ("identifier part", lower | upper | digit | scanai.mask_of(b"_")),
        D + "scalar::date_time::parse_time_zone_name": ("time-zone name part", lower | upper | digit | scanai.mask_of(b"_-+/")),
    }
    n = 0
    for fn, (what, need) in sorted(want.items()):
        body = prog.get(fn)
        if body is None:
            rep.gap(fn, "-", "not found")
            continue
        got = loop_accept_class(prog, ai, body)
        if got is None:
            rep.gap(fn + ":loop", body.where(), "no scanning loop found")
            continue
        n += 1
        miss = need & ~got
        key = "alphabet:%s" % fn.split("::")[-1]
        if miss:
            rep.bad("T-ALPHABET", "T-ALPHABET:" + key, body.where(), "%s: the reader's character class %s lacks %s of the well-formed alphabet: such a value is written but cut short when read back" % (what, scanai.mask_str(got), scanai.mask_str(miss)))
        else:
            rep.ok("T-ALPHABET", key, body.where(), "%s: reader class %s contains the well-formed alphabet" % (what, scanai.mask_str(got)))
    return n


# ---------------------------------------------------------------------- number / timestamp spellings
def check_number_format(ctx, rep, files=("encoding/zinc/encode.rs",)):
    """every f64 interpolated by a writer uses plain `{}` Display (shortest round-trip digits): a width / precision / exponent
    format would change the magnitude that is read back"""
    prog = ctx.prog
    n = 0
    for b in prog.bodies.values():
        if not b.file.endswith(files):
            continue
        seen = 0
        for bi, t in b.calls():
            nm = strip_generics(mir.callee_name(t) or "")
            if nm not in ("std::io::Write::write_fmt", "std::fmt::Formatter::write_fmt", "std::fmt::format"):
                continue
            a = fmtargs.arguments_of(b, t["args"][-1])
            if not a or a[1] is None:
                continue
            pieces, args = a
            for p in pieces:
                if p[0] != "arg":
                    continue
                d = p[1]
                tr, ty, vop = args[d["index"]]
                if ty.replace("&", "").strip() not in ("f64", "f32"):
                    continue
                n += 1
                key = "numfmt:%s#%d" % (b.short, seen)
                seen += 1
                vd = repr(G.describe(b, vop)) if isinstance(vop, dict) else "?"
                if isinstance(vop, dict) and not re.fullmatch(r"&?_1\**(\.[A-Za-z_0-9]+)+\**", vd):
                    # what is written is a stored field itself, sign included: a magnitude computed from it (abs, negation, rounding)
                    # is another number (|-0.0| loses the sign of zero, which the reader restores from the text)
                    rep.bad("T-NUMFMT", "T-NUMFMT:numfmt:%s:computed" % b.short, b.where(bi), "the f64 that is written is %s, a value computed from the field rather than the field: the text denotes a different number for some values (signed zero, rounding)" % vd[:100])
                elif tr == "Display" and d["precision"] is None and d["width"] is None and not d["flags"]:
                    rep.ok("T-NUMFMT", key, b.where(bi), "f64 written with plain {} (shortest digits that read back to the same f64)")
                else:
                    rep.bad("T-NUMFMT", "T-NUMFMT:numfmt:%s" % b.short, b.where(bi), "an f64 is written through %s with width=%s precision=%s flags=%s: the text no longer determines the same f64" % (tr, d["width"], d["precision"], d["flags"]))
    return n


def check_timestamp_format(ctx, rep):
    """timestamps are written with to_rfc3339_opts(SecondsFormat::AutoSi | Nanos, _): a coarser SecondsFormat drops sub-second digits"""
    prog = ctx.prog
    n = 0
    for b in prog.bodies.values():
        if not (b.file.endswith("encoding/zinc/encode.rs") or b.file.endswith("encoding/json/encode.rs") or b.file.endswith("val/datetime.rs")):
            continue
        for bi, t in b.calls():
            nm = strip_generics(mir.callee_name(t) or "")
            if not nm.endswith("::to_rfc3339_opts"):
                continue
            n += 1
            fmtv = G.describe(b, t["args"][1])
            key = "tsfmt:%s#%d" % (b.short, bi)
            if b.rec.get("name") == "to_rfc3339_opts" and fmtv.kind == "place":
                rep.ok("T-TSFMT", "tsfmt:%s:forwarder" % b.short, b.where(bi), "forwards its caller's SecondsFormat")
            elif fmtv.kind == "agg" and fmtv.v in ("AutoSi", "Nanos"):
                rep.ok("T-TSFMT", "tsfmt:%s" % b.short, b.where(bi), "SecondsFormat::%s keeps every sub-second digit" % fmtv.v)
            else:
                rep.bad("T-TSFMT", "T-TSFMT:tsfmt:%s" % b.short, b.where(bi), "timestamp written with SecondsFormat %r: sub-second digits are dropped, the instant read back differs" % fmtv)
    return n


# ---------------------------------------------------------------------- T-SEP / T-NEST: collection layout of the Zinc writer
def check_separators(ctx, rep):
    """every separator written inside a `for (i, x) in coll.iter().enumerate()` loop of the Zinc writer is guarded by
    `i < coll.len() - 1` on that same collection (one separator between elements, none after the last)"""
    prog = ctx.prog
    n = 0
    for b in prog.bodies.values():
        if not b.file.endswith("encoding/zinc/encode.rs"):
            continue
        k = 0
        for bi, t in b.calls():
            nm = strip_generics(mir.callee_name(t) or "")
            if nm != "std::io::Write::write_all":
                continue
            v = G.describe(b, t["args"][1])
            is_sep = (v.kind == "conststr" and v.v in (",", " ")) or (v.kind == "place" and re.fullmatch(r"_\d+\*?", v.v) and b.rec.get("name") == "write_dict_tags")
            if not is_sep:
                continue
            gs = G.guards_at(b, bi)
            # only separators written from inside an enumerate loop
            loops = [g for g in gs if g.a is not None and g.a.kind == "discr" and g.op == "Eq" and g.b.v == 1 and g.a.args and ("Enumerate" in repr(g.a.args[0]) or "Peekable" in repr(g.a.args[0]))]
            if not loops:
                continue
            n += 1
            key = "separator:%s#%d" % (b.short, k)
            k += 1
            it = repr(loops[-1].a.args[0])
            ok = False
            why = "no `i < len - 1` guard"
            for g in gs:
                if g.op == "Lt" and g.b is not None and g.b.kind == "binop" and g.b.v == "Sub" and len(g.b.args) == 2:
                    ln, one = g.b.args
                    if one.kind == "const" and one.v == 1 and ln.kind == "call" and ln.v.endswith("::len") and ln.args:
                        coll = repr(ln.args[0])
                        idx = repr(g.a)
                        from rules.panic import _contains_token

                        if not _contains_token(it, coll):
                            why = "the length is of %s but the loop iterates %s" % (coll, it[:80])
                        elif not re.search(r"as Some\.0\.0$", idx):
                            why = "left operand %s is not the enumerate index" % idx
                        else:
                            ok = True
                elif g.op in ("Le", "Lt") and g.b is not None and "len" in repr(g.b):
                    why = "guard is %r, expected index < len - 1" % g
            form = "after each element but the last (index < len - 1)"
            # the peekable spelling of the same thing: after the element, `if it.peek().is_some() { separator }` on the loop's own iterator
            if not ok and "Peekable" in it:
                for g in gs:
                    if g.op == "True" and g.a is not None and g.a.kind == "call" and g.a.v.endswith("Option::is_some") and g.a.args and g.a.args[0].kind == "call" and g.a.args[0].v.endswith("Peekable::peek"):
                        itn = repr(loops[0].a.args[0].args[0]) if loops[0].a.args[0].args else ""
                        if repr(g.a.args[0].args[0]) == itn or itn in repr(g.a.args[0].args[0]) or repr(g.a.args[0].args[0]) in itn:
                            ok = True
                            form = "after each element that has a successor (peek().is_some())"
                        else:
                            why = "peek() is taken on another iterator than the one the loop advances"
            # where the separator sits in the iteration: the element writes are the other calls that receive the writer
            hdr = loops[0].block  # innermost enumerate loop around the separator
            wr = repr(G.describe(b, t["args"][0]))
            elems = [eb for eb, et in b.calls() if eb != bi and et["args"] and any(repr(G.describe(b, a)) == wr for a in et["args"]) and hdr in b.reachable(eb) and eb in b.reachable(hdr)
                     and not strip_generics(mir.callee_name(et) or "").endswith("Try>::branch")]

            def reach_avoiding(src, avoid):
                seen, st = {src}, [src]
                while st:
                    x = st.pop()
                    for y in b.succ(x):
                        if y != avoid and y not in seen:
                            seen.add(y)
                            st.append(y)
                return seen

            if ok:
                # trailing form: no element write of the same iteration comes after the separator
                after = reach_avoiding(bi, hdr)
                if any(e in after for e in elems):
                    ok = False
                    why = "the separator is guarded like a trailing one (index < len - 1) but an element is written after it in the same iteration"
            else:
                # leading form: `index > 0` / `index != 0`, written before every element write of the iteration
                for g in gs:
                    idx = repr(g.a) if g.a is not None else ""
                    lead = ((g.op in ("Gt", "Ne") and g.b is not None and g.b.kind == "const" and g.b.v == 0 and re.search(r"as Some\.0\.0$", idx))
                            or (g.op == "Lt" and g.a is not None and g.a.kind == "const" and g.a.v == 0 and re.search(r"as Some\.0\.0$", repr(g.b))))
                    if lead:
                        before_ok = all(bi not in reach_avoiding(e, hdr) for e in elems) and bool(elems)
                        if before_ok:
                            ok = True
                            form = "before each element but the first (index > 0)"
                        else:
                            why = "the separator is guarded like a leading one (index > 0) but an element is written before it in the same iteration"
            if ok:
                rep.ok("T-SEP", key, b.where(bi), "separator written %s of the iterated collection" % form)
            else:
                rep.bad("T-SEP", "T-SEP:" + key, b.where(bi), "separator in %s is not written exactly between elements: %s" % (b.short.split("::")[-1], why))
    return n


def check_nesting_flag(ctx, rep):
    """elements of lists, dict values and grid cells are written with InnerGrid::Yes (nested grids need << >>); only the
    top-level entry points start with InnerGrid::No; Value::zinc_encode forwards its flag to Grid"""
    prog = ctx.prog
    n = 0
    for b in prog.bodies.values():
        if not b.file.endswith("encoding/zinc/encode.rs"):
            continue
        k = 0
        for bi, t in b.calls():
            nm = strip_generics(mir.callee_name(t) or "")
            if not nm.endswith("ZincEncode>::zinc_encode") and nm != "haystack::encoding::zinc::encode::ZincEncode::zinc_encode":
                continue
            n += 1
            flag = G.describe(b, t["args"][2])
            key = "nesting:%s#%d" % (b.short, k)
            k += 1
            top = b.rec.get("name") == "to_zinc" and (b.rec.get("impl") or {}).get("self_adt") in ("haystack::val::value::Value", "haystack::val::grid::Grid")
            fwd = b.rec.get("name") == "zinc_encode" and (b.rec.get("impl") or {}).get("self_adt") == "haystack::val::value::Value"
            if top:
                ok = flag.kind == "agg" and flag.v == "No"
                exp = "No (top level)"
            elif fwd:
                ok = flag.kind == "place" and re.fullmatch(r"_3\*?", flag.v) is not None
                exp = "the caller's flag"
            else:
                ok = flag.kind == "agg" and flag.v == "Yes"
                exp = "Yes (nested position)"
            if ok:
                rep.ok("T-NEST", key, b.where(bi), "passes %s" % exp)
            else:
                rep.bad("T-NEST", "T-NEST:" + key, b.where(bi), "%s passes %r to zinc_encode, expected %s: a nested grid would be written without / with stray << >>" % (b.short.split("::")[-1], flag, exp))
    return n


def check_column_layout(ctx, rep):
    """a grid column is written as name [space meta-tags]: the name comes first, and wherever the meta tags are written (in the
    Column writer or in a private helper it calls) the write just before them is a space"""
    prog = ctx.prog
    w = find_writer(prog, "grid::Column")
    if w is None:
        rep.gap("Column writer", "-", "not found")
        return 0
    name = None
    for bi, t in w.calls():
        nm = strip_generics(mir.callee_name(t) or "")
        if nm.endswith("encode::write_str") and ".name" in repr(G.describe(w, t["args"][1])):
            name = bi
    ms = meta_tag_sites(prog, w)
    if name is None or not ms:
        rep.gap("Column writer layout", w.where(), "name=%s meta=%s" % (name, ms))
        return 0
    if all(w.dominates(name, m) for m in ms):
        rep.ok("T-LAYOUT", "column:name-before-meta", w.where(ms[0]), "the column name is written before its meta tags on every path")
    else:
        rep.bad("T-LAYOUT", "T-LAYOUT:column:name-before-meta", w.where(ms[0]), "column meta can be written without the column name before it")
    nsp = check_space_before_meta_tags(ctx, rep)
    rep.floor("space-separated meta tag lists (grid meta, column meta)", nsp, 1)
    return 1 + nsp + check_tag_separators(ctx, rep)


# separator between the tags of a tag list, by the construct that contains the list (Zinc grammar: meta tags of a grid and of a
# column are separated by blanks - a comma there would start the next column; dict tags by blanks or commas)
TAG_SEPARATORS = {"grid::Column": (" ",), "grid::Grid": (" ",), "dict::Dict": (",", " ")}


def check_tag_separators(ctx, rep):
    prog = ctx.prog
    n = 0
    contexts = set()
    for b in prog.bodies.values():
        if not b.file.endswith("encoding/zinc/encode.rs"):
            continue
        k = 0
        for bi, t in b.calls():
            nm = strip_generics(mir.callee_name(t) or "")
            if not nm.endswith("encode::write_dict_tags"):
                continue
            adt = (b.rec.get("impl") or {}).get("self_adt") or ""
            want = next((v for a, v in TAG_SEPARATORS.items() if adt.endswith(a)), None)
            if want is None and not adt:
                # a private helper: the contexts are those of its callers
                ctxs = set()
                for cb in prog.bodies.values():
                    if cb.file.endswith("encoding/zinc/encode.rs"):
                        for _cbi, ct in cb.calls():
                            if strip_generics(mir.callee_name(ct) or "") == strip_generics(b.id):
                                ctxs.add((cb.rec.get("impl") or {}).get("self_adt") or "")
                wants = [next((v for a, v in TAG_SEPARATORS.items() if c.endswith(a)), None) for c in ctxs]
                if wants and all(x is not None for x in wants):
                    common = set(wants[0])
                    for x in wants[1:]:
                        common &= set(x)
                    want = tuple(sorted(common))
                    adt = "+".join(sorted(c.split("::")[-1] for c in ctxs))
                    contexts |= {c.split("::")[-1] for c in ctxs}
            sep = G.describe(b, t["args"][2]) if len(t["args"]) > 2 else None
            n += 1
            if "+" not in adt:
                contexts.add(adt.split("::")[-1])
            key = "tag-separator:%s#%d" % (adt.split("::")[-1] or b.short, k)
            k += 1
            if want is None:
                rep.bad("T-SEP", "T-SEP:tag-separator:unknown-context:%s" % b.short, b.where(bi), "write_dict_tags is called from %s, for which no separator is specified" % b.short)
            elif sep is not None and sep.kind == "conststr" and sep.v in want:
                rep.ok("T-SEP", key, b.where(bi), "tags of a %s are separated by %r" % (adt.split("::")[-1], sep.v))
            else:
                rep.bad("T-SEP", "T-SEP:tag-separator:%s" % adt.split("::")[-1], b.where(bi), "the tags of a %s are separated by %s, the grammar has %s there (a ',' between column meta tags starts a new column for the reader)" % (adt.split("::")[-1], sep, " or ".join(repr(x) for x in want)))
    rep.floor("contexts in which a tag list is written (Dict, grid meta, column meta)", len(contexts), 3)
    return n


# ---------------------------------------------------------------------- R-WRITEALL
def check_write_methods(ctx, rep, files=("encoding/zinc/encode.rs",)):
    """encoders hand bytes to the sink only through write_all / write_fmt: a bare Write::write may accept fewer bytes
    than offered (its count would have to be checked), silently truncating the output on a slow sink"""
    prog = ctx.prog
    n = 0
    for b in prog.bodies.values():
        if not b.file.endswith(files):
            continue
        k = 0
        for bi, t in b.calls():
            c = callee_of(t)
            if c is None:
                continue
            fn = strip_generics(c["fn"])
            if not fn.startswith("std::io::Write::"):
                continue
            n += 1
            meth = fn.split("::")[-1]
            key = "write-method:%s:%s#%d" % (b.short, meth, k)
            k += 1
            if meth in ("write_all", "write_fmt", "flush"):
                rep.ok("R-WRITEALL", key, b.where(bi), "%s delivers every byte or fails" % meth)
            else:
                rep.bad("R-WRITEALL", "R-WRITEALL:write-method:%s:%s" % (b.short, meth), b.where(bi), "%s calls Write::%s: a short write drops the rest of the fragment without any error" % (b.short.split("::")[-1], meth))
    return n


def check_element_encoding(ctx, rep):
    """collection writers encode their Value elements through zinc_encode (which carries the nesting flag), never through
    Value::to_zinc / Grid::to_zinc (which restart at top level and would write a nested grid without << >>)"""
    prog = ctx.prog
    n = 0
    for b in prog.bodies.values():
        if not b.file.endswith("encoding/zinc/encode.rs"):
            continue
        if b.rec.get("name") in ("to_zinc_string",):
            continue
        for bi, t in b.calls():
            nm = strip_generics(mir.callee_name(t) or "")
            if nm in ("<haystack::val::value::Value as haystack::encoding::zinc::encode::ToZinc>::to_zinc", "<haystack::val::grid::Grid as haystack::encoding::zinc::encode::ToZinc>::to_zinc"):
                n += 1
                rep.bad("T-NEST", "T-NEST:element-via-to_zinc:%s" % b.short, b.where(bi), "%s encodes an element through %s, which restarts at top level: a grid in that position is written without << >>" % (b.short.split("::")[-1], nm.split(" as ")[0].split("::")[-1] + "::to_zinc"))
    rep.ok("T-NEST", "elements-never-via-top-level-to_zinc", "-", "no collection writer calls Value::to_zinc / Grid::to_zinc on an element") if n == 0 else None
    return n


def check_cell_presence_only(ctx, rep, residual=True):
    """a grid cell is left empty exactly when the row has no tag of that column: the cell write is guarded by the presence
    test of row.get(col.name) and by nothing that depends on the tag's value"""
    prog = ctx.prog
    w = None
    for b in prog.bodies.values():
        if b.short == "<haystack::val::grid::Grid as haystack::encoding::zinc::encode::ZincEncode>::zinc_encode":
            w = b
    if w is None:
        rep.gap("Grid writer", "-", "not found")
        return 0
    n = 0
    for bi, t in w.calls():
        nm = strip_generics(mir.callee_name(t) or "")
        if not nm.endswith("Value as haystack::encoding::zinc::encode::ZincEncode>::zinc_encode"):
            continue
        n += 1
        gs = G.guards_at(w, bi)
        pres = [g for g in gs if g.a is not None and g.a.kind == "discr" and g.op == "Eq" and g.b.v == 1 and g.a.args and g.a.args[0].kind == "call" and re.search(r"(BTreeMap|HaystackDict>)::get$", g.a.args[0].v)]
        other = [g for g in gs if g.a is not None and g.a.kind == "discr" and g.op == "Eq" and g.b.v == 1 and g.a.args and g.a.args[0].kind == "call" and re.search(r"Option::(filter|and_then|map|or|xor|take_if|filter_map)", g.a.args[0].v)]
        val_dep = [g for g in gs if g.a is not None and g.a.kind == "call" and re.search(r"Value::(is_|has_)", g.a.v)]
        key = "grid-cell:presence-only#%d" % (n - 1)
        if pres and not other and not val_dep:
            rep.ok("T-CELL", key, w.where(bi), "cell written iff row.get(column name) is Some")
        else:
            rep.bad("T-CELL", "T-CELL:grid-cell:presence-only", w.where(bi), "the grid cell write depends on more than the tag's presence (%s): some present tags are written as empty cells and are lost when read back" % (other or val_dep or "no direct get() presence test"))
    return n + check_row_line_not_empty(ctx, rep, w, residual)


def check_row_line_not_empty(ctx, rep, w, residual=True):
    """no row is written as an empty line (the reader, like every Zinc reader, takes an empty line as white space / the end of
    the grid and the row is lost): on the path where the row has no value for the column, the writer reaches the next
    column only through a write, or with `columns.len() != 1` (then the line has at least one ',')"""
    pres = None
    for bi in range(w.n):
        t = w.term(bi)
        if t["k"] != "switch":
            continue
        d = G.describe(w, t["op"])
        if d.kind == "discr" and d.args and d.args[0].kind == "call" and re.search(r"(BTreeMap|HaystackDict>)::get$", d.args[0].v) and ".name" in repr(d.args[0]):
            vals = {int(v): tb for v, tb in t["targets"]}
            none_edge = vals.get(0, t["otherwise"] if 1 in vals else None)
            pres = (bi, none_edge)
    if pres is None or pres[1] is None:
        rep.gap("Grid writer: cell presence test", w.where(), "switch on row.get(col.name) not found")
        return 0
    sw, start = pres
    # the inner (per column) loop header: the Enumerate::next call block that dominates the presence test and is in a cycle with it
    header = None
    for scc in w.sccs():
        if sw in scc:
            cands = [b2 for b2 in scc if w.term(b2)["k"] == "call" and strip_generics(mir.callee_name(w.term(b2)) or "").endswith("Enumerate as std::iter::Iterator>::next")]
            if cands:
                # innermost: the one closest (fewest blocks between)
                header = min(cands, key=lambda h: len(G.blocks_between(w, h, sw)))
    if header is None:
        rep.gap("Grid writer: column loop", w.where(sw), "enumerate loop around the cell write not found")
        return 0
    writes = {bi for bi, t in w.calls() if strip_generics(mir.callee_name(t) or "").startswith("std::io::Write::")}
    cut_edges = set()
    for bi in range(w.n):
        t = w.term(bi)
        if t["k"] == "switch":
            d = G.describe(w, t["op"])
            if d.kind == "binop" and d.v in ("Eq", "Ne") and len(d.args) == 2 and d.args[1].kind == "const" and d.args[1].v == 1 and d.args[0].kind == "call" and d.args[0].v.endswith("::len") and ".columns" in repr(d.args[0]):
                vals = {int(v): tb for v, tb in t["targets"]}
                ne_edge = vals.get(0, None) if d.v == "Eq" else (t["otherwise"] if 0 in vals else vals.get(1))
                if ne_edge is not None:
                    cut_edges.add((bi, ne_edge))
    seen, st = {start}, [start]
    silent = None
    while st:
        x = st.pop()
        if x == header:
            silent = x
            break
        if x in writes:
            continue
        for y in w.succ(x):
            if (x, y) in cut_edges or y in seen:
                continue
            seen.add(y)
            st.append(y)
    if silent is None:
        rep.ok("T-CELL", "row-line-not-empty", w.where(sw), "a missing cell either writes a placeholder or the grid has more than one column (the line holds a ',')")
        # what the placeholder reads back as: the Zinc grammar has no spelling for 'no cell' on a one-cell line other than N,
        # which the reader stores as an explicit Null value - missing and Null are told apart everywhere else
        ph = [bi for bi in seen if bi in writes and G.describe(w, w.term(bi)["args"][1]).kind == "conststr" and G.describe(w, w.term(bi)["args"][1]).v == "N"]
        if ph and residual:
            rep.bad("T-CELL", "T-CELL:single-column-missing-cell-reads-as-null", w.where(ph[0]), "in a single-column grid a row without a value is written as N and read back as a row whose cell is Null ({} becomes {col: N}); Zinc cannot spell a missing cell on a one-cell line")
    else:
        rep.bad("T-CELL", "T-CELL:row-line-not-empty", w.where(sw), "a row without a value in a single-column grid is written as an empty line, which readers skip or take as the end of the grid: the row (and with a reference reader every row after it) is lost")
    return 1


def check_parsed_elements_kept(ctx, rep):
    """every element the Zinc reader parses inside a collection is stored: the insert / push that puts a parsed value into the dict,
    list or row is not conditional on a property of that value (a reader that leaves out `N` cells turns an explicit Null into a
    missing cell). The `?` on the parse itself is the only condition on the value"""
    prog = ctx.prog
    n = 0
    for b in prog.bodies.values():
        if "/zinc/decode/complex/" not in b.file or "::test" in b.id:
            continue
        for bi, t in b.calls():
            nm = strip_generics(mir.callee_name(t) or "")
            if not nm.endswith(("BTreeMap::insert", "Vec::push", "Dict::insert")):
                continue
            vals = [G.expand_locals(b, repr(G.describe(b, a))) for a in t["args"][1:]]
            if not any("parse_value(" in v or "parse_nested_value(" in v for v in vals):
                continue
            n += 1
            fn = strip_generics(b.rec.get("root", b.id)).split("::")[-1]
            key = "parsed-element-kept:%s:%s" % (fn, nm.split("::")[-1])
            offending = []
            for g in G.guards_at(b, bi):
                if g.a is None:
                    continue
                r = G.expand_locals(b, repr(g.a))
                if ("parse_value(" in r or "parse_nested_value(" in r) and g.a.kind == "call" and not strip_generics(g.a.v).endswith(("Parser::parse_value", "Parser::parse_nested_value", "Try>::branch")):
                    offending.append(strip_generics(g.a.v).split("::")[-1])
            if offending:
                rep.bad("T-KEEP", "T-KEEP:" + key, b.where(bi), "%s stores the parsed value only under %s of that value: values for which the test fails are read and then left out" % (fn, offending))
            else:
                rep.ok("T-KEEP", key, b.where(bi), "stored whatever its value")
    return n


def check_quoted_interpolations(ctx, rep):
    """closed world over every formatter in src/haystack: a text put between double quotes by a format string is either a constant
    or has gone through the Str writer - never a String field interpolated as it is (a `"` or `\\` inside it ends the literal early
    when the text is read back). The one place that prints `@id "dis"` with escaping is Ref's Zinc writer; `Display for Ref`, which
    the filter printer uses for `*==` and relationship terms, prints the id only"""
    prog = ctx.prog
    n = 0
    bad = []
    for b in prog.bodies.values():
        if "::test" in b.id or not b.file.startswith("src/haystack/"):
            continue
        for bi, t in b.calls():
            nm = strip_generics(mir.callee_name(t) or "")
            if nm not in ("std::io::Write::write_fmt", "std::fmt::Formatter::write_fmt", "std::fmt::format"):
                continue
            a = fmtargs.arguments_of(b, t["args"][-1])
            if not a or not a[1]:
                continue
            pieces, args = a
            for k, p in enumerate(pieces):
                if p[0] != "arg":
                    continue
                prev = pieces[k - 1][1] if k > 0 and pieces[k - 1][0] == "lit" else ""
                if not prev.endswith('"'):
                    continue
                n += 1
                tr, ty, vop = args[p[1]["index"]]
                v = G.describe(b, vop)
                if v.kind == "conststr":
                    continue
                bad.append((b, bi, ty, repr(v)[:80]))
    if bad:
        b, bi, ty, what = bad[0]
        rep.bad("T-ESC", "T-ESC:quoted-interpolation:%s" % b.short, b.where(bi), "%s puts %s (%s) between double quotes without escaping: a quote or backslash in it breaks the literal when the text is parsed again" % (b.short.split("::")[-2] if "::" in b.short else b.short, what, ty))
    else:
        rep.ok("T-ESC", "quoted-interpolation:none-raw", "-", "%d quoted interpolation(s) in src/haystack, all constants" % n)
    return n
