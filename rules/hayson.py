"""C02 / C05: Hayson writer tables vs reader tables vs the transcribed specification; member-order independence."""
import json
import os
import re

from rules import guards as G
from rules import kinds as K
from vlib import mir
from vlib.dataflow import forward
from vlib.mir import callee_of, op_place, strip_generics

SPEC = os.path.join(os.path.dirname(os.path.dirname(os.path.abspath(__file__))), "spec", "hayson.json")
JD = "haystack::encoding::json::decode::"
GETTERS = {"get_str": "string", "get_num": "number", "get_dict": "object", "get_list": "array", "get_bool": "bool", "get": "any"}


def json_type(ty):
    t = ty.replace("&", "").replace("'_ ", "").strip()
    m = re.match(r"^std::option::Option<(.*)>$", t)
    if m:
        return json_type(m.group(1))  # Some(x) is written as x (None as null)
    if t in ("str", "std::string::String"):
        return "string"
    if t == "f64":
        return "number"
    if "dict::Dict" in t and "Vec" not in t:
        return "object"
    if t.startswith("std::vec::Vec"):
        return "array"
    if t == "bool":
        return "bool"
    return "?" + t


def writer_tables(prog):
    """ADT -> {"tag": str|None, "entries": {key: (json type, always written?)}, "body": body}"""
    out = {}
    for b in prog.bodies.values():
        im = b.rec.get("impl") or {}
        if im.get("trait") != "serde::Serialize" or b.rec.get("name") != "serialize" or b.rec["kind"] == "Closure":
            continue
        adt = im.get("self_adt")
        entries = {}
        tag = None
        sites = {}
        for bi, t in b.calls():
            nm = strip_generics(mir.callee_name(t) or "")
            if nm != "serde::ser::SerializeMap::serialize_entry":
                continue
            k = G.describe(b, t["args"][1])
            if k.kind != "conststr":
                entries["<dynamic>"] = ("any", True)
                continue
            c = callee_of(t)
            targs = [x for x in c.get("targs", []) if not x.startswith("'")]
            vty = targs[-1] if targs else "?"
            if k.v == "_kind":
                v = G.describe(b, t["args"][2])
                tag = v.v if v.kind == "conststr" else None
                continue
            sites[k.v] = bi
            if k.v in entries and isinstance(entries[k.v], list):
                entries[k.v][0].add(json_type(vty))
            else:
                entries[k.v] = [{json_type(vty)}, False]
        # which keys are written on every non-error path
        def transfer(bi, facts):
            f = set(facts)
            t = b.term(bi)
            if t["k"] == "call":
                nm = strip_generics(mir.callee_name(t) or "")
                if nm.endswith("as std::ops::FromResidual>::from_residual"):
                    return {}
                if nm == "serde::ser::SerializeMap::serialize_entry":
                    k = G.describe(b, t["args"][1])
                    if k.kind == "conststr":
                        f.add(k.v)
            return frozenset(f)
        # "always" is relative to the paths that write the tagged object at all (a unit-less number is plain JSON)
        kind_sites = [bi for bi, t in b.calls() if strip_generics(mir.callee_name(t) or "") == "serde::ser::SerializeMap::serialize_entry" and G.describe(b, t["args"][1]).kind == "conststr" and G.describe(b, t["args"][1]).v == "_kind"]
        start = b.term(kind_sites[0]).get("t", 0) if kind_sites else 0
        IN = forward(b, frozenset(), transfer, must=True, start=start)
        always = None
        for bi in range(b.n):
            if b.term(bi)["k"] == "return" and bi in IN:
                always = set(IN[bi]) if always is None else (always & set(IN[bi]))
        for k in entries:
            if isinstance(entries[k], list):
                entries[k] = ("|".join(sorted(entries[k][0])), k in (always or set()))
        out[adt] = {"tag": tag, "entries": entries, "body": b}
    return out


def reader_tables(prog):
    """parse fn short name -> {key: (json type, required?)}, including keys read in its closures"""
    out = {}
    for b in prog.bodies.values():
        if not b.file.endswith("encoding/json/decode.rs"):
            continue
        root = b.rec.get("root", b.id) if b.rec["kind"] == "Closure" else b.id
        rname = strip_generics(root).split("::")[-1]
        if not rname.startswith("parse_"):
            continue
        is_closure = b.rec["kind"] == "Closure"
        tab = out.setdefault(rname, {})
        etab = out.setdefault(rname + ":element", {}) if is_closure else None
        for bi, t in b.calls():
            nm = strip_generics(mir.callee_name(t) or "")
            m = re.search(r"(?:HaystackDict>::|BTreeMap::)(get(?:_[a-z]+)?)$", nm)
            if not m or len(t["args"]) < 2:
                continue
            k = G.describe(b, t["args"][1])
            if k.kind != "conststr":
                continue
            jt = GETTERS.get(m.group(1), "any")
            if is_closure:
                # members read from a closure argument (grid columns / rows) form the element's own table; a closure that reads
                # the captured dict of its parent (`.or_else(|| dict.get_num(..))`) reads the parent's members
                rcv = repr(G.describe(b, t["args"][0]))
                tab = out[rname] if re.match(r"_1[.*]", rcv) else etab
            # required? follow the None edge of the result
            req = None
            dl = t["dest"]["l"] if not t["dest"]["p"] else None
            if dl is not None:
                for sb in b.rpo():
                    st = b.term(sb)
                    if st["k"] != "switch":
                        continue
                    pl = op_place(st["op"])
                    sd = b.single_def(pl["l"]) if pl is not None and not pl["p"] else None
                    if sd and sd[1] != "term" and sd[2]["k"] == "discr" and not sd[2]["place"]["p"] and sd[2]["place"]["l"] == dl:
                        vals = {int(x[0]): x[1] for x in st["targets"]}
                        none_edge = vals.get(0, st["otherwise"] if 1 in vals else None)
                        r = K.arm_result(b, none_edge) if none_edge is not None else None
                        if r and r[0] == "variant":
                            req = r[1] == "Err"
                        break
            old = tab.get(k.v)
            types = set(old[0].split("|")) if old else set()
            types.add(jt)
            tab[k.v] = ("|".join(sorted(types)), bool(req) if req is not None and not old else ((old[1] if old else False) if req is None else (old[1] and bool(req)) if old else bool(req)))
    return out


def dispatch_table(prog):
    """`_kind` tag -> (what happens inside the member loop, parse function after the loop)"""
    vm = next((b for b in prog.bodies.values() if b.short == "<haystack::encoding::json::decode::JsonValueDecoderVisitor as serde::de::Visitor>::visit_map"), None)
    if vm is None:
        return None, None
    in_loop, after = {}, {}
    loop = None
    for scc in vm.sccs():
        if any(strip_generics(mir.callee_name(vm.term(b)) or "") == "serde::de::MapAccess::next_entry" for b in scc if vm.term(b)["k"] == "call"):
            loop = scc
    for b in vm.rpo():
        t = vm.term(b)
        if t["k"] != "call":
            continue
        nm = strip_generics(mir.callee_name(t) or "")
        if not (nm.endswith("for str>::eq") or nm.endswith("PartialEq for &A>::eq") or nm.endswith("for std::string::String>::eq")):
            continue
        lits = [G.describe(vm, a) for a in t["args"]]
        lit = [v.v for v in lits if v.kind == "conststr"]
        if not lit or "t" not in t:
            continue
        sw = vm.term(t["t"])
        if sw["k"] != "switch":
            continue
        vals = {int(x[0]): x[1] for x in sw["targets"]}
        te = sw["otherwise"] if 0 in vals else vals.get(1)
        if te is None:
            continue
        # first interesting thing on the true edge
        seen = {te}
        st = [te]
        what = None
        n = 0
        while st and n < 10 and what is None:
            x = st.pop(0)
            n += 1
            tt = vm.term(x)
            if tt["k"] == "call":
                cn = strip_generics(mir.callee_name(tt) or "")
                if cn.startswith(JD + "parse_"):
                    what = cn.split("::")[-1]
                elif cn.startswith("haystack::val::value::Value::make_"):
                    what = "return:" + cn.split("::")[-1]
            if tt["k"] == "return":
                what = what or "return"
            for y in vm.succ(x):
                if y not in seen and len(vm.pred(y)) <= 1:
                    seen.add(y)
                    st.append(y)
        (in_loop if loop and b in loop else after)[lit[0]] = what
    return (in_loop, after), vm


KIND_ADT = {
    "number": "number::Number", "ref": "reference::Ref", "symbol": "symbol::Symbol", "uri": "uri::Uri", "date": "date::Date", "time": "time::Time",
    "dateTime": "datetime::DateTime", "coord": "coord::Coord", "xstr": "xstr::XStr", "grid": "grid::Grid", "marker": "marker::Marker", "na": "na::Na", "remove": "remove::Remove",
}


def check_tables(ctx, rep, with_spec):
    prog = ctx.prog
    wt = writer_tables(prog)
    rt = reader_tables(prog)
    disp, vm = dispatch_table(prog)
    if disp is None:
        rep.gap("visit_map", "-", "not found")
        return 0
    in_loop, after = disp
    spec = json.load(open(SPEC)) if with_spec else None
    n = 0
    for tag, adt_s in sorted(KIND_ADT.items()):
        adt = "haystack::val::" + adt_s
        w = wt.get(adt)
        if w is None:
            rep.gap("Serialize for " + adt_s, "-", "impl not found")
            continue
        n += 1
        where = w["body"].where()
        # tag written == tag dispatched
        key = "%s:_kind" % tag
        if w["tag"] != tag:
            rep.bad("T-HAYSON", "T-HAYSON:" + key, where, "Serialize for %s writes \"_kind\":%r, expected %r" % (adt_s.split("::")[-1], w["tag"], tag))
            continue
        fieldless = tag in ("marker", "na", "remove")
        if fieldless:
            if (in_loop.get(tag) or "").startswith("return:make_" + tag):
                rep.ok("T-HAYSON", key, where, "tag %r written; reader returns make_%s()" % (tag, tag))
            else:
                rep.bad("T-HAYSON", "T-HAYSON:" + key, vm.where(), "reader does not map \"_kind\":%r to a %s (does: %s)" % (tag, tag, in_loop.get(tag)))
            continue
        pf = after.get(tag)
        if pf is None or tag not in in_loop:
            rep.bad("T-HAYSON", "T-HAYSON:" + key, vm.where(), "reader does not dispatch \"_kind\":%r (inside loop: %s, after loop: %s)" % (tag, in_loop.get(tag), pf))
            continue
        want_pf = "parse_" + tag.lower()
        if pf != want_pf:
            rep.bad("T-HAYSON", "T-HAYSON:" + key, vm.where(), "\"_kind\":%r is dispatched to %s, expected %s" % (tag, pf, want_pf))
            continue
        rep.ok("T-HAYSON", key, where, "tag %r written and dispatched to %s" % (tag, pf))
        r = rt.get(pf, {})
        for k, (jt, always) in sorted(w["entries"].items()):
            kk = "%s:field:%s" % (tag, k)
            if k not in r:
                rep.bad("T-HAYSON", "T-HAYSON:" + kk, where, "writer emits member %r of %s but %s never reads it: it is lost on the way back" % (k, tag, pf))
            elif "any" not in r[k][0].split("|") and not set(jt.split("|")) <= set(r[k][0].split("|")):
                rep.bad("T-HAYSON", "T-HAYSON:" + kk, where, "member %r of %s is written as JSON %s but read with a getter for %s" % (k, tag, jt, r[k][0]))
            else:
                rep.ok("T-HAYSON", kk, where, "written as %s%s, read by %s as %s%s" % (jt, "" if always else " (conditionally)", pf, r[k][0], " (required)" if r[k][1] else " (optional)"))
        for k, (jt, req) in sorted(r.items()):
            if req and not (k in w["entries"] and w["entries"][k][1]):
                rep.bad("T-HAYSON", "T-HAYSON:%s:required:%s" % (tag, k), where, "%s requires member %r but the writer of %s does not emit it on every path" % (pf, k, tag))
        if spec:
            sf = spec["kinds"][tag]["fields"]
            wk = set(w["entries"])
            if wk - set(sf):
                rep.bad("T-SPEC", "T-SPEC:%s:writer-extra" % tag, where, "writer emits members %s that the Hayson encoding of %s does not have" % (sorted(wk - set(sf)), tag))
            miss = {k for k, (t2, rq) in sf.items() if rq} - {k for k, (t2, al) in w["entries"].items() if al}
            if miss:
                rep.bad("T-SPEC", "T-SPEC:%s:writer-missing" % tag, where, "writer does not always emit required member(s) %s of %s" % (sorted(miss), tag))
            typebad = [k for k, (t2, al) in w["entries"].items() if k in sf and set(sf[k][0].split("|")) != set(t2.split("|"))]
            if typebad:
                rep.bad("T-SPEC", "T-SPEC:%s:writer-types" % tag, where, "members %s are written with the wrong JSON type" % typebad)
            if not (wk - set(sf)) and not miss and not typebad:
                rep.ok("T-SPEC", "%s:writer-matches-spec" % tag, where, "members %s as specified" % sorted(wk))
            for k, (t2, rq) in sorted(sf.items()):
                kk = "%s:reader:%s" % (tag, k)
                if k not in r:
                    rep.bad("T-SPEC", "T-SPEC:" + kk, where, "reader %s ignores specified member %r" % (pf, k))
                elif r[k][1] and not rq:
                    rep.bad("T-SPEC", "T-SPEC:" + kk, where, "reader %s rejects documents without the optional member %r" % (pf, k))
                elif not r[k][1] and rq:
                    rep.ok("T-SPEC", kk, where, "lenient: required member %r is optional for the reader" % k)
                else:
                    rep.ok("T-SPEC", kk, where, "%s as specified" % ("required" if rq else "optional"))
    # column objects
    col = wt.get("haystack::val::grid::Column")
    if col:
        n += 1
        r = rt.get("parse_grid:element", {})
        for k, (jt, always) in sorted(col["entries"].items()):
            kk = "column:field:%s" % k
            if k in r:
                rep.ok("T-HAYSON", kk, col["body"].where(), "column member %r read back by parse_grid" % k)
            else:
                rep.bad("T-HAYSON", "T-HAYSON:" + kk, col["body"].where(), "column member %r is never read by parse_grid" % k)
    return n


def check_order_independence(ctx, rep):
    """every value built from the collected members is built after the member loop has ended; returns inside the loop
    construct field-less kinds (or errors) only"""
    prog = ctx.prog
    vm = next((b for b in prog.bodies.values() if b.short == "<haystack::encoding::json::decode::JsonValueDecoderVisitor as serde::de::Visitor>::visit_map"), None)
    if vm is None:
        rep.gap("visit_map", "-", "not found")
        return 0
    loop = None
    nb = None
    for scc in vm.sccs():
        for b in scc:
            if vm.term(b)["k"] == "call" and strip_generics(mir.callee_name(vm.term(b)) or "") == "serde::de::MapAccess::next_entry":
                loop, nb = scc, b
    if loop is None:
        rep.gap("visit_map:loop", vm.where(), "member loop not found")
        return 0
    n = 0
    for bi, t in vm.calls():
        nm = strip_generics(mir.callee_name(t) or "")
        if nm.startswith(JD + "parse_") or nm == "haystack::val::value::Value::make_dict":
            n += 1
            key = "order:%s-after-loop" % nm.split("::")[-1]
            if bi in loop:
                rep.bad("T-ORDER", "T-ORDER:" + key, vm.where(bi), "%s is called inside the member loop: the result depends on which members came before \"_kind\"" % nm.split("::")[-1])
            else:
                rep.ok("T-ORDER", key, vm.where(bi), "called only after next_entry() returned None (outside the loop)")
    # returns reachable from inside the loop without leaving through the None edge
    for b in sorted(loop):
        t = vm.term(b)
        if t["k"] == "call":
            nm = strip_generics(mir.callee_name(t) or "")
            if nm.startswith("haystack::val::value::Value::make_") and nm.split("make_")[-1] not in ("marker", "remove", "na"):
                n += 1
                rep.bad("T-ORDER", "T-ORDER:order:early-%s" % nm.split("::")[-1], vm.where(b), "a %s is built inside the member loop, before all members are known" % nm.split("make_")[-1])
    rep.ok("T-ORDER", "order:early-returns-fieldless-only", vm.where(nb), "inside the loop only marker / remove / na (no fields) or errors are returned")
    return n + 1


def check_visitor_methods(ctx, rep):
    prog = ctx.prog
    have = {b.rec.get("name") for b in prog.bodies.values() if (b.rec.get("impl") or {}).get("self_adt") == "haystack::encoding::json::decode::JsonValueDecoderVisitor" and (b.rec.get("impl") or {}).get("trait") == "serde::de::Visitor"}
    need = ["visit_unit", "visit_bool", "visit_i64", "visit_u64", "visit_f64", "visit_str", "visit_seq", "visit_map"]
    for m in need:
        if m in have:
            rep.ok("T-HAYSON", "visitor:" + m, "-", "implemented")
        else:
            rep.bad("T-HAYSON", "T-HAYSON:visitor:" + m, "-", "JsonValueDecoderVisitor lacks %s: serde_json calls it for one of the JSON shapes and the default rejects the document" % m)
    return len(need)


def check_casts(ctx, rep):
    """R-CAST: float -> int casts in the Hayson writer are dominated by a range guard; R-FINITE: serialize_f64 of a Number is
    guarded against non-finite values (serde_json writes them as null, which decodes to Null)"""
    prog = ctx.prog
    n = 0
    for b in prog.bodies.values():
        if not b.file.endswith("encoding/json/encode.rs"):
            continue
        for bi, blk in enumerate(b.blocks):
            for st in blk["stmts"]:
                if st["k"] == "assign" and st["rv"]["k"] == "cast" and st["rv"]["ck"] == "FloatToInt":
                    n += 1
                    src = G.describe(b, st["rv"]["op"])
                    ok = False
                    upper = lower = False
                    for g in G.guards_at(b, bi):
                        if g.b is None or g.b.kind not in ("constother", "const") or g.a is None:
                            continue
                        if repr(src) not in repr(g.a):
                            continue
                        is_abs = g.a.kind == "call" and g.a.v.endswith("::abs")
                        if g.op in ("Lt", "Le"):
                            if is_abs:
                                upper = lower = True  # |x| < K bounds both sides
                            elif repr(g.a) == repr(src):
                                upper = True
                        elif g.op in ("Gt", "Ge") and repr(g.a) == repr(src):
                            lower = True
                    ok = upper and lower
                    key = "cast:%s:FloatToInt" % b.short.split("::")[-2 if b.short.endswith("serialize") else -1]
                    if ok:
                        rep.ok("R-CAST", key, b.where(bi, st.get("line")), "dominated by a two-sided range guard on the same value (|x| < K, or lower and upper bound)")
                    else:
                        rep.bad("R-CAST", "R-CAST:" + key, b.where(bi, st.get("line")), "float -> integer cast without a two-sided range guard (upper=%s lower=%s): values beyond the integer range saturate and change magnitude" % (upper, lower))
        for bi, t in b.calls():
            nm = strip_generics(mir.callee_name(t) or "")
            is_f64_entry = False
            if nm == "serde::ser::SerializeMap::serialize_entry" and (b.rec.get("impl") or {}).get("self_adt", "").endswith("number::Number"):
                c = callee_of(t)
                targs = [x for x in c.get("targs", []) if not x.startswith("'")]
                is_f64_entry = bool(targs) and targs[-1] == "f64"
            if nm == "serde::Serializer::serialize_f64" or is_f64_entry:
                n += 1
                gs = [repr(g) for g in G.guards_at(b, bi)]
                fin = any(("is_finite" in g and "True" in g) for g in gs)
                if not fin:
                    # the same fact along every path instead of at a dominating edge (an early `return` for the non-finite case,
                    # a helper that classifies the value): each path to the site carries `is_finite(v)` true
                    from rules import pathcond as PC

                    paths = PC.enumerate_paths(b, lambda x, bb=bi: x == bb)
                    fin = bool(paths) and all(any(a.startswith("is_finite(") and tr for a, tr in p[1]) for p in paths)
                key = "finite:%s:%s" % ((b.rec.get("impl") or {}).get("self_adt", "?").split("::")[-1], "serialize_entry<f64>" if is_f64_entry else "serialize_f64")
                if fin:
                    rep.ok("R-CAST", key, b.where(bi), "guarded by a finiteness test")
                else:
                    rep.bad("R-CAST", "R-CAST:" + key, b.where(bi), "a non-finite number reaches serialize_f64: serde_json writes NaN / INF as null, which reads back as Null (kind and value lost)")
    return n


def check_float_roundtrip(ctx, rep):
    """serde_json parses floats exactly only with its `float_roundtrip` feature; without it about 30% of finite doubles come
    back one ULP off, so 'no finite number changes magnitude' needs the feature (a build-configuration fact read from the manifest)"""
    import re as _re

    path = os.path.join(getattr(ctx, "repo_root", "/repo"), "Cargo.toml")
    txt = open(path).read()
    feats = None
    m = _re.search(r'^serde_json\s*=\s*\{([^}]*)\}', txt, _re.M)
    if m:
        f = _re.search(r'features\s*=\s*\[([^\]]*)\]', m.group(1))
        feats = [x.strip().strip('"') for x in f.group(1).split(",")] if f else []
    else:
        m2 = _re.search(r'^\[dependencies\.serde_json\]([^\[]*)', txt, _re.M)
        if m2:
            f = _re.search(r'features\s*=\s*\[([^\]]*)\]', m2.group(1))
            feats = [x.strip().strip('"') for x in f.group(1).split(",")] if f else []
        elif _re.search(r'^serde_json\s*=\s*"', txt, _re.M):
            feats = []
    if feats is None:
        rep.gap("Cargo.toml:serde_json", "Cargo.toml", "dependency declaration not found")
        return 0
    if "float_roundtrip" in feats:
        rep.ok("R-CONFIG", "serde_json:float_roundtrip", "Cargo.toml", "feature enabled: serde_json parses every float to the nearest f64")
    else:
        rep.bad("R-CONFIG", "R-CONFIG:serde_json:float_roundtrip", "Cargo.toml", "serde_json is built without `float_roundtrip`: its fast float parser is up to one ULP off, so a finite number written to Hayson does not always read back to the same f64 (e.g. 3e25 -> 3.0000000000000005e25)")
    return 1


def _visit_map_loop(prog):
    vm = next((b for b in prog.bodies.values() if b.short == "<haystack::encoding::json::decode::JsonValueDecoderVisitor as serde::de::Visitor>::visit_map"), None)
    if vm is None:
        return None, None, None
    for scc in vm.sccs():
        for b in scc:
            if vm.term(b)["k"] == "call" and strip_generics(mir.callee_name(vm.term(b)) or "") == "serde::de::MapAccess::next_entry":
                return vm, scc, b
    return vm, None, None


def check_member_loop(ctx, rep):
    """inside visit_map's member loop (a) no branch looks at the members collected so far (that would make the result
    depend on member order) and (b) every member other than "_kind" is inserted into the collected dict on every path"""
    prog = ctx.prog
    vm, loop, nb = _visit_map_loop(prog)
    if loop is None:
        rep.gap("visit_map:loop", "-", "member loop not found")
        return 0
    n = 0
    # the local holding the collected members: receiver of BTreeMap/Dict insert inside the loop
    ins = []
    dict_repr = None
    for b in sorted(loop):
        t = vm.term(b)
        if t["k"] == "call":
            nm = strip_generics(mir.callee_name(t) or "")
            if nm.endswith("BTreeMap::insert") or nm.endswith("Dict::insert"):
                ins.append(b)
                dict_repr = repr(G.describe(vm, t["args"][0]))
    if not ins:
        rep.bad("T-ORDER", "T-ORDER:member-loop:inserts", vm.where(nb), "no member is ever inserted into the collected dict inside the loop")
        return 1
    base = re.sub(r"^<.*?>::deref(_mut)?\((.*)\)$", r"\2", dict_repr)
    base = base.replace("*", "")
    # (a) no switch on state of the collected dict
    bad_a = []
    for b in sorted(loop):
        t = vm.term(b)
        if t["k"] != "switch":
            continue
        v = G.describe(vm, t["op"])
        r = repr(v)
        if re.search(r"(is_empty|::len|contains_key|::get|::first|::last|::keys|::values)\(", r) and base in r.replace("*", ""):
            bad_a.append((b, r))
    n += 1
    if bad_a:
        rep.bad("T-ORDER", "T-ORDER:member-loop:branch-on-collected-members", vm.where(bad_a[0][0]), "a branch inside the member loop tests the members collected so far (%s): the decoded value depends on where a member appears in the object" % bad_a[0][1][:120])
    else:
        rep.ok("T-ORDER", "member-loop:no-branch-on-collected-members", vm.where(nb), "no branch in the loop reads the state of the collected dict")
    # (b) every way round the loop inserts the member, except under key == "_kind"
    kind_true = set()
    for b in sorted(loop):
        t = vm.term(b)
        if t["k"] == "switch":
            v = G.describe(vm, t["op"])
            from rules import pathcond as _PC

            atom, pol = _PC._canon(v)
            if atom is not None and atom.startswith("eq(") and "conststr:_kind" in atom:
                # the edge on which `key == "_kind"` holds, whichever way the test is spelled (`==`, `!=`, negated)
                vals = {int(x[0]): x[1] for x in t["targets"]}
                true_edge = t["otherwise"] if 0 in vals else vals.get(1)
                false_edge = vals.get(0, t["otherwise"] if 1 in vals else None)
                te = true_edge if pol else false_edge
                if te is not None:
                    kind_true.add(te)
    start = vm.term(nb).get("t")
    header = nb
    seen = set()
    st = [start]
    escape = None
    while st:
        b = st.pop()
        if b in seen or b not in loop:
            continue
        seen.add(b)
        if b in ins or b in kind_true:
            continue
        for x in vm.succ(b):
            if x == header:
                escape = b
            elif x in loop and x not in seen:
                st.append(x)
    n += 1
    if escape is not None:
        rep.bad("T-KEEP", "T-KEEP:member-loop:every-member-inserted", vm.where(escape), "a member other than \"_kind\" can be skipped (the loop continues from bb%d without dict.insert): that tag is lost when decoding" % escape)
    else:
        rep.ok("T-KEEP", "member-loop:every-member-inserted", vm.where(nb), "every path round the loop inserts the member, except the \"_kind\" branch")
    return n


def check_int_casts(ctx, rep, files=("encoding/json/decode.rs", "encoding/json/encode.rs", "encoding/zinc/encode.rs")):
    """integer -> integer casts in the codecs must not be able to change the value: widening same-signedness only,
    anything else needs a dominating range guard"""
    prog = ctx.prog
    W = {"u8": (8, 0), "u16": (16, 0), "u32": (32, 0), "u64": (64, 0), "usize": (64, 0), "u128": (128, 0), "i8": (8, 1), "i16": (16, 1), "i32": (32, 1), "i64": (64, 1), "isize": (64, 1), "i128": (128, 1), "char": (21, 0)}
    n = 0
    for b in prog.bodies.values():
        if not b.file.endswith(files):
            continue
        k = 0
        for bi, blk in enumerate(b.blocks):
            for st in blk["stmts"]:
                if st["k"] != "assign" or st["rv"]["k"] != "cast" or st["rv"]["ck"] != "IntToInt" or st.get("exp"):
                    continue
                f, t = st["rv"].get("from_ty"), st["rv"].get("ty")
                if f not in W or t not in W:
                    continue
                (fw, fs), (tw, ts) = W[f], W[t]
                lossless = (fs == ts and tw >= fw) or (fs == 0 and ts == 1 and tw > fw)
                n += 1
                key = "intcast:%s:%s->%s#%d" % (b.short, f, t, k)
                k += 1
                if lossless:
                    rep.ok("R-CAST", key, b.where(bi, st.get("line")), "%s -> %s cannot change the value" % (f, t))
                    continue
                src = G.describe(b, st["rv"]["op"])
                lim = (1 << (tw - ts)) - 1
                guarded = False
                for g in G.guards_at(b, bi):
                    if g.op in ("Le", "Lt") and g.b is not None and g.b.kind == "const" and g.a.same(src) and g.b.v - (1 if g.op == "Lt" else 0) <= lim:
                        guarded = True
                    if g.op == "Eq" and g.b is not None and g.b.kind == "const" and g.a.same(src) and 0 <= g.b.v <= lim:
                        guarded = True
                    # `(lo..=hi).contains(&x)` taken, with constant bounds inside the target range
                    if g.op == "True" and g.b is None and g.a is not None and g.a.kind == "call" and str(g.a.v).split("::")[-1] == "contains" and "Range" in str(g.a.v) and len(g.a.args) == 2 and g.a.args[1].same(src):
                        r = g.a.args[0]
                        bounds = [x.v for x in r.args[:2]] if r.kind in ("call", "agg") and len(r.args) >= 2 and all(x.kind == "const" for x in r.args[:2]) else None
                        if bounds and 0 <= bounds[0] and bounds[1] - (0 if "Inclusive" in str(r.v) else 1) <= lim:
                            guarded = True
                if guarded:
                    rep.ok("R-CAST", key, b.where(bi, st.get("line")), "%s -> %s under a dominating range guard" % (f, t))
                else:
                    rep.bad("R-CAST", "R-CAST:intcast:%s:%s->%s" % (b.short, f, t), b.where(bi, st.get("line")), "%s casts %s to %s without a range guard: values outside the target range wrap (e.g. a JSON integer above i64::MAX becomes negative)" % (b.short.split("::")[-1], f, t))
    return n


def check_owned_keys(ctx, rep):
    """every key / element type the Hayson visitor asks serde for is an owned type: a borrowed `&str` key can only be produced
    for an unescaped member name of an in-memory string, so `"\\u005fkind"`, from_reader and from_value documents would be rejected"""
    prog = ctx.prog
    n = 0
    for b in prog.bodies.values():
        if not b.file.endswith("encoding/json/decode.rs"):
            continue
        k = 0
        for bi, t in b.calls():
            c = callee_of(t)
            if c is None:
                continue
            fn = strip_generics(c["fn"])
            if not re.match(r"^serde::de::(MapAccess|SeqAccess)::next_", fn):
                continue
            n += 1
            targs = [x for x in c.get("targs", []) if not x.startswith("'")][1:]
            borrowed = [x for x in targs if x.startswith("&")]
            key = "owned-types:%s:%s#%d" % (b.short.split("::")[-1], fn.split("::")[-1], k)
            k += 1
            if borrowed:
                rep.bad("T-HAYSON", "T-HAYSON:owned-types:%s:%s" % (b.short.split("::")[-1], fn.split("::")[-1]), b.where(bi), "%s asks for the borrowed type(s) %s: serde_json can hand those out only for unescaped text of an in-memory str, other spellings / sources of the same document fail with 'expected a borrowed string'" % (fn.split("::")[-1], borrowed))
            else:
                rep.ok("T-HAYSON", key, b.where(bi), "%s::<%s>: owned" % (fn.split("::")[-1], ", ".join(x.split("::")[-1] for x in targs)))
    return n


def check_typed_deserializers(ctx, rep):
    """`impl Deserialize for T` (the typed entry points `serde_json::from_str::<T>`): each decodes a Value and succeeds exactly when
    that value is of T's own kind - by a match on the value's variant or by the kind predicate `is_<t>()`"""
    from rules import pathcond as PC

    prog = ctx.prog
    vv = K.variants(prog, K.VAL)
    vnames = {d: n for n, d in vv}
    names = {n for n, _ in vv}
    n = 0
    for b in prog.bodies.values():
        im = b.rec.get("impl") or {}
        if b.rec.get("name") != "deserialize" or b.rec["kind"] == "Closure" or not b.file.endswith("encoding/json/decode.rs"):
            continue
        if "serde::Deserialize" not in im.get("trait_ref", "") and "serde::de::Deserialize" not in im.get("trait_ref", ""):
            continue
        ty = (im.get("self_adt") or im.get("self_ty") or "").split("::")[-1].split("<")[0]
        if ty not in names:
            continue  # Value itself and helper types
        n += 1
        key = "typed-deserializer:%s" % ty
        r = K.positive_variants(b, vnames)
        if r is not None:
            pos, _neg, dflt = r
            cond = K.conditional_positive_arms(b, vnames)
            if pos == {ty} and not dflt and not cond:
                rep.ok("T-HAYSON", key, b.where(), "Deserialize for %s succeeds exactly for Value::%s" % (ty, ty))
            else:
                rep.bad("T-HAYSON", "T-HAYSON:" + key, b.where(), "Deserialize for %s succeeds for %s%s%s, expected exactly {%s}" % (ty, sorted(pos), " and by default" if dflt else "", " (conditionally: %s)" % cond if cond else "", ty))
            continue
        # predicate form
        oks = set()
        for bi in range(b.n):
            for st in b.blocks[bi]["stmts"]:
                if st["k"] == "assign" and not st["lhs"]["p"] and st["lhs"]["l"] == 0 and st["rv"]["k"] == "agg" and st["rv"].get("variant") == "Ok":
                    oks.add(bi)
        paths = PC.enumerate_paths(b, lambda x: x in oks)
        atoms = [a for a in PC.atoms_of(paths) if re.match(r"is_[a-z_]+\(", a)]
        want = "is_%s(" % ty.lower()
        good = bool(paths) and len(atoms) == 1 and atoms[0].startswith(want) and "Continue.0" in atoms[0]
        if good:
            o, c = PC.entails(paths, lambda asg: bool(asg.get(atoms[0])), PC.atoms_of(paths))
            good = o
        if good:
            rep.ok("T-HAYSON", key, b.where(), "Deserialize for %s succeeds exactly when the decoded value is_%s()" % (ty, ty.lower()))
        else:
            rep.bad("T-HAYSON", "T-HAYSON:" + key, b.where(), "Deserialize for %s does not succeed exactly under is_%s() (kind tests on the way to Ok: %s)" % (ty, ty.lower(), atoms or "none"))
    return n


_PRESENCE_WRAPPERS = ("std::option::Option::as_ref", "std::option::Option::as_deref", "std::option::Option::is_some", "std::option::Option::is_none",
                      "std::option::Option::as_mut", "<std::option::Option as std::clone::Clone>::clone", "std::option::Option::cloned", "std::option::Option::copied")
# value tests the Hayson encoding itself prescribes (the only conditions on a *value* that may decide whether / how a member is written)
_PRESCRIBED_TESTS = {
    "haystack::val::datetime::DateTime::is_utc": "`tz` is omitted exactly for UTC (decided by T-TZGUARD)",
    "core::f64::<impl f64>::is_finite": "non-finite numbers are spelled as strings",
    "core::f64::<impl f64>::is_nan": "non-finite numbers are spelled as strings",
    "core::f64::<impl f64>::is_infinite": "non-finite numbers are spelled as strings",
    "core::f64::<impl f64>::is_sign_negative": "sign of INF",
    "core::f64::<impl f64>::fract": "integral numbers are written as integers",
}


def _presence_operand(v):
    """strip presence plumbing; returns the Val underneath"""
    for _i in range(6):
        if v.kind == "discr" and v.args:
            v = v.args[0]
        elif v.kind == "call" and strip_generics(v.v) in _PRESENCE_WRAPPERS and v.args:
            v = v.args[0]
        else:
            break
    return v


def check_member_guards(ctx, rep):
    """whether a member of a tagged Hayson object is written depends only on the *presence* of the corresponding field (`dis`, `unit`,
    `meta` are written iff the Option is Some), on the variant of the value, and on the value tests the encoding prescribes (UTC for
    `tz`, finiteness for the spelling of a number) - never on any other property of the field's value: a writer that leaves out an
    empty meta, a zero, an empty string ... produces a document that denotes a different value"""
    prog = ctx.prog
    n = 0
    for b in prog.bodies.values():
        if not b.file.endswith("encoding/json/encode.rs") or "::test" in b.id or b.rec["kind"] == "Closure":
            continue
        for bi, t in b.calls():
            nm = strip_generics(mir.callee_name(t) or "")
            if not nm.endswith(("SerializeMap::serialize_entry", "SerializeMap::serialize_key", "SerializeMap::serialize_value", "SerializeSeq::serialize_element", "serialize_entry", "serialize_element")):
                continue
            kd = G.describe(b, t["args"][1]) if len(t["args"]) > 1 else None
            member = kd.v if kd is not None and kd.kind == "conststr" else "<element>"
            n += 1
            key = "member-guard:%s:%s" % (b.short.split(" for ")[-1].split(">")[0].split("::")[-1], member)
            offending = []
            for g in G.guards_at(b, bi):
                if g.a is None:
                    continue
                ra = repr(g.a)
                if "Try>::branch" in ra or "Iterator>::next" in ra or "Iterator::next" in ra:
                    continue
                v = _presence_operand(g.a)
                if v.kind == "place" or re.fullmatch(r"_1\**(\.[A-Za-z_0-9]+)*\**", repr(v)):
                    continue
                if v.kind == "call" and strip_generics(v.v) in _PRESCRIBED_TESTS and v.args and re.fullmatch(r"_1\**(\.[A-Za-z_0-9]+)*\**", repr(v.args[0])):
                    continue
                if v.kind == "binop" and all(a.kind in ("const",) or (a.kind == "call" and strip_generics(a.v) in _PRESCRIBED_TESTS) or re.fullmatch(r"(cast\()?_1\**(\.[A-Za-z_0-9]+)*\**.*", repr(a)) for a in v.args):
                    # arithmetic comparison on the number's own value (integer-range guard of the integer spelling)
                    if "number::Number" in b.id:
                        continue
                offending.append(ra[:120])
            if offending:
                rep.bad("T-HAYSON", "T-HAYSON:" + key, b.where(bi), "member %r is written only under %s: a condition on the field's value, not on its presence - values for which it is false are written as a different document" % (member, offending))
            else:
                rep.ok("T-HAYSON", key, b.where(bi), "written under presence / variant / prescribed tests only")
    return n


def check_members_read_before_ok(ctx, rep):
    """every member a tagged-object reader looks at is looked at on *every* path to a successful result: an early `return Ok(..)`
    that skips an optional member (the unit of a number spelled "INF", the dis of a ref ...) silently drops it for the documents
    that take that path. Must-pass-through over the CFG: with the blocks reading the member removed, no Ok-building block is reachable"""
    prog = ctx.prog
    n = 0
    for b in prog.bodies.values():
        if not b.file.endswith("encoding/json/decode.rs") or b.rec["kind"] == "Closure" or "::test" in b.id:
            continue
        rname = strip_generics(b.id).split("::")[-1]
        if not rname.startswith("parse_"):
            continue
        reads = {}
        for bi, t in b.calls():
            nm = strip_generics(mir.callee_name(t) or "")
            m = re.search(r"(?:HaystackDict>::|BTreeMap::)(get(?:_[a-z]+)?)$", nm)
            if not m or len(t["args"]) < 2:
                continue
            k = G.describe(b, t["args"][1])
            if k.kind == "conststr" and re.match(r"_1\**", repr(G.describe(b, t["args"][0]))):
                reads.setdefault(k.v, set()).add(bi)
        oks = set()
        for bi in range(b.n):
            for st in b.blocks[bi]["stmts"]:
                if st["k"] == "assign" and not st["lhs"]["p"] and st["lhs"]["l"] == 0 and st["rv"]["k"] == "agg" and st["rv"].get("variant") == "Ok":
                    oks.add(bi)
        if not oks or not reads:
            continue
        for k, blocks in sorted(reads.items()):
            n += 1
            key = "member-read-before-ok:%s:%s" % (rname, k)
            # reachability avoiding the reading blocks (the read happens in the terminator: its successors are not followed)
            seen, todo = set(), [0]
            while todo:
                x = todo.pop()
                if x in seen:
                    continue
                seen.add(x)
                if x in blocks:
                    continue
                todo.extend(y for y in b.succ(x) if not b.blocks[y].get("cleanup"))
            leak = sorted(o for o in oks if o in seen and o not in blocks)
            if leak:
                rep.bad("T-HAYSON", "T-HAYSON:" + key, b.where(leak[0]), "%s returns Ok on a path that never looks at member %r: documents taking that path lose it" % (rname, k))
            else:
                rep.ok("T-HAYSON", key, b.where(min(blocks)), "every path to Ok passes a read of %r (must-pass over %d Ok blocks)" % (k, len(oks)))
    return n


DROPPING = ("Iterator::filter", "Iterator::filter_map", "Iterator::skip", "Iterator::take", "Iterator::skip_while", "Iterator::take_while",
            "Iterator::step_by", "Iterator::nth", "Iterator::last", "Iterator::find", "Iterator::find_map", "Option::filter",
            "Vec::retain", "Vec::truncate", "Vec::pop", "Vec::drain", "Vec::dedup", "Vec::dedup_by", "Vec::dedup_by_key", "Vec::remove",
            "Vec::swap_remove", "Vec::clear", "BTreeMap::retain", "BTreeMap::pop_first", "BTreeMap::pop_last", "BTreeMap::clear",
            "BTreeMap::split_off", "BTreeMap::remove", "BTreeMap::remove_entry", "Dict::remove", "Dict::retain")


def check_nothing_dropped(ctx, rep, which="decode", only=None):
    """between the members of the document and the value built from them nothing is selected away: the Hayson reader calls no
    filtering / truncating / removing operation on what it decoded - except taking `ver` out of the *grid's* own meta (the version is
    a field of Grid). "No tag, cell, column or row is lost" for every document, whatever its contents"""
    from rules import defsrules as DR

    prog = ctx.prog
    n = 0
    RULE = "T-HAYSON" if "/" not in which else "T-KEEP"
    fsuf = which if "/" in which else "encoding/json/%s.rs" % which
    roots = [b for b in prog.bodies.values() if b.file.endswith(fsuf) and b.rec["kind"] != "Closure" and "::test" not in b.id and (only is None or only(b))]
    for b in roots:
        for c in DR._calls(prog, b):
            body, bi, nm, args = c[0], c[1], c[2], c[3]
            short = "::".join(strip_generics(nm).replace("std::collections::", "").replace("std::vec::", "").replace("std::iter::", "").replace("std::option::", "").split("::")[-2:])
            short = short.replace("<", "").replace(">", "")
            if not any(short.endswith(d) or strip_generics(nm).endswith(d) for d in DROPPING):
                continue
            n += 1
            fn = strip_generics(b.id).split("::")[-1]
            if strip_generics(nm).endswith(("BTreeMap::remove", "Dict::remove")) and which == "decode":
                # the one permitted removal: key "ver", from the meta dict of the grid object itself (parameter _1), not of an element
                rcv, key_arg = (args + ["", ""])[:2]
                # a receiver that is the payload of an Option held in a local (`if let Some(m) = meta.as_mut()`): say where the local comes from
                for _i in range(3):
                    mm = re.search(r"\b_(\d+)\b(?= as )", rcv)
                    if not mm or int(mm.group(1)) <= body.arg_count:
                        break
                    rcv = rcv[:mm.start()] + repr(G.describe_place(body, {"l": int(mm.group(1)), "p": []})) + rcv[mm.end():]
                if key_arg == "conststr:ver" and "conststr:meta" in rcv and "elem(" not in rcv and re.search(r"get_dict\(_1\**, conststr:meta\)", rcv):
                    rep.ok(RULE, "nothing-dropped:%s:remove-ver-from-grid-meta" % fn, body.where(bi), "`ver` is taken out of the grid's own meta (it is stored in Grid.ver)")
                    continue
                rep.bad(RULE, RULE + ":nothing-dropped:%s:remove" % fn, body.where(bi), "%s removes %s from %s: a decoded tag is dropped (only `ver` of the grid's own meta may be taken out)" % (fn, key_arg, rcv[:100]))
                continue
            rep.bad(RULE, RULE + ":nothing-dropped:%s:%s" % (fn, short.split("::")[-1]), body.where(bi), "%s passes decoded data through %s: elements / members for which the selection fails never reach the result" % (fn, short))
    if n == 0:
        rep.ok(RULE, "nothing-dropped:%s:none" % fsuf.split("/")[-1].replace(".rs", "") + ("" if only is None else ":selected-impls"), "-", "no filtering / truncating / removing operation in %s (%d functions)" % (fsuf, len(roots)))
    return n


def check_refusals(ctx, rep):
    """a tagged-object reader refuses a document only because a member is absent or of the wrong JSON type, because a sub-parser
    or table lookup refuses its text (`parse`, `get_unit`, the zone lookup), or on one of the fixed spellings - never through a
    comparison or range test of its own on a member's value: every value the writer can emit for the member must be readable.
    Decided on the conditions of all paths to an `Err` result (truth-table atoms of rules/pathcond.py)"""
    from rules import pathcond as PC

    prog = ctx.prog
    n = 0
    for b in prog.bodies.values():
        if not b.file.endswith("encoding/json/decode.rs") or "::test" in b.id:
            continue
        rname = strip_generics(b.rec.get("root", b.id)).split("::")[-1]
        if not rname.startswith("parse_"):
            continue
        errs = set()
        for bi in range(b.n):
            for st in b.blocks[bi]["stmts"]:
                if st["k"] == "assign" and not st["lhs"]["p"] and st["lhs"]["l"] == 0 and st["rv"]["k"] == "agg" and st["rv"].get("variant") == "Err":
                    errs.add(bi)
        if not errs:
            continue
        n += 1
        cname = rname + ("" if b.rec["kind"] != "Closure" else ":element")
        paths = PC.enumerate_paths(b, lambda x: x in errs)
        bad = []
        for a in PC.atoms_of(paths):
            if a.startswith(("some(", "is(")) or (a.startswith("eq(") and "conststr:" in a):
                continue
            bad.append(a[:120])
        key = "refusal-conditions:%s" % cname
        if bad:
            rep.bad("T-HAYSON", "T-HAYSON:" + key, b.where(min(errs)), "%s returns an error under a test of a member's value (%s): some values the writer emits for it are refused" % (rname, bad[:3]))
        else:
            rep.ok("T-HAYSON", key, b.where(min(errs)), "errors only on absent / wrongly typed members, refused sub-parses and fixed spellings (%d paths)" % len(paths))
    return n


def check_optional_members_complete(ctx, rep):
    """an optional member whose presence follows a field of the value (`unit`, `dis`, `meta`) is written on *every* path on which the
    field is present: each path from entry to a normal return that passes no write of the member carries the decision `field is None`.
    An early return placed before the member is written (a shortcut for large numbers, say) loses the field for the values that take it"""
    from rules import pathcond as PC

    prog = ctx.prog
    n = 0
    for b in prog.bodies.values():
        if not b.file.endswith("encoding/json/encode.rs") or "::test" in b.id or b.rec["kind"] == "Closure" or b.rec.get("name") != "serialize":
            continue
        sites = {}
        field_of = {}
        for bi, t in b.calls():
            nm = strip_generics(mir.callee_name(t) or "")
            if not nm.endswith("serialize_entry") or len(t["args"]) < 2:
                continue
            kd = G.describe(b, t["args"][1])
            if kd.kind != "conststr":
                continue
            sites.setdefault(kd.v, set()).add(bi)
            for g in G.guards_at(b, bi):
                if g.a is None:
                    continue
                v = _presence_operand(g.a)
                m = re.fullmatch(r"_1\*\.([A-Za-z_0-9]+)", repr(v))
                if m and b.rec.get("impl") and "Option<" in (field_types_of(prog, b).get(m.group(1), "")):
                    field_of.setdefault(kd.v, set()).add(m.group(1))
        rets = {bi for bi in range(b.n) if b.term(bi)["k"] == "return"}
        for member, fields in sorted(field_of.items()):
            if len(fields) != 1:
                continue
            fld = next(iter(fields))
            n += 1
            T = sites[member]
            paths = PC.enumerate_paths(b, lambda x: x in T or x in rets)
            tyname = b.short.split(" for ")[-1].split(">")[0].split("::")[-1]
            key = "optional-member-complete:%s:%s" % (tyname, member)
            leaks = []
            for p in paths:
                if p[0] in T:
                    continue
                if len({a for a, _tv in p[1]}) < len(p[1]):
                    continue  # the same test taken both ways: not a feasible path
                lits = dict(p[1])
                absent = any((a == "some(_1*.%s)" % fld and tv is False) or (a.startswith("is(_1*.%s," % fld) and a.endswith(",0)") and tv is True) or (a.startswith("is(_1*.%s," % fld) and a.endswith(",1)") and tv is False) for a, tv in lits.items())
                # an error return (`?` break edge) is not a document
                failed = any("Try>::branch" in a and a.endswith(",1)") and tv is True for a, tv in lits.items()) or any("Try>::branch" in a and a.endswith(",0)") and tv is False for a, tv in lits.items())
                if not absent and not failed:
                    leaks.append({a: tv for a, tv in lits.items() if "Try>::branch" not in a})
            if leaks:
                rep.bad("T-HAYSON", "T-HAYSON:" + key, b.where(min(T)), "Serialize for %s can return without writing %r although .%s is present (path conditions: %s): the field is lost for those values" % (tyname, member, fld, leaks[0]))
            else:
                rep.ok("T-HAYSON", key, b.where(min(T)), "every successful path without %r has .%s == None (%d paths)" % (member, fld, len(paths)))
    return n


def field_types_of(prog, body):
    im = body.rec.get("impl") or {}
    adt = im.get("self_adt")
    out = {}
    for v in (prog.adts.get(adt) or {}).get("variants", []):
        for f in v.get("fields", []):
            out[f["name"]] = f["ty"]
    return out


NONFINITE_SPELLINGS = {"NaN", "INF", "-INF"}


def check_nonfinite_spellings(ctx, rep):
    """the text written for a non-finite number is one of the three spellings the Hayson encoding has ("NaN", "INF", "-INF"), each a
    constant of the writer - not a string assembled at run time (sign + name gives "-NaN" for a NaN with its sign bit set) - and
    they are exactly the spellings the reader recognises"""
    prog = ctx.prog
    b = next((x for x in prog.bodies.values() if x.file.endswith("encoding/json/encode.rs") and x.rec.get("name") == "serialize" and "number::Number" in x.id and x.rec["kind"] != "Closure"), None)
    if b is None:
        rep.gap("Serialize for Number", "-", "not found")
        return 0
    n = 0
    written = set()
    dynamic = []
    for bi, t in b.calls():
        nm = strip_generics(mir.callee_name(t) or "")
        if not nm.endswith("serialize_entry") or len(t["args"]) < 3:
            continue
        k = G.describe(b, t["args"][1])
        if k.kind != "conststr" or k.v != "val":
            continue
        # the textual spelling: the `val` whose value is a string (the finite one is an f64)
        pl = op_place(t["args"][2])
        vty = b.local_ty(pl["l"]) if pl is not None else ""
        if "str" not in vty and "String" not in vty:
            continue
        # every definition that can reach the value operand
        todo, seen = [pl["l"]] if pl is not None else [], set()
        while todo:
            l = todo.pop()
            if l in seen:
                continue
            seen.add(l)
            for _bi2, si, rv in b.defs().get(l, []):
                if si == "term":
                    dynamic.append(strip_generics(mir.callee_name(b.term(_bi2)) or "?").split("::")[-1])
                elif rv["k"] in ("use", "cast"):
                    c = mir.op_const(rv["op"])
                    if c is not None and "str" in c:
                        written.add(c["str"])
                    elif c is None and op_place(rv["op"]) is not None:
                        todo.append(op_place(rv["op"])["l"])
                elif rv["k"] in ("ref", "rawptr"):
                    todo.append(rv["place"]["l"])
                elif rv["k"] == "agg":
                    # Some("NaN") handed over by a helper: the payloads
                    for o in rv["ops"]:
                        c = mir.op_const(o)
                        if c is not None and "str" in c:
                            written.add(c["str"])
                        elif c is None and op_place(o) is not None:
                            todo.append(op_place(o)["l"])
                else:
                    dynamic.append(rv["k"])
    n += 1
    key = "nonfinite-spellings:writer"
    if dynamic or written != NONFINITE_SPELLINGS:
        rep.bad("T-HAYSON", "T-HAYSON:" + key, b.where(), "the non-finite `val` is %s: the writer can emit a text that is not one of \"NaN\", \"INF\", \"-INF\"" % ("assembled at run time (%s)" % sorted(set(dynamic)) if dynamic else "one of %s" % sorted(written)))
    else:
        rep.ok("T-HAYSON", key, b.where(), "the three constants NaN / INF / -INF, nothing assembled")
    # reader: the string spellings it tests for
    pn = prog.get("haystack::encoding::json::decode::parse_number")
    if pn is not None:
        n += 1
        read = set()
        for x in [pn] + [prog.bodies[c] for c in prog.closures_of.get(pn.id, [])]:
            for blk in x.blocks:
                for st in blk["stmts"]:
                    if st["k"] == "assign" and st["rv"]["k"] == "use":
                        c = mir.op_const(st["rv"]["op"])
                        if c is not None and c.get("str") in ("NaN", "INF", "-INF", "-NaN", "+INF", "Infinity", "-Infinity", "nan", "inf", "-inf"):
                            read.add(c["str"])
            CAND = ("NaN", "INF", "-INF", "-NaN", "+INF", "Infinity", "-Infinity", "nan", "inf", "-inf")

            def leaves(v, depth=0):
                if v.kind == "conststr" and v.v in CAND:
                    read.add(v.v)
                if depth < 6:
                    for a2 in (v.args or []):
                        leaves(a2, depth + 1)

            for _bi, t in x.calls():
                for a in t.get("args", []):
                    c = mir.op_const(a)
                    if c is not None and c.get("str") in CAND:
                        read.add(c["str"])
                    else:
                        leaves(G.describe(x, a))
        if read == NONFINITE_SPELLINGS:
            rep.ok("T-HAYSON", "nonfinite-spellings:reader", pn.where(), "the reader recognises exactly NaN / INF / -INF")
        else:
            rep.bad("T-HAYSON", "T-HAYSON:nonfinite-spellings:reader", pn.where(), "the reader recognises %s as spellings of non-finite numbers, the encoding has NaN / INF / -INF" % sorted(read))
    return n


TEXT_NORMALISERS = ("strip_prefix", "strip_suffix", "trim", "trim_start", "trim_end", "trim_matches", "trim_start_matches", "trim_end_matches",
                    "to_lowercase", "to_uppercase", "to_ascii_lowercase", "to_ascii_uppercase", "make_ascii_lowercase", "make_ascii_uppercase",
                    "replace", "replacen", "truncate", "split_off", "split_once", "rsplit_once", "chars().rev")


def check_text_verbatim(ctx, rep, files=("encoding/json/decode.rs", "encoding/json/encode.rs", "encoding/zinc/encode.rs")):
    """closed world over the codecs: text passes through as it is. No function of the Hayson reader / writer or of the Zinc writer
    applies a string-normalising operation (strip a prefix, trim, change case, replace, truncate) to a text it carries - with one
    reviewed exception, the `char::to_uppercase` on the *first* character of an XStr type name that the Zinc grammar requires. A
    decoder that strips a leading `s:` or a writer that lower-cases the rest of a type name changes the value for the texts that
    happen to match"""
    prog = ctx.prog
    n = 0
    bad = []
    allowed = 0
    for b in prog.bodies.values():
        if not b.file.endswith(files) or "::test" in b.id:
            continue
        for bi, t in b.calls():
            nm = strip_generics(mir.callee_name(t) or "")
            last = nm.split("::")[-1]
            if last not in TEXT_NORMALISERS:
                continue
            if not (nm.startswith(("core::str::", "std::string::String::", "alloc::str::", "alloc::string::", "std::char::", "core::char::")) or "<impl str>" in nm or "<impl char>" in nm):
                continue
            n += 1
            root = strip_generics(b.rec.get("root", b.id))
            if "<impl char>" in nm and last == "to_uppercase" and "xstr::XStr as haystack::encoding::zinc::encode::ToZinc" in root:
                allowed += 1
                continue
            bad.append((b, bi, nm))
    if bad:
        b, bi, nm = bad[0]
        rep.bad("T-VERBATIM", "T-VERBATIM:codec-text:%s:%s" % (strip_generics(b.rec.get("root", b.id)).split("::")[-1], nm.split("::")[-1]), b.where(bi), "%s applies %s to a text it reads or writes: for the texts it changes, the value that comes out is not the value that went in" % (b.short.split("::")[-1], nm.split("::")[-1]))
    else:
        rep.ok("T-VERBATIM", "codec-text:verbatim", "-", "no text-normalising call in the codecs (%d reviewed exception: first character of the XStr type name)" % allowed)
    return n
