"""The Zinc writer into a Vec<u8> cannot fail: no encoder body originates an encode::Error, and every byte
fragment written is valid UTF-8 (so String::from_utf8 of the buffer succeeds)."""
from rules import guards as G
from vlib import mir
from vlib.mir import callee_of, op_const, op_place, strip_generics

ERR_ADT = "haystack::encoding::zinc::encode::Error"
_cache = {}


def encoder_bodies(prog):
    return [b for b in prog.bodies.values() if b.file.endswith("encoding/zinc/encode.rs")]


def fragments(prog):
    """every Write::write_all call in the encoder: (body, block, classification, detail)"""
    out = []
    for b in encoder_bodies(prog):
        for bi, t in b.calls():
            nm = strip_generics(mir.callee_name(t) or "")
            if nm != "std::io::Write::write_all":
                continue
            arg = t["args"][1]
            v = G.describe(b, arg)
            kind, detail = "unknown", repr(v)
            if v.kind == "conststr":
                raw = v.v.encode("latin1")
                try:
                    raw.decode("utf-8")
                    kind = "const-utf8"
                except UnicodeDecodeError:
                    kind = "const-not-utf8"
                detail = raw
            elif v.kind == "agg" and v.v == "array":
                # &[c as u8]: every element must be provably < 0x80
                kind = "byte-array"
                detail = []
                gs = G.guards_at(b, bi)
                ok = True
                for el in v.args:
                    bounded = el.kind == "const" and el.v < 0x80
                    ub = G.upper_bound(gs, el)
                    if ub is not None and ub < 0x80:
                        bounded = True
                    for g in gs:
                        if g.op in ("Le", "Lt") and g.b is not None and g.b.kind == "const" and g.a.same(el):
                            lim = g.b.v - (1 if g.op == "Lt" else 0)
                            if lim < 0x80:
                                bounded = True
                        if g.op in ("Ge", "Gt") and g.a.kind == "const" and g.b is not None and g.b.same(el):
                            lim = g.a.v - (1 if g.op == "Gt" else 0)
                            if lim < 0x80:
                                bounded = True
                    detail.append((repr(el), bounded))
                    ok = ok and bounded
                if not ok:
                    kind = "byte-array-unbounded"
            else:
                # str::as_bytes()/String::as_bytes() of a str value, or a parameter
                r = _chase_as_bytes(b, arg)
                if r == "str":
                    kind = "str-bytes"
                elif r and r.startswith("param:"):
                    kind = r
            out.append((b, bi, kind, detail))
    return out


def _chase_as_bytes(body, op):
    pl = op_place(op)
    for _ in range(8):
        if pl is None:
            return None
        if pl["p"] and pl["p"] != ["*"]:
            return None
        l = pl["l"]
        if 0 < l <= body.arg_count:
            return "param:%d" % l
        sd = body.single_def(l)
        if sd is None:
            return None
        if sd[1] == "term":
            c = callee_of(sd[2])
            nm = strip_generics(c.get("res") or c["fn"]) if c else ""
            if nm in ("core::str::<impl str>::as_bytes", "std::string::String::as_bytes"):
                return "str"
            return None
        rv = sd[2]
        if rv["k"] == "use":
            pl = op_place(rv["op"])
        elif rv["k"] == "ref":
            pl = rv["place"]
        elif rv["k"] == "cast":
            pl = op_place(rv["op"])
        else:
            return None
    return None


def check(ctx):
    """-> list of (ok, key, where, message)"""
    prog = ctx.prog
    obs = []
    # 1. who constructs / originates encode::Error
    ctor_bodies = set()
    for b in prog.bodies.values():
        if (b.rec.get("impl") or {}).get("derived"):
            continue
        for bi, blk in enumerate(b.blocks):
            for st in blk["stmts"]:
                if st["k"] == "assign" and st["rv"]["k"] == "agg" and st["rv"].get("adt") == ERR_ADT:
                    ctor_bodies.add(b.id)
    from_impls = {b.id for b in prog.bodies.values() if (b.rec.get("impl") or {}).get("self_adt") == ERR_ADT and (b.rec.get("impl") or {}).get("trait") == "std::convert::From"}
    for f in sorted(ctor_bodies):
        ok = f in from_impls
        obs.append((ok, "zinc-error-origin:" + strip_generics(f), prog.bodies[f].where(), "encode::Error constructed " + ("inside a From conversion" if ok else "outside the From conversions: the encoder can fail on its own")))
    from_str = [f for f in from_impls if "&str" in f or "&'" in f]
    cg = prog.callgraph()
    for f, outs in cg.items():
        if f in from_impls:
            continue
        for g in outs:
            if g in from_str and prog.bodies[f].file.endswith("encode.rs"):
                obs.append((False, "zinc-error-origin:" + strip_generics(f), prog.bodies[f].where(), "calls Error::from(&str): originates an encoder error"))
    # 2. UTF-8 fragments
    frs = fragments(prog)
    n = {}
    for b, bi, kind, detail in frs:
        key = "utf8-fragment:%s:%s" % (b.short, kind)
        n[key] = n.get(key, 0) + 1
        if kind in ("const-utf8", "str-bytes", "byte-array"):
            obs.append((True, key + "#%d" % n[key], b.where(bi), kind))
        elif kind.startswith("param:"):
            # every caller must pass an ASCII constant
            pidx = int(kind.split(":")[1])
            good = True
            callers = 0
            for cb in prog.bodies.values():
                for cbi, t in cb.calls():
                    if (mir.callee_name(t) or "") == b.id:
                        callers += 1
                        v = G.describe(cb, t["args"][pidx - 1])
                        if not (v.kind == "conststr" and all(ord(ch) < 0x80 for ch in v.v)):
                            good = False
            obs.append((good and callers > 0, key + "#%d" % n[key], b.where(bi), "parameter written verbatim; %d callers all pass ASCII constants: %s" % (callers, good)))
        else:
            obs.append((False, key + "#%d" % n[key], b.where(bi), "bytes written are not provably valid UTF-8: %s %r" % (kind, detail)))
    return obs, len(frs)


def infallible(ctx):
    if "r" not in _cache or _cache.get("prog") is not ctx.prog:
        obs, nfr = check(ctx)
        bad = [o for o in obs if not o[0]]
        _cache["prog"] = ctx.prog
        _cache["r"] = (not bad and nfr >= 30, "zinc writer infallible: %d obligations, %d fragments" % (len(obs), nfr) if not bad else "zinc writer can fail: " + bad[0][1])
    return _cache["r"]
