"""C15: the generated unit table, evaluated statically from the MIR of the lazy_static initialisers."""
import re

from rules import guards as G
from rules import scanai
from vlib import mir
from vlib.mir import callee_of, op_const, strip_generics

UG = "haystack::units::units_generated::"


def strs_in(v, out):
    if v.kind == "conststr":
        out.append(v.v)
    for a in v.args:
        strs_in(a, out)
    return out


def unit_table(prog):
    """name -> {ids, scale, has_dim}"""
    units = {}
    for b in prog.bodies.values():
        m = re.match(r"^<" + re.escape(UG) + r"([A-Z0-9_]+) as std::ops::Deref>::deref::__static_ref_initialize$", b.id)
        if not m:
            continue
        name = m.group(1)
        for blk in b.blocks:
            for st in blk["stmts"]:
                if st["k"] == "assign" and st["rv"]["k"] == "agg" and st["rv"].get("adt") == "haystack::units::unit::Unit" and not st["lhs"]["p"] and st["lhs"]["l"] == 0:
                    rv = st["rv"]
                    f = dict(zip(rv["fields"], rv["ops"]))
                    ids = strs_in(G.describe(b, f["ids"], depth=60), [])
                    q = strs_in(G.describe(b, f["quantity"]), [])
                    sc = op_const(f["scale"])
                    dim = G.describe(b, f["dimensions"])
                    units[name] = {"ids": ids, "quantity": q[0] if q else None, "scale": sc.get("float") if sc else None, "has_dim": not (dim.kind == "agg" and dim.v == "None"), "where": b.where()}
    return units


def units_map(prog):
    """[(id string, static name)] pairs of the UNITS literal"""
    b = None
    for x in prog.bodies.values():
        if x.id == "<" + UG + "UNITS as std::ops::Deref>::deref::__static_ref_initialize":
            b = x
    if b is None:
        return None, None
    pairs = []
    for blk in b.blocks:
        for st in blk["stmts"]:
            if st["k"] == "assign" and st["rv"]["k"] == "agg" and st["rv"].get("ak") == "tuple" and len(st["rv"]["ops"]) == 2:
                k = G.describe(b, st["rv"]["ops"][0])
                v = G.describe(b, st["rv"]["ops"][1])
                if k.kind == "conststr" and v.kind == "call":
                    m = re.match(r"^<" + re.escape(UG) + r"([A-Z0-9_]+) as std::ops::Deref>::deref$", v.v)
                    if m:
                        pairs.append((k.v, m.group(1)))
    return pairs, b


def check(ctx, rep):
    prog = ctx.prog
    units = unit_table(prog)
    units.pop("UNITS", None)
    pairs, ub = units_map(prog)
    if pairs is None:
        rep.gap("UNITS", "-", "UNITS initialiser not found")
        return 0, 0
    n_ids = sum(len(u["ids"]) for u in units.values())
    where = ub.where()
    # 1 every pair's id belongs to its unit
    bad = [(i, n) for i, n in pairs if n not in units or i not in units[n]["ids"]]
    if bad:
        for i, n in bad[:5]:
            rep.bad("R-UNITS", "R-UNITS:pair:%s->%s" % (i, n), where, "UNITS maps identifier %r to %s, which does not list it among its ids %s" % (i, n, units.get(n, {}).get("ids")))
    else:
        rep.ok("R-UNITS", "pairs-point-to-owner", where, "all %d (id, unit) pairs: id is one of the unit's ids" % len(pairs))
    # 2 every id of every unit is present
    have = {}
    for i, n in pairs:
        have.setdefault(i, []).append(n)
    missing = [(n, i) for n, u in units.items() for i in u["ids"] if n not in have.get(i, [])]
    if missing:
        for n, i in missing[:5]:
            rep.bad("R-UNITS", "R-UNITS:missing:%s:%s" % (n, i), units[n]["where"], "identifier %r of unit %s is not in the UNITS lookup table (or maps to %s): looking it up does not return that unit" % (i, n, have.get(i)))
    else:
        rep.ok("R-UNITS", "every-id-present", where, "all %d identifiers of %d units are keys of UNITS mapping to their unit" % (n_ids, len(units)))
    # 3 no duplicates
    dup = {i: ns for i, ns in have.items() if len(ns) > 1}
    shared = {}
    for n, u in units.items():
        for i in u["ids"]:
            shared.setdefault(i, set()).add(n)
    shared = {i: ns for i, ns in shared.items() if len(ns) > 1}
    if dup or shared:
        for i, ns in list(dup.items())[:3] + list(shared.items())[:3]:
            rep.bad("R-UNITS", "R-UNITS:duplicate-id:%s" % i, where, "identifier %r occurs for more than one unit / more than once (%s): a HashMap built from the list keeps only the last" % (i, sorted(ns)))
    else:
        rep.ok("R-UNITS", "ids-unique", where, "no identifier occurs twice in UNITS or belongs to two units")
    # 4 symbols survive the Zinc number reader
    ai = scanai.AI(prog)
    isu = prog.get("haystack::encoding::zinc::decode::scalar::number::is_unit_char")
    if isu is None:
        rep.gap("is_unit_char", "-", "function not found")
        return len(units), n_ids
    t, f, u = scanai.byte_class(ai, isu.id)
    rep.analysed["unit_char_class"] = scanai.mask_str(t)
    if u:
        rep.gap("is_unit_char:class", isu.where(), "byte class not fully evaluated (unknown for %s)" % scanai.mask_str(u))
    dec_first = scanai.mask_of(b"0123456789_.-")
    nsym = 0
    for n, uu in sorted(units.items()):
        if not uu["ids"]:
            rep.bad("R-UNITS", "R-UNITS:no-ids:%s" % n, uu["where"], "unit %s has no identifiers" % n)
            continue
        sym = uu["ids"][-1]
        bs = sym.encode("utf-8")
        key = "symbol:%s" % n
        nsym += 1
        if not bs:
            rep.bad("R-UNITS", "R-UNITS:" + key, uu["where"], "unit %s has an empty symbol" % n)
            continue
        outside = [x for x in bs if not (t >> x & 1)]
        if outside:
            rep.bad("R-UNITS", "R-UNITS:" + key, uu["where"], "symbol %r of %s contains byte(s) %s outside the Zinc reader's unit character class %s: a Number with this unit does not re-read" % (sym, n, [hex(x) for x in outside], scanai.mask_str(t)))
            continue
        if dec_first >> bs[0] & 1:
            rep.bad("R-UNITS", "R-UNITS:" + key, uu["where"], "symbol %r starts with a character the decimal scanner swallows" % sym)
            continue
        if bs[0] in b"eE" and len(bs) > 1 and (bs[1] in b"+-0123456789"):
            rep.bad("R-UNITS", "R-UNITS:" + key, uu["where"], "symbol %r reads as an exponent after a number" % sym)
            continue
        rep.ok("R-UNITS", key, uu["where"], "symbol %r re-reads as one unit token" % sym)
    # 5/6 who calls what
    gu = prog.get("haystack::units::get_unit")
    if gu is None:
        rep.gap("get_unit", "-", "not found")
    else:
        calls = [strip_generics(mir.callee_name(t2) or "") for _, t2 in gu.calls()]
        if "std::collections::HashMap::get" in calls and not any("iter" in c or "find" in c for c in calls):
            rep.ok("R-UNITS", "get_unit-is-one-lookup", gu.where(), "get_unit is a single HashMap::get on UNITS: a string that is no identifier returns None")
        else:
            rep.bad("R-UNITS", "R-UNITS:get_unit-is-one-lookup", gu.where(), "get_unit is not a plain HashMap::get on the table: %s" % calls)
    def calls_of(short):
        b = prog.get(short) or next((x for x in prog.bodies.values() if x.short == short), None)
        return b, ([strip_generics(mir.callee_name(t2) or "") for _, t2 in b.calls()] if b else [])
    for short, need, why in (
        ("haystack::encoding::json::encode::<impl serde::Serialize for haystack::val::number::Number>::serialize", "haystack::units::unit::Unit::symbol", "Hayson writer emits unit.symbol()"),
        ("haystack::encoding::json::decode::parse_number", "haystack::units::get_unit", "Hayson reader resolves the text with get_unit"),
        ("<haystack::units::unit::Unit as std::fmt::Display>::fmt", "haystack::units::unit::Unit::symbol", "Zinc writer prints the unit through Display = symbol()"),
        ("haystack::encoding::zinc::decode::scalar::number::parse_number", "haystack::units::get_unit", "Zinc reader resolves the scanned text with get_unit"),
    ):
        b, cs = calls_of(short)
        key = "codec:%s" % short.split("::")[-2 if short.endswith("serialize") else -1] + ":" + need.split("::")[-1]
        if b is None:
            rep.gap(short, "-", "not found")
        elif need in cs:
            rep.ok("R-UNITS", key, b.where(), why)
        else:
            rep.bad("R-UNITS", "R-UNITS:" + key, b.where(), "%s no longer calls %s (%s)" % (short.split("::")[-1], need, why))
    return len(units), n_ids
