"""C15: the generated unit table, evaluated statically from the MIR of the lazy_static initialisers."""
import re

from rules import guards as G
from rules import scanai
from vlib import mir
from vlib.mir import callee_of, op_const, strip_generics

UG = "haystack::units::units_generated::"


def strs_in(v, out):
    if v.kind == "conststr":
        out.append(v.v)
    for a in v.args:
        strs_in(a, out)
    return out


def unit_table(prog):
    """name -> {ids, scale, has_dim}"""
    units = {}
    for b in prog.bodies.values():
        m = re.match(r"^<" + re.escape(UG) + r"([A-Z0-9_]+) as std::ops::Deref>::deref::__static_ref_initialize$", b.id)
        if not m:
            continue
        name = m.group(1)
        for blk in b.blocks:
            for st in blk["stmts"]:
                if st["k"] == "assign" and st["rv"]["k"] == "agg" and st["rv"].get("adt") == "haystack::units::unit::Unit" and not st["lhs"]["p"] and st["lhs"]["l"] == 0:
                    rv = st["rv"]
                    f = dict(zip(rv["fields"], rv["ops"]))
                    ids = strs_in(G.describe(b, f["ids"], depth=60), [])
                    q = strs_in(G.describe(b, f["quantity"]), [])
                    sc = op_const(f["scale"])
                    dim = G.describe(b, f["dimensions"])
                    off = op_const(f["offset"]) if "offset" in f else None
                    dims = None
                    if dim.kind == "agg" and dim.v == "Some" and dim.args and dim.args[0].kind == "agg" and all(a.kind == "const" for a in dim.args[0].args):
                        dims = tuple((a.v - 256 if a.v > 127 else a.v) for a in dim.args[0].args)

                    def fl(c):
                        try:
                            return float(c.get("float")) if c and c.get("float") is not None else None
                        except (TypeError, ValueError):
                            return None

                    units[name] = {"ids": ids, "quantity": q[0] if q else None, "scale": sc.get("float") if sc else None, "scale_f": fl(sc), "offset_f": fl(off), "dims": dims,
                                   "has_dim": not (dim.kind == "agg" and dim.v == "None"), "where": b.where()}
    return units


def units_map(prog):
    """[(id string, static name)] pairs of the UNITS literal"""
    b = None
    for x in prog.bodies.values():
        if x.id == "<" + UG + "UNITS as std::ops::Deref>::deref::__static_ref_initialize":
            b = x
    if b is None:
        return None, None
    pairs = []
    for blk in b.blocks:
        for st in blk["stmts"]:
            if st["k"] == "assign" and st["rv"]["k"] == "agg" and st["rv"].get("ak") == "tuple" and len(st["rv"]["ops"]) == 2:
                k = G.describe(b, st["rv"]["ops"][0])
                v = G.describe(b, st["rv"]["ops"][1])
                if k.kind == "conststr" and v.kind == "call":
                    m = re.match(r"^<" + re.escape(UG) + r"([A-Z0-9_]+) as std::ops::Deref>::deref$", v.v)
                    if m:
                        pairs.append((k.v, m.group(1)))
    return pairs, b


def exponent_lookahead(prog, rep):
    """(introducer characters, set of bytes that make the reader take the introducer as an exponent), from parse_number's own branches"""
    # the function of the number decoder that decides whether an exponent follows: the one that calls parse_exponent
    b = None
    for x in prog.bodies.values():
        if x.file.endswith("encoding/zinc/decode/scalar/number.rs") and x.rec["kind"] != "Closure" and x.rec.get("name") != "parse_exponent":
            if any(strip_generics(mir.callee_name(t) or "").endswith("number::parse_exponent") for _bi, t in x.calls()):
                b = x
    dflt = ("eE", scanai.mask_of(b"+-0123456789"))
    if b is None:
        rep.gap("parse_number", "-", "no caller of parse_exponent found in the number decoder")
        return dflt
    intro = None
    peek = None
    target = []
    for bi, t in b.calls():
        nm = strip_generics(mir.callee_name(t) or "")
        if nm.endswith("Scanner::is_any_of") and intro is None:
            v = G.describe(b, t["args"][1])
            if v.kind == "conststr":
                intro = v.v
        elif nm.endswith("Scanner::peek") and peek is None:
            peek = bi
        elif nm.endswith("number::parse_exponent"):
            target.append(bi)
    if intro is None or peek is None or not target:
        rep.gap("parse_number:exponent-lookahead", b.where(), "is_any_of / peek / parse_exponent not found (intro=%s peek=%s target=%s)" % (intro, peek, target))
        return dflt
    # the peeked byte: payload of the Continue edge of `peek()?`
    start = var = None
    for sb in b.rpo():
        t = b.term(sb)
        if t["k"] == "switch":
            d = G.describe(b, t["op"])
            if d.kind == "discr" and "Scanner::peek" in repr(d) and "branch" in repr(d):
                for val, tb in t["targets"]:
                    if int(val) == 0:
                        start = tb
        if start is not None:
            break
    if start is None:
        rep.gap("parse_number:exponent-lookahead", b.where(), "Continue edge of peek()? not found")
        return dflt
    # name of the payload place as describe() prints it
    cand = set()
    region = set()
    for tg in target:
        region |= G.blocks_between(b, start, tg)
    for sb in region:
        t = b.term(sb)
        if t["k"] == "switch":
            for m in re.finditer(r"(_\d+ as Continue\.0)", repr(G.describe(b, t["op"]))):
                cand.add(m.group(1))
    if len(cand) != 1:
        rep.gap("parse_number:exponent-lookahead", b.where(), "peeked byte not identified (%s)" % sorted(cand))
        return dflt
    must, may = G.byte_set_reaching(b, cand.pop(), start, target, scanai.U8_PREDS)
    if must != may:
        rep.gap("parse_number:exponent-lookahead", b.where(), "look-ahead set not exact (must %s, may %s)" % (scanai.mask_str(must), scanai.mask_str(may)))
    rep.analysed["exponent_lookahead"] = "%s then %s" % (intro, scanai.mask_str(may))
    return intro, may


def check(ctx, rep):
    prog = ctx.prog
    units = unit_table(prog)
    units.pop("UNITS", None)
    pairs, ub = units_map(prog)
    if pairs is None:
        rep.gap("UNITS", "-", "UNITS initialiser not found")
        return 0, 0
    n_ids = sum(len(u["ids"]) for u in units.values())
    where = ub.where()
    # 1 every pair's id belongs to its unit
    bad = [(i, n) for i, n in pairs if n not in units or i not in units[n]["ids"]]
    if bad:
        for i, n in bad[:5]:
            rep.bad("R-UNITS", "R-UNITS:pair:%s->%s" % (i, n), where, "UNITS maps identifier %r to %s, which does not list it among its ids %s" % (i, n, units.get(n, {}).get("ids")))
    else:
        rep.ok("R-UNITS", "pairs-point-to-owner", where, "all %d (id, unit) pairs: id is one of the unit's ids" % len(pairs))
    # 2 every id of every unit is present
    have = {}
    for i, n in pairs:
        have.setdefault(i, []).append(n)
    missing = [(n, i) for n, u in units.items() for i in u["ids"] if n not in have.get(i, [])]
    if missing:
        for n, i in missing[:5]:
            rep.bad("R-UNITS", "R-UNITS:missing:%s:%s" % (n, i), units[n]["where"], "identifier %r of unit %s is not in the UNITS lookup table (or maps to %s): looking it up does not return that unit" % (i, n, have.get(i)))
    else:
        rep.ok("R-UNITS", "every-id-present", where, "all %d identifiers of %d units are keys of UNITS mapping to their unit" % (n_ids, len(units)))
    # 3 no duplicates
    dup = {i: ns for i, ns in have.items() if len(ns) > 1}
    shared = {}
    for n, u in units.items():
        for i in u["ids"]:
            shared.setdefault(i, set()).add(n)
    shared = {i: ns for i, ns in shared.items() if len(ns) > 1}
    if dup or shared:
        for i, ns in list(dup.items())[:3] + list(shared.items())[:3]:
            rep.bad("R-UNITS", "R-UNITS:duplicate-id:%s" % i, where, "identifier %r occurs for more than one unit / more than once (%s): a HashMap built from the list keeps only the last" % (i, sorted(ns)))
    else:
        rep.ok("R-UNITS", "ids-unique", where, "no identifier occurs twice in UNITS or belongs to two units")
    # 4 symbols survive the Zinc number reader
    ai = scanai.AI(prog)
    isu = prog.get("haystack::encoding::zinc::decode::scalar::number::is_unit_char")
    if isu is None:
        rep.gap("is_unit_char", "-", "function not found")
        return len(units), n_ids
    t, f, u = scanai.byte_class(ai, isu.id)
    rep.analysed["unit_char_class"] = scanai.mask_str(t)
    if u:
        rep.gap("is_unit_char:class", isu.where(), "byte class not fully evaluated (unknown for %s)" % scanai.mask_str(u))
    dec_first = scanai.mask_of(b"0123456789_.-")
    # the byte class that makes parse_number *start* reading a unit: the predicate guarding its call of parse_unit (today the same
    # is_unit_char; a narrower "unit start" predicate leaves out the symbols that begin with `/` or `_`)
    start_cls, start_fn = t, "is_unit_char"
    # (evaluated on the program as compiled: a predicate that is new to the rules would otherwise be spliced into parse_number)
    try:
        raw = mir.load(ctx.facts_dir, inline=False) if getattr(ctx, "facts_dir", None) else prog
    except OSError:
        raw = prog
    pn0 = raw.get("haystack::encoding::zinc::decode::scalar::number::parse_number")
    if pn0 is not None:
        for bi0, tt0 in pn0.calls():
            if strip_generics(mir.callee_name(tt0) or "").endswith("number::parse_unit"):
                for g0 in G.guards_at(pn0, bi0):
                    if g0.op == "True" and g0.a is not None and g0.a.kind == "call" and strip_generics(g0.a.v).startswith("haystack::encoding::zinc::decode::scalar::number::"):
                        gb = raw.get(strip_generics(g0.a.v))
                        if gb is not None and gb.id != isu.id:
                            t2, _f2, u2 = scanai.byte_class(scanai.AI(raw), gb.id)
                            if not u2:
                                start_cls, start_fn = t2, strip_generics(g0.a.v).split("::")[-1]
    exp_intro, exp_look = exponent_lookahead(prog, rep)
    nsym = 0
    for n, uu in sorted(units.items()):
        if not uu["ids"]:
            rep.bad("R-UNITS", "R-UNITS:no-ids:%s" % n, uu["where"], "unit %s has no identifiers" % n)
            continue
        sym = uu["ids"][-1]
        bs = sym.encode("utf-8")
        key = "symbol:%s" % n
        nsym += 1
        if not bs:
            rep.bad("R-UNITS", "R-UNITS:" + key, uu["where"], "unit %s has an empty symbol" % n)
            continue
        outside = [x for x in bs if not (t >> x & 1)]
        if outside:
            rep.bad("R-UNITS", "R-UNITS:" + key, uu["where"], "symbol %r of %s contains byte(s) %s outside the Zinc reader's unit character class %s: a Number with this unit does not re-read" % (sym, n, [hex(x) for x in outside], scanai.mask_str(t)))
            continue
        if dec_first >> bs[0] & 1:
            rep.bad("R-UNITS", "R-UNITS:" + key, uu["where"], "symbol %r starts with a character the decimal scanner swallows" % sym)
            continue
        if not (start_cls >> bs[0] & 1):
            rep.bad("R-UNITS", "R-UNITS:" + key, uu["where"], "symbol %r starts with a byte outside %s, the class on which the number reader begins to read a unit (%s): the number is read without its unit" % (sym, scanai.mask_str(start_cls), start_fn))
            continue
        if chr(bs[0]) in exp_intro and len(bs) > 1 and (exp_look >> bs[1] & 1):
            rep.bad("R-UNITS", "R-UNITS:" + key, uu["where"], "symbol %r reads as an exponent after a number: the reader treats %r followed by one of %s as an exponent" % (sym, chr(bs[0]), scanai.mask_str(exp_look)))
            continue
        rep.ok("R-UNITS", key, uu["where"], "symbol %r re-reads as one unit token" % sym)
    # 4b symbol() / name() are the last / first identifier of every unit that has one
    for fn, which in (("haystack::units::unit::Unit::symbol", "last"), ("haystack::units::unit::Unit::name", "first")):
        sb = prog.get(fn)
        if sb is None:
            rep.gap(fn, "-", "not found")
            continue
        ret = G.describe_place(sb, {"l": 0, "p": []})
        key = "accessor:%s-is-%s-id" % (fn.split("::")[-1], which)
        shape = (ret.kind == "call" and ret.v == "std::option::Option::map_or" and len(ret.args) == 3 and ret.args[0].kind == "call"
                 and ret.args[0].v == "core::slice::<impl [T]>::%s" % which and repr(ret.args[0].args[0]) == "_1*.ids" and ret.args[1].kind == "conststr" and ret.args[1].v == "")
        clo_ok = False
        for cid in prog.closures_of.get(sb.id, []):
            cb = prog.bodies[cid]
            cr = G.describe_place(cb, {"l": 0, "p": []})
            if cr.kind == "call" and cr.v in ("std::string::String::as_str", "<std::string::String as std::ops::Deref>::deref") or (cr.kind == "place" and cr.v.startswith("_2")):
                clo_ok = True
        if shape and clo_ok and sb.n <= 5:
            rep.ok("R-UNITS", key, sb.where(), "%s() = ids.%s().map_or(\"\", as_str): the %s identifier whenever there is one" % (fn.split("::")[-1], which, which))
            continue
        # other shapes: the empty-string result must be confined to `ids` being empty, and some path must yield the element
        empties = []
        for bi in range(sb.n):
            for st in sb.blocks[bi]["stmts"]:
                if st["k"] == "assign" and not st["lhs"]["p"] and st["lhs"]["l"] == 0:
                    v = G.describe(sb, st["rv"]["op"]) if st["rv"]["k"] == "use" else G.describe_place(sb, st["rv"].get("place")) if st["rv"]["k"] == "ref" else None
                    if v is not None and v.kind == "conststr" and v.v == "":
                        empties.append(bi)
        confined = bool(empties)
        for bi in empties:
            gs = G.guards_at(sb, bi)
            is_empty = any((g.op == "Eq" and g.b is not None and g.b.kind == "const" and g.b.v == 0 and "len" in repr(g.a) and ".ids" in repr(g.a)) or
                           (g.op == "Lt" and g.b is not None and g.b.kind == "const" and g.b.v == 1 and "len" in repr(g.a) and ".ids" in repr(g.a)) or
                           (g.op == "Eq" and g.a is not None and g.a.kind == "discr" and ("::%s(" % which) in repr(g.a) and g.b.v == 0) or
                           (g.op == "Ne" and g.a is not None and g.a.kind == "discr" and ("::%s(" % which) in repr(g.a) and g.b is not None and g.b.v == 1) for g in gs)
            confined = confined and is_empty
        if confined:
            rep.ok("R-UNITS", key, sb.where(), "the empty result is returned only when the unit has no identifiers")
        else:
            rep.bad("R-UNITS", "R-UNITS:" + key, sb.where(), "%s() is not `ids.%s()` for every non-empty id list (returns %s; the empty string is not confined to units without identifiers): units with few identifiers report an empty %s, which both codecs write" % (fn.split("::")[-1], which, repr(ret)[:120], fn.split("::")[-1]))
    # the unit reader takes every unit character: its loop is left only at the end of the input, at the first byte that is no unit
    # character, or on a read error - any other way out (a length bound, a character count) cuts identifiers short unless the
    # bound lies above the longest identifier of the table
    pu = prog.get("haystack::encoding::zinc::decode::scalar::number::parse_unit")
    if pu is None:
        rep.gap("parse_unit", "-", "function not found")
    else:
        maxlen = max((len(i.encode("utf-8")) for uu in units.values() for i in uu["ids"]), default=0)
        loops = [scc for scc in pu.sccs() if len(scc) > 1 and any(pu.term(x)["k"] == "call" and strip_generics(mir.callee_name(pu.term(x)) or "").endswith("Vec::push") for x in scc)]
        if len(loops) != 1:
            rep.gap("parse_unit:loop", pu.where(), "expected one loop pushing bytes, found %d" % len(loops))
        else:
            odd = []
            for x in sorted(loops[0]):
                t2 = pu.term(x)
                if t2["k"] != "switch" or all(y in loops[0] for y in pu.succ(x)):
                    continue
                d = G.describe(pu, t2["op"])
                rd = repr(d)
                if re.fullmatch(r"_1\*\.is_eof", rd) or (d.kind == "call" and strip_generics(d.v).endswith("number::is_unit_char")) or "Try>::branch" in rd:
                    continue
                if d.kind == "unop" and d.args and (re.fullmatch(r"_1\*\.is_eof", repr(d.args[0])) or (d.args[0].kind == "call" and strip_generics(d.args[0].v).endswith("number::is_unit_char"))):
                    continue
                bound = None
                if d.kind == "binop" and d.v in ("Lt", "Le", "Gt", "Ge") and len(d.args) == 2:
                    cs = [a for a in d.args if a.kind == "const" and isinstance(a.v, int)]
                    ls = [a for a in d.args if "len(" in repr(a)]
                    if len(cs) == 1 and len(ls) == 1:
                        bound = cs[0].v - (1 if (d.v in ("Lt", "Gt")) else 0)
                if bound is not None and bound >= maxlen:
                    continue
                odd.append((x, rd, bound))
            if odd:
                x, rd, bound = odd[0]
                rep.bad("R-UNITS", "R-UNITS:parse_unit:takes-every-unit-char", pu.where(x), "the unit reader also stops on %s%s: identifiers are cut short and not found (longest identifier of the table: %d bytes)" % (rd[:100], " (at most %d bytes are read)" % bound if bound is not None else "", maxlen))
            else:
                rep.ok("R-UNITS", "parse_unit:takes-every-unit-char", pu.where(), "the loop is left only at end of input, at a byte outside the unit class or on a read error (longest identifier %d bytes)" % maxlen)
    # 5/6 who calls what
    gu = prog.get("haystack::units::get_unit")
    if gu is None:
        rep.gap("get_unit", "-", "not found")
    else:
        calls = [strip_generics(mir.callee_name(t2) or "") for _, t2 in gu.calls()]
        if "std::collections::HashMap::get" in calls and not any("iter" in c or "find" in c for c in calls):
            rep.ok("R-UNITS", "get_unit-is-one-lookup", gu.where(), "get_unit is a single HashMap::get on UNITS: a string that is no identifier returns None")
        else:
            rep.bad("R-UNITS", "R-UNITS:get_unit-is-one-lookup", gu.where(), "get_unit is not a plain HashMap::get on the table: %s" % calls)
        # ... with the caller's text itself as the key: a normalised key (trimmed, lower-cased, prefix-stripped) makes strings that
        # are no identifier resolve to a unit
        for bi0, t0 in gu.calls():
            if strip_generics(mir.callee_name(t0) or "") == "std::collections::HashMap::get" and len(t0["args"]) > 1:
                kdesc = repr(G.describe(gu, t0["args"][1]))
                if re.fullmatch(r"&?_1\**", kdesc):
                    rep.ok("R-UNITS", "get_unit-key-is-the-argument", gu.where(bi0), "the table is asked for exactly the text that was passed in")
                else:
                    rep.bad("R-UNITS", "R-UNITS:get_unit-key-is-the-argument", gu.where(bi0), "get_unit looks up %s, not the text it was given: strings that are not identifiers (padded, differently cased ...) resolve to a unit" % kdesc[:100])
        # every identifier reaches that lookup: branches in front of it are evaluated for each key of the table
        switches = [bi for bi in range(gu.n) if gu.term(bi)["k"] == "switch"]
        getb = [bi for bi, t2 in gu.calls() if strip_generics(mir.callee_name(t2) or "") == "std::collections::HashMap::get"]
        pre = [bi for bi in switches if getb and getb[0] in gu.reachable(bi)]
        if not pre:
            rep.ok("R-UNITS", "get_unit-unconditional", gu.where(), "no branch in front of the lookup: every string is looked up")
        else:
            lens = sorted({len(i.encode("utf-8")) for i, _n in pairs})
            var = None
            for bi in pre:
                m = re.search(r"(core::str::<impl str>::len\(_1\*?\))", repr(G.describe(gu, gu.term(bi)["op"])))
                if m:
                    var = m.group(1)
            if var is None:
                rep.bad("R-UNITS", "R-UNITS:get_unit-unconditional", gu.where(pre[0]), "get_unit branches before the table lookup on a condition this rule cannot evaluate for every identifier (%s)" % repr(G.describe(gu, gu.term(pre[0])["op"]))[:100])
            else:
                must, may = G.byte_set_reaching(gu, var, 0, getb, {}, values=lens, through_calls=True)
                cut = [l for l in lens if l not in must]
                if cut:
                    ex = [i for i, _n in pairs if len(i.encode("utf-8")) in cut][:3]
                    rep.bad("R-UNITS", "R-UNITS:get_unit-unconditional", gu.where(pre[0]), "get_unit returns before the lookup for identifiers of byte length %s (e.g. %s): those units are not found by that name" % (cut, ex))
                else:
                    rep.ok("R-UNITS", "get_unit-unconditional", gu.where(pre[0]), "the length guard in front of the lookup lets every identifier length of the table (%d..%d) through" % (lens[0], lens[-1]))
    def calls_of(short):
        b = prog.get(short) or next((x for x in prog.bodies.values() if x.short == short), None)
        return b, ([strip_generics(mir.callee_name(t2) or "") for _, t2 in b.calls()] if b else [])
    for short, need, why in (
        ("haystack::encoding::json::encode::<impl serde::Serialize for haystack::val::number::Number>::serialize", "haystack::units::unit::Unit::symbol", "Hayson writer emits unit.symbol()"),
        ("haystack::encoding::json::decode::parse_number", "haystack::units::get_unit", "Hayson reader resolves the text with get_unit"),
        ("<haystack::units::unit::Unit as std::fmt::Display>::fmt", "haystack::units::unit::Unit::symbol", "Zinc writer prints the unit through Display = symbol()"),
        ("haystack::encoding::zinc::decode::scalar::number::parse_number", "haystack::units::get_unit", "Zinc reader resolves the scanned text with get_unit"),
    ):
        b, cs = calls_of(short)
        key = "codec:%s" % short.split("::")[-2 if short.endswith("serialize") else -1] + ":" + need.split("::")[-1]
        if b is None:
            rep.gap(short, "-", "not found")
        elif need in cs:
            rep.ok("R-UNITS", key, b.where(), why)
        else:
            rep.bad("R-UNITS", "R-UNITS:" + key, b.where(), "%s no longer calls %s (%s)" % (short.split("::")[-1], need, why))
    return len(units), n_ids
