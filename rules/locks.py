"""R-LOCK: DashMap guard discipline (DESIGN 2.4)."""
import re

from rules import guards as G
from vlib import mir
from vlib.dataflow import forward
from vlib.mir import callee_of, op_place, strip_generics

GUARD_RX = re.compile(r"dashmap::mapref::")
ALLOWED_METHODS = {"get", "contains_key", "insert", "new", "default", "with_capacity"}
MUTABLE_HANDOUT = {"get_mut", "entry", "alter", "alter_all", "iter_mut", "try_get_mut", "view", "remove", "remove_if", "clear", "retain", "shrink_to_fit", "try_entry", "remove_if_mut"}


def is_guard_ty(ty):
    return bool(GUARD_RX.search(ty))


def map_field_of(body, op):
    """name of the DashMap field a receiver operand refers to (last field projection), else None"""
    r = repr(G.describe(body, op))
    m = re.search(r"\.([A-Za-z_0-9]+)$", r)
    return m.group(1) if m else None


def insert_if_absent_via_entry(body, bi):
    """the call at block `bi` is `map.entry(k)` used as `map.entry(k).or_insert(v);` - insert unless present, the returned RefMut
    dropped on the spot: the entry's only use is as the receiver of or_insert / or_insert_with / or_default, whose result is never
    read or written through. Returns the block of that or_insert call, or None"""
    t = body.term(bi)
    if t["k"] != "call" or t["dest"]["p"]:
        return None
    el = t["dest"]["l"]
    users = []
    for bj, tt in body.calls():
        for a in tt.get("args", []):
            pl = op_place(a)
            if pl is not None and pl["l"] == el:
                users.append((bj, tt))
    if len(users) != 1:
        return None
    bj, tt = users[0]
    nm = strip_generics(mir.callee_name(tt) or "")
    if not (nm.startswith("dashmap::") and nm.split("::")[-2] == "Entry") or nm.split("::")[-1] not in ("or_insert", "or_insert_with", "or_default") or tt["dest"]["p"]:
        return None
    rl = tt["dest"]["l"]
    # the RefMut is not used: no statement or call mentions it (drops aside)
    for bk in range(body.n):
        for st in body.blocks[bk]["stmts"]:
            if st["k"] == "assign":
                txt = repr(st["rv"])
                if re.search(r"'l': %d\b" % rl, txt) or (st["lhs"]["l"] == rl and (bk, "stmt") != (bj, "term")):
                    return None
        tk = body.term(bk)
        if tk["k"] == "call" and bk != bj:
            for a in tk.get("args", []):
                pl = op_place(a)
                if pl is not None and pl["l"] == rl:
                    return None
    # ... and it is released before anything else happens: from the or_insert call the guard is dropped (or its storage ends)
    # before the next call - a `let _g = map.entry(k).or_insert(v);` that lives to the end of the scope holds the write lock
    cur = tt.get("t")
    for _i in range(6):
        if cur is None:
            return None
        blk = body.blocks[cur]
        if any(st["k"] == "dead" and st["l"] == rl for st in blk["stmts"]):
            return bj
        tk = blk["term"]
        if tk["k"] == "drop" and not tk["place"]["p"] and tk["place"]["l"] == rl:
            return bj
        if tk["k"] not in ("goto", "drop"):
            return None
        cur = tk.get("t")
    return None


class LockRule:
    def __init__(self, ctx):
        self.ctx = ctx
        self.prog = ctx.prog
        self.direct = {}  # body id -> set of (map field, method)
        self.returns_guard = {}  # body id -> map field
        self._touch = {}
        self.scan()

    def scan(self):
        prog = self.prog
        for b in prog.bodies.values():
            if "units_generated" in b.id:
                continue
            acc = set()
            for bi, t in b.calls():
                nm = strip_generics(mir.callee_name(t) or "")
                if nm.startswith("dashmap::DashMap::") and t["args"]:
                    f = map_field_of(b, t["args"][0])
                    acc.add((f or "?", nm.split("::")[-1], bi))
            if acc:
                self.direct[b.id] = acc
        # functions returning a guard: which map?
        for b in prog.bodies.values():
            if is_guard_ty(b.rec.get("sig_output", "")) and b.id in self.direct:
                fields = {f for f, m, _ in self.direct[b.id] if m == "get"}
                if len(fields) == 1:
                    self.returns_guard[b.id] = next(iter(fields))
        self.maps = sorted({f for acc in self.direct.values() for f, _, _ in acc})

    def touches(self, fid):
        """map fields any access of which is reachable from fid"""
        if fid in self._touch:
            return self._touch[fid]
        reach, _ = self.prog.reachable_from([fid])
        out = set()
        for g in reach:
            for f, m, _ in self.direct.get(g, ()):
                out.add(f)
        self._touch[fid] = out
        return out

    def guard_sites(self, body):
        """call blocks that create a guard: (block, dest local, map field)"""
        out = []
        for bi, t in body.calls():
            dty = t.get("dest_ty", "")
            if not is_guard_ty(dty) or t["dest"]["p"]:
                continue
            nm = strip_generics(mir.callee_name(t) or "")
            res = mir.callee_name(t)
            fld = None
            if nm.startswith("dashmap::DashMap::") and t["args"]:
                fld = map_field_of(body, t["args"][0])
            elif res in self.returns_guard:
                fld = self.returns_guard[res]
            if fld:
                out.append((bi, t["dest"]["l"], fld))
        return out

    def liveness(self, body):
        """may-dataflow: set of (local, map) guards live at block entry; variant-aware for Option<Guard>"""
        sites = {bi: (l, f) for bi, l, f in self.guard_sites(body)}

        def transfer(b, facts):
            f = set(facts)
            blk = body.blocks[b]
            for st in blk["stmts"]:
                if st["k"] == "dead":
                    f = {(l, m) for (l, m) in f if l != st["l"]}
                elif st["k"] == "assign":
                    rv = st["rv"]
                    if rv["k"] == "use":
                        pl = op_place(rv["op"])
                        if pl is not None and "mv" in rv["op"]:
                            moved = [(l, m) for (l, m) in f if l == pl["l"]]
                            if moved:
                                f -= set(moved)
                                if not st["lhs"]["p"] and st["lhs"]["l"] != 0:
                                    for l, m in moved:
                                        f.add((st["lhs"]["l"], m))
                    elif rv["k"] == "agg":
                        for o in rv["ops"]:
                            pl = op_place(o)
                            if pl is not None and "mv" in o:
                                moved = [(l, m) for (l, m) in f if l == pl["l"]]
                                if moved and not st["lhs"]["p"]:
                                    f -= set(moved)
                                    if st["lhs"]["l"] != 0:
                                        for l, m in moved:
                                            f.add((st["lhs"]["l"], m))
            t = blk["term"]
            outs = {}
            succs = body.succ(b)
            if t["k"] == "drop" and not t["place"]["p"]:
                f = {(l, m) for (l, m) in f if l != t["place"]["l"]}
            if t["k"] == "call":
                # guard moved into a callee (e.g. Option::expect(guard_opt)) -> result local carries it
                for a in t["args"]:
                    pl = op_place(a)
                    if pl is not None and "mv" in a and not pl["p"]:
                        moved = [(l, m) for (l, m) in f if l == pl["l"]]
                        if moved:
                            f -= set(moved)
                            if is_guard_ty(t.get("dest_ty", "")) and not t["dest"]["p"] and t["dest"]["l"] != 0:
                                for l, m in moved:
                                    f.add((t["dest"]["l"], m))
                if b in sites:
                    l, m = sites[b]
                    if l != 0:
                        f.add((l, m))
            for s in succs:
                outs[s] = frozenset(f)
            if t["k"] == "switch":
                # switch on the discriminant of an Option<Guard> local: the None edge holds no guard
                pl = op_place(t["op"])
                sd = body.single_def(pl["l"]) if pl is not None and not pl["p"] else None
                if sd and sd[1] != "term" and sd[2]["k"] == "discr" and not sd[2]["place"]["p"]:
                    gl = sd[2]["place"]["l"]
                    if any(l == gl for l, _ in f) and body.local_ty(gl).startswith("std::option::Option<"):
                        for val, tb in t["targets"]:
                            if int(val) == 0:
                                outs[tb] = frozenset((l, m) for (l, m) in f if l != gl)
                        vals = {int(v) for v, _ in t["targets"]}
                        if 0 not in vals and 1 in vals:
                            outs[t["otherwise"]] = frozenset((l, m) for (l, m) in f if l != gl)
            return outs

        return forward(body, frozenset(), transfer, must=False)

    def check(self, rep, scope_files=("src/haystack/defs/", "src/haystack/filter/")):
        prog = self.prog
        n_sites = 0
        holders = 0
        order_edges = set()
        # K6 no guard leaves the library: a public function that returns a live shard guard lets the *caller* hold the shard's
        # read lock across its next query; a cold query then inserts into the same cache and, when the key falls into the held
        # shard, waits for a lock its own thread holds (one thread, no schedule needed). K1 covers the library's own callers;
        # nothing can cover callers outside it, so the only sound discipline is that the guard type does not escape
        for b in prog.bodies.values():
            if b.rec["kind"] == "Closure" or not is_guard_ty(b.rec.get("sig_output", "")):
                continue
            if not b.file.startswith(scope_files):
                continue
            nm = strip_generics(b.id).split("::")
            key = "K6:guard-escapes:%s" % "::".join(nm[-2:])
            if b.rec.get("vis") == "Public":
                rep.bad("R-LOCK", "R-LOCK:" + key, b.where(), "K6: public %s returns %s: a caller that keeps the answer while issuing another (cold) query blocks on the shard lock it holds itself" % (strip_generics(b.id), b.rec.get("sig_output", "")[:80]))
            else:
                rep.ok("R-LOCK", key, b.where(), "K6: returns a guard, but only to the library's own callers (held spans checked by K1)")
        # K3 method whitelist
        for fid, acc in sorted(self.direct.items()):
            body = prog.bodies[fid]
            for fld, meth, bi in sorted(acc):
                key = "K3:%s:%s.%s" % (body.short, fld, meth)
                if meth == "entry" and insert_if_absent_via_entry(body, bi) is not None:
                    rep.ok("R-LOCK", key, body.where(bi), "K3: entry(k).or_insert(v) with the returned guard dropped at once: insert-if-absent, nothing cached is changed")
                elif meth in ALLOWED_METHODS:
                    rep.ok("R-LOCK", key, body.where(bi), "K3: %s() on .%s hands out no &mut and removes nothing" % (meth, fld))
                else:
                    rep.bad("R-LOCK", "R-LOCK:" + key, body.where(bi), "K3: DashMap::%s on cache .%s: %s" % (meth, fld, "hands out mutable access to / removes cached storage that readers may be looking at" if meth in MUTABLE_HANDOUT else "method outside the audited set {get, contains_key, insert}"))
        # K5 memo-table ownership: a cache is read and filled only inside its own get-or-compute accessor, so no other
        # function can observe whether an entry happens to be cached (answers cannot depend on the query history)
        owners = {}
        for fid, acc in self.direct.items():
            body = prog.bodies[fid]
            root = body.rec.get("root", fid)
            for fld, meth, bi in acc:
                if meth in ("new", "default", "with_capacity"):
                    continue
                owners.setdefault(fld, {}).setdefault(root, []).append((body, bi, meth))
        for fld, fs in sorted(owners.items()):
            accessor = [f for f in fs if self.returns_guard.get(f) == fld]
            for f, uses in sorted(fs.items()):
                body, bi, meth = uses[0]
                key = "K5:.%s accessed in %s" % (fld, mir.strip_generics(f))
                if f in accessor:
                    rep.ok("R-LOCK", key, body.where(bi), "K5: the cache's own get-or-compute accessor (%d accesses)" % len(uses))
                else:
                    rep.bad("R-LOCK", "R-LOCK:" + key, body.where(bi), "K5: cache .%s is accessed (%s) outside its get-or-compute accessor: the result can depend on whether an entry happens to be cached, i.e. on the query history" % (fld, meth))
            if not accessor:
                rep.bad("R-LOCK", "R-LOCK:K5:.%s:no-accessor" % fld, "-", "K5: no single accessor function returns the guard of cache .%s" % fld)
            # K5b inside the accessor every access of the cache is for the accessor's own key: looking whether *another* key happens
            # to be cached makes the answer depend on which queries came before
            for f in accessor:
                ab = prog.bodies[f]
                for bi2, t2 in ab.calls():
                    nm2 = strip_generics(mir.callee_name(t2) or "")
                    if nm2.startswith("dashmap::DashMap::") and len(t2["args"]) > 1 and (map_field_of(ab, t2["args"][0]) or "?") == fld:
                        kd = repr(G.describe(ab, t2["args"][1]))
                        key = "K5b:.%s:%s:%s-key" % (fld, strip_generics(f).split("::")[-1], nm2.split("::")[-1])
                        if re.fullmatch(r"&?_2\**|<haystack::val::symbol::Symbol as std::clone::Clone>::clone\(_2\**\)", kd):
                            rep.ok("R-LOCK", key, ab.where(bi2), "K5b: the cache is asked for the accessor's own key")
                        else:
                            rep.bad("R-LOCK", "R-LOCK:" + key, ab.where(bi2), "K5b: the accessor of cache .%s looks up %s, not the key it was called for: whether that other entry is cached depends on the query history" % (fld, kd[:80]))
        for body in prog.bodies.values():
            if "units_generated" in body.id:
                continue
            gs = self.guard_sites(body)
            if not gs:
                continue
            n_sites += len(gs)
            holders += 1
            IN = self.liveness(body)
            for b in sorted(IN):
                live = IN[b]
                if not live:
                    continue
                t = body.term(b)
                if t["k"] != "call":
                    continue
                nm = strip_generics(mir.callee_name(t) or "?")
                tg, cb, ext = prog.site_targets(body, t)
                touched = set()
                if nm.startswith("dashmap::DashMap::") and t["args"]:
                    touched.add(map_field_of(body, t["args"][0]) or "?")
                for g in tg | cb:
                    touched |= self.touches(g)
                # K1b a caller-supplied callback (a call through a generic Fn parameter / a `dyn Fn`) may do anything, querying this
                # namespace included: while a guard is live it counts as touching every cache
                if nm.endswith(("Fn::call", "FnMut::call_mut", "FnOnce::call_once")) and t["args"]:
                    rty = body.local_ty(mir.op_place(t["args"][0])["l"]) if mir.op_place(t["args"][0]) is not None else ""
                    if re.fullmatch(r"&?(mut )?[A-Z][A-Za-z0-9]*", rty.replace("&'_ ", "&")) or "dyn " in rty:
                        for (l, m) in sorted(live):
                            rep.bad("R-LOCK", "R-LOCK:K1b:%s:guard(.%s) across callback" % (body.short, m), body.where(b), "K1b: a guard of cache .%s is held while the caller's callback (%s) runs: a callback that queries the namespace inserts into the cache and blocks on the shard lock this thread holds" % (m, rty))
                        continue
                for (l, m) in sorted(live):
                    key = "K1:%s:guard(.%s) across %s" % (body.short, m, nm.split("::")[-1])
                    if m in touched:
                        rep.bad("R-LOCK", "R-LOCK:" + key, body.where(b), "K1: a guard of cache .%s (local _%d) is still held while %s touches the same map: DashMap shard locks are not re-entrant (self-deadlock under a waiting writer / on insert)" % (m, l, nm))
                    for m2 in touched - {m}:
                        order_edges.add((m, m2, body.short))
                if not any(m in touched for _, m in live):
                    rep.ok("R-LOCK", "K1:%s:bb-call:%s#%d" % (body.short, nm.split("::")[-1], b), body.where(b), "K1: guards %s live; callee touches %s" % (sorted({m for _, m in live}), sorted(touched) or "no cache"))
            # K4: inserts move an owned, finished local
            for fld, meth, bi in sorted(self.direct.get(body.id, ())):
                if meth != "insert":
                    continue
                t = body.term(bi)
                v = t["args"][2] if len(t["args"]) > 2 else None
                key = "K4:%s:.%s.insert" % (body.short, fld)
                if v is not None and "mv" in v and not op_place(v)["p"]:
                    rep.ok("R-LOCK", key, body.where(bi), "K4: the inserted value is moved into the map (no alias can mutate it afterwards)")
                else:
                    rep.bad("R-LOCK", "R-LOCK:" + key, body.where(bi), "K4: value inserted into cache .%s is not an owned local moved in" % fld)
        # K2 lock order
        adj = {}
        for a, b2, w in order_edges:
            adj.setdefault(a, set()).add(b2)
        cyc = None
        for a in adj:
            seen = set()
            st = [a]
            while st:
                x = st.pop()
                for y in adj.get(x, ()):
                    if y == a:
                        cyc = (a, x)
                    if y not in seen:
                        seen.add(y)
                        st.append(y)
        if cyc:
            rep.bad("R-LOCK", "R-LOCK:K2:order-cycle:%s<->%s" % cyc, "-", "K2: caches .%s and .%s are each acquired while a guard of the other is held (lock-order cycle): %s" % (cyc[0], cyc[1], sorted(order_edges)))
        else:
            rep.ok("R-LOCK", "K2:lock-order", "-", "K2: 'guard of M1 held while acquiring M2' graph is acyclic: %s" % (sorted((a, b2) for a, b2, _ in order_edges) or "no nested acquisition"))
        return n_sites, holders
