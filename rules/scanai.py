"""Abstract interpreter over MIR for the scanner / lexer state (DESIGN 2.2, T1+T2 unified).

Abstract state: cur in 2^256 (set of possible values of Scanner.cur), eof in {0,1}, p = lower bound (capped) of how
far the termination measure M has decreased, tok = variant of Lexer.cur.value (0 None, 1 Some, 2 unknown), plus
function-local facts about temporaries (known discriminants / booleans, copies of cur, byte predicates).

Termination measure: M = bytes left in the stream + bytes in the peek buffer + (0 if is_eof else 1).
  read_exact Ok          M-1      (stream byte consumed)
  peek buffer push       M+1      (together with the read_exact before it: net 0, peeking does not consume)
  peek buffer remove     M-1
  is_eof: false -> true  M-1
  is_eof: true -> false  M+1      (the reset in parse_number_date_time)
Everything is derived from the MIR of the scanner itself; no scanner method is trusted.
"""
from rules import guards as G
from vlib import mir
from vlib.mir import callee_of, op_const, op_place, strip_generics

ALL = (1 << 256) - 1
PMIN, PMAX = -2, 2
SCANNER = "haystack::encoding::zinc::decode::scanner::Scanner"
LEXERS = ("haystack::encoding::zinc::decode::lexer::Lexer", "haystack::filter::lexer::Lexer")
TOKENS = ("haystack::encoding::zinc::decode::lexer::LexerToken", "haystack::filter::lexer::LexerToken")


def mask_of(bs):
    m = 0
    for b in bs:
        m |= 1 << b
    return m


def mask_range(a, b):
    m = 0
    for x in range(a, b + 1):
        m |= 1 << x
    return m


def mask_str(m):
    if m == ALL:
        return "any"
    out = []
    i = 0
    while i < 256:
        if m >> i & 1:
            j = i
            while j + 1 < 256 and m >> (j + 1) & 1:
                j += 1
            f = lambda x: chr(x) if 33 <= x < 127 else "\\x%02x" % x
            out.append(f(i) if i == j else "%s-%s" % (f(i), f(j)))
            i = j + 1
        else:
            i += 1
    return "[" + " ".join(out) + "]"


U8_PREDS = {
    "core::num::<impl u8>::is_ascii_digit": mask_range(48, 57),
    "core::num::<impl u8>::is_ascii_hexdigit": mask_range(48, 57) | mask_range(65, 70) | mask_range(97, 102),
    "core::num::<impl u8>::is_ascii_uppercase": mask_range(65, 90),
    "core::num::<impl u8>::is_ascii_lowercase": mask_range(97, 122),
    "core::num::<impl u8>::is_ascii_alphabetic": mask_range(65, 90) | mask_range(97, 122),
    "core::num::<impl u8>::is_ascii_alphanumeric": mask_range(48, 57) | mask_range(65, 90) | mask_range(97, 122),
    "core::num::<impl u8>::is_ascii_whitespace": mask_of([9, 10, 12, 13, 32]),
    "core::num::<impl u8>::is_ascii": mask_range(0, 127),
}


def last_field(pl):
    for pr in reversed(pl["p"]):
        if isinstance(pr, dict) and "n" in pr:
            return pr
        if pr == "*" or (isinstance(pr, dict) and "dc" in pr):
            continue
        return None
    return None


def is_scanner_field(pl, name):
    if not pl["p"]:
        return False
    pr = pl["p"][-1]
    return isinstance(pr, dict) and pr.get("n") == name and pr.get("a") == SCANNER


def is_lexer_cur(pl):
    if not pl["p"]:
        return False
    pr = pl["p"][-1]
    return isinstance(pr, dict) and pr.get("n") == "cur" and pr.get("a") in LEXERS


def is_token_value(pl):
    ps = [x for x in pl["p"] if x != "*"]
    if len(ps) < 2:
        return False
    a, b = ps[-2], ps[-1]
    return isinstance(a, dict) and isinstance(b, dict) and a.get("n") == "cur" and a.get("a") in LEXERS and b.get("n") == "value" and b.get("a") in TOKENS


class Info(dict):
    """function-local facts: local -> (kind, value)"""

    def frozen(self):
        return frozenset(self.items())


class AI:
    def __init__(self, prog, eof_only_errors=False):
        """eof_only_errors: the reader is an in-memory buffer, so read_exact fails only with UnexpectedEof
        (true for filters parsed from a &str; false for Zinc, which accepts any reader)"""
        self.prog = prog
        self.eof_only_errors = eof_only_errors
        self.summaries = {}  # key -> frozenset(outcomes)
        self.deps = {}
        self.inprogress = set()
        self.stack = []
        self.queue = set()
        self.version = 0
        self._touch = None
        self.dirty = True
        self.trace = {}

    # ------------------------------------------------------------------ which functions matter
    def touch(self):
        """bodies from which a scanner primitive, a scanner/lexer state read or a token constructor is reachable"""
        if self._touch is not None:
            return self._touch
        prog = self.prog
        base = set()
        for b in prog.bodies.values():
            if "units_generated" in b.id:
                continue
            hit = False
            for blk in b.blocks:
                for st in blk["stmts"]:
                    if st["k"] != "assign":
                        continue
                    places = [st["lhs"]]
                    rv = st["rv"]
                    if rv["k"] in ("ref", "discr"):
                        places.append(rv["place"])
                    elif rv["k"] in ("use", "cast"):
                        p2 = op_place(rv["op"])
                        if p2:
                            places.append(p2)
                    elif rv["k"] == "binop":
                        for o in (rv["a"], rv["b"]):
                            p2 = op_place(o)
                            if p2:
                                places.append(p2)
                    elif rv["k"] == "agg" and rv.get("adt") in TOKENS:
                        hit = True
                    for pl in places:
                        for pr in pl["p"]:
                            if isinstance(pr, dict) and pr.get("a") == SCANNER and pr.get("n") in ("cur", "is_eof", "next"):
                                hit = True
                            if isinstance(pr, dict) and pr.get("a") in LEXERS and pr.get("n") == "cur":
                                hit = True
                t = blk["term"]
                if t["k"] == "call":
                    nm = strip_generics(mir.callee_name(t) or "")
                    if nm == "std::io::Read::read_exact":
                        hit = True
                if t["k"] == "switch":
                    p2 = op_place(t["op"])
                    if p2:
                        for pr in p2["p"]:
                            if isinstance(pr, dict) and pr.get("a") == SCANNER:
                                hit = True
            if hit:
                base.add(b.id)
        # callers closure
        cg = prog.callgraph()
        rev = {}
        for f, outs in cg.items():
            for g in outs:
                rev.setdefault(g, set()).add(f)
        seen = set(base)
        st = list(base)
        while st:
            f = st.pop()
            for g in rev.get(f, ()):
                if g not in seen and "units_generated" not in g:
                    seen.add(g)
                    st.append(g)
        self._touch = seen
        return seen

    # ------------------------------------------------------------------ summaries
    def summary(self, fid, cur, eof, tok, cargs=()):
        """outcomes of calling fid in the given context (least fixpoint, computed on demand)"""
        key = (fid, cur, eof, tok, cargs)
        if self.stack:
            self.deps.setdefault(key, set()).add(self.stack[-1])
        if key not in self.summaries:
            self.summaries[key] = frozenset()
            self.compute(key)
        return self.summaries[key]

    def compute(self, key):
        if key in self.inprogress:
            return
        self.inprogress.add(key)
        fid, cur, eof, tok, cargs = key
        body = self.prog.bodies[fid]
        info = Info()
        for idx, bs in cargs:
            info[idx] = ("s", bs)
        start = (cur, eof, 0, tok, info.frozen())
        self.stack.append(key)
        try:
            for _ in range(200):
                outs, _ = self.run(body, 0, start)
                new = self.merge_outcomes(self.summaries[key] | frozenset(outs))
                if new == self.summaries[key]:
                    break
                self.summaries[key] = new
                self.version += 1
                for d in self.deps.get(key, ()):
                    if d != key:
                        self.queue.add(d)
            else:
                raise RuntimeError("scanai: summary of %s does not converge" % fid)
        finally:
            self.stack.pop()
            self.inprogress.discard(key)

    @staticmethod
    def merge_outcomes(outs):
        m = {}
        for rtag, rint, rshape, c, e, p, t in outs:
            k = (rtag, rint, rshape, e, p, t)
            m[k] = m.get(k, 0) | c
        return frozenset((k[0], k[1], k[2], c, k[3], k[4], k[5]) for k, c in m.items())

    def solve(self):
        """re-analyse callers whose callee summaries grew, until nothing changes"""
        n = 0
        while self.queue:
            n += 1
            if n > 20000:
                raise RuntimeError("scanai: summaries do not converge")
            key = self.queue.pop()
            if key in self.summaries:
                self.compute(key)

    # ------------------------------------------------------------------ intra-procedural
    def run(self, body, start, state, region=None, header=None):
        """propagate from `start`; returns (outcomes at return, states arriving at `header` through an edge
        inside `region`). With region set, edges leaving the region are not followed."""
        IN = {}
        work = []
        outcomes = set()
        back = []

        def push(b, st, pred):
            if region is not None and b not in region:
                return
            if header is not None and b == header and pred is not None:
                back.append((st, pred))
                return
            d = IN.setdefault(b, {})
            k = st[1:]
            if len(d) > 300 and k not in d:
                k = (st[1], st[2], st[3], frozenset())  # widen: forget local facts
            old = d.get(k, 0)
            new = old | st[0]
            if new != old:
                d[k] = new
                work.append((b, (new,) + k))

        push(start, state, None)
        steps = 0
        while work:
            b, st = work.pop()
            steps += 1
            if steps > 400000:
                raise RuntimeError("scanai: too many steps in " + body.id)
            for nb, nst in self.step(body, b, st, outcomes):
                push(nb, nst, b)
        return outcomes, back

    def run_states(self, body, start, state, region):
        """like run(), but returns the states per block: {block: {(eof, p, tok, info): cur mask}}"""
        IN = {}
        work = []
        outcomes = set()

        def push(b, st):
            if region is not None and b not in region:
                return
            d = IN.setdefault(b, {})
            k = st[1:]
            old = d.get(k, 0)
            new = old | st[0]
            if new != old:
                d[k] = new
                work.append((b, (new,) + k))

        push(start, state)
        first = True
        while work:
            b, st = work.pop()
            for nb, nst in self.step(body, b, st, outcomes):
                if nb == start and not first:
                    pass
                push(nb, nst)
            first = False
        return IN

    # -- helpers on state
    @staticmethod
    def _clamp(p):
        return max(PMIN, min(PMAX, p))

    def _kill_cur_facts(self, info):
        for l in [l for l, v in info.items() if v[0] in ("c", "m")]:
            del info[l]

    def refers_cur(self, body, info, op):
        """operand is `&scanner.cur` or `&<local copy of cur>` (or the copy itself)"""
        pl = op_place(op)
        if pl is None:
            return False
        if pl["p"] and is_scanner_field(pl, "cur"):
            return True
        if pl["p"]:
            # (*_x) where _x is a reference to cur
            if pl["p"] == ["*"]:
                return info.get(pl["l"], ("",))[0] == "rc"
            return False
        k = info.get(pl["l"])
        return k is not None and k[0] in ("rc", "c")

    def const_bytes(self, body, info, op):
        pl = op_place(op)
        if pl is not None and not pl["p"] and info.get(pl["l"], ("",))[0] == "s":
            return info[pl["l"]][1]
        v = G.describe(body, op)
        if v.kind == "conststr":
            return v.v.encode("latin1")
        return None

    def step(self, body, b, st, outcomes):
        cur, eof, p, tok, finfo = st
        info = Info(finfo)
        blk = body.blocks[b]
        for s in blk["stmts"]:
            k = s["k"]
            if k == "assign":
                cur, eof, p, tok = self.assign(body, s["lhs"], s["rv"], cur, eof, p, tok, info)
            elif k == "dead":
                info.pop(s["l"], None)
        t = blk["term"]
        k = t["k"]
        mk = lambda: (cur, eof, self._clamp(p), tok, info.frozen())
        if k == "goto":
            return [(t["t"], mk())]
        if k in ("drop", "assert"):
            return [(t["t"], mk())] if "t" in t else []
        if k == "return":
            v = info.get(0)
            if v and v[0] == "m":
                # the function returns a byte predicate of cur unevaluated: split the outcome
                if cur & v[1]:
                    outcomes.add((None, 1, None, cur & v[1], eof, self._clamp(p), tok))
                if cur & ~v[1] & ALL:
                    outcomes.add((None, 0, None, cur & ~v[1] & ALL, eof, self._clamp(p), tok))
                return []
            rtag = v[1] if v and v[0] == "t" else None
            rint = v[1] if v and v[0] == "i" else None
            rshape = v[1] if v and v[0] == "k" else None
            outcomes.add((rtag, rint, rshape, cur, eof, self._clamp(p), tok))
            return []
        if k == "switch":
            return self.switch(body, t, cur, eof, p, tok, info)
        if k == "call":
            return self.call(body, b, t, cur, eof, p, tok, info)
        return []

    # -- statements
    def assign(self, body, lhs, rv, cur, eof, p, tok, info):
        k = rv["k"]
        if lhs["p"]:
            # store through a place
            if is_scanner_field(lhs, "is_eof"):
                c = op_const(rv.get("op")) if k == "use" else None
                if c is not None and "bool" in c:
                    new = 1 if c["bool"] else 0
                    if new != eof:
                        p = p + 1 if new == 1 else p - 1
                    eof = new
                else:
                    p = PMIN  # non-constant store to is_eof: nothing can be claimed any more
            elif is_scanner_field(lhs, "cur"):
                cur = ALL
                self._kill_cur_facts(info)
            elif is_lexer_cur(lhs):
                tok = 2
                if k == "use":
                    pl = op_place(rv["op"])
                    if pl is not None and not pl["p"] and info.get(pl["l"], ("",))[0] == "k":
                        tok = info[pl["l"]][1]
            elif is_token_value(lhs):
                tok = 2
            return cur, eof, p, tok
        l = lhs["l"]
        info.pop(l, None)
        if k == "use":
            c = op_const(rv["op"])
            if c is not None:
                i = mir.const_int(c)
                if i is not None:
                    info[l] = ("i", i)
                elif "bytes" in c:
                    info[l] = ("s", bytes(c["bytes"]))
                return cur, eof, p, tok
            pl = op_place(rv["op"])
            if pl is None:
                return cur, eof, p, tok
            if not pl["p"]:
                v = info.get(pl["l"])
                if v is not None:
                    info[l] = v
            elif is_scanner_field(pl, "cur"):
                info[l] = ("c", 0)
            elif is_scanner_field(pl, "is_eof"):
                info[l] = ("i", eof)
            elif pl["p"] == ["*"] and info.get(pl["l"], ("",))[0] == "rc":
                info[l] = ("c", 0)
            elif pl["p"] == ["*"] and info.get(pl["l"], ("",))[0] == "re":
                info[l] = ("i", eof)
        elif k in ("ref", "rawptr"):
            pl = rv["place"]
            if pl["p"] and is_scanner_field(pl, "cur"):
                info[l] = ("rc", 0)
            elif pl["p"] and is_scanner_field(pl, "is_eof"):
                info[l] = ("re", 0)
            elif not pl["p"] and info.get(pl["l"], ("",))[0] == "c":
                info[l] = ("rc", 0)
            elif pl["p"] and is_token_value(pl):
                info[l] = ("rt", 0)
            elif pl["p"] == ["*"] and info.get(pl["l"], ("",))[0] in ("rc", "re", "s", "rt", "ek"):
                info[l] = info[pl["l"]]
            elif not pl["p"] and info.get(pl["l"], ("",))[0] == "ek":
                info[l] = info[pl["l"]]
            elif not pl["p"] and info.get(pl["l"], ("",))[0] == "s":
                info[l] = info[pl["l"]]
        elif k == "cast":
            pl = op_place(rv["op"])
            if pl is not None and not pl["p"] and info.get(pl["l"], ("",))[0] in ("s", "i", "c"):
                info[l] = info[pl["l"]]
            c = op_const(rv["op"])
            if c is not None and "bytes" in c:
                info[l] = ("s", bytes(c["bytes"]))
        elif k == "discr":
            pl = rv["place"]
            if pl["p"] == ["*"] and info.get(pl["l"], ("",))[0] == "rt":
                if tok in (0, 1):
                    info[l] = ("i", tok)
            elif not pl["p"] or pl["p"] == ["*"]:
                v = info.get(pl["l"])
                if v is not None and v[0] == "t":
                    info[l] = ("i", v[1])
            elif is_token_value(pl) and tok in (0, 1):
                info[l] = ("i", tok)
        elif k == "binop":
            op = rv["op"]
            if op in ("Eq", "Ne", "Lt", "Le", "Gt", "Ge"):
                a, bb = rv["a"], rv["b"]
                ca, cb = op_const(a), op_const(bb)
                m = None
                if cb is not None and self._is_cur(info, a) and mir.const_int(cb) is not None:
                    m = self._cmp_mask(op, mir.const_int(cb))
                elif ca is not None and self._is_cur(info, bb) and mir.const_int(ca) is not None:
                    m = self._cmp_mask(G.SWAP[op], mir.const_int(ca))
                if m is not None:
                    info[l] = ("m", m)
                else:
                    va, vb = self._int_of(info, a), self._int_of(info, bb)
                    if va is not None and vb is not None:
                        r = {"Eq": va == vb, "Ne": va != vb, "Lt": va < vb, "Le": va <= vb, "Gt": va > vb, "Ge": va >= vb}[op]
                        info[l] = ("i", 1 if r else 0)
        elif k == "unop":
            if rv["op"] == "Not":
                pl = op_place(rv["a"])
                if pl is not None and not pl["p"]:
                    v = info.get(pl["l"])
                    if v is not None and v[0] == "m":
                        info[l] = ("m", ALL & ~v[1])
                    elif v is not None and v[0] == "i":
                        info[l] = ("i", 0 if v[1] else 1)
        elif k == "agg":
            if rv.get("ak") == "adt":
                adt = self.prog.adts.get(rv["adt"])
                if rv["adt"] in TOKENS:
                    shape = 2
                    for fname, o in zip(rv.get("fields", []), rv["ops"]):
                        if fname == "value":
                            pl = op_place(o)
                            if pl is not None and not pl["p"] and info.get(pl["l"], ("",))[0] == "t":
                                shape = info[pl["l"]][1]
                    info[l] = ("k", shape)
                else:
                    info[l] = ("t", rv["vidx"])
        return cur, eof, p, tok

    def _const_range(self, body, op, inclusive):
        """(lo, hi) inclusive bounds of a constant u8 range operand (promoted constant, named const, or literal aggregate)"""
        from vlib import fmtargs

        r = fmtargs.chase(body, op)
        if r is None:
            return None
        lo = hi = None
        if r[0] == "const" and "raw" in r[1] and "field_offsets" in r[1]:
            offs = dict((n, o) for n, o in r[1]["field_offsets"])
            if "start" in offs and "end" in offs:
                lo, hi = r[1]["raw"][offs["start"]], r[1]["raw"][offs["end"]]
        elif r[0] == "agg" and r[1].get("adt", "").split("::")[-1] in ("RangeInclusive", "Range"):
            vals = [G.describe(body, o) for o in r[1]["ops"][:2]]
            if all(v.kind == "const" for v in vals):
                lo, hi = vals[0].v, vals[1].v
        elif r[0] == "call" and strip_generics(mir.callee_name(r[1]) or "").endswith("RangeInclusive::new"):
            vals = [G.describe(body, o) for o in r[1]["args"][:2]]
            if all(v.kind == "const" for v in vals):
                lo, hi = vals[0].v, vals[1].v
        if lo is None:
            return None
        return (lo, hi) if inclusive else (lo, hi - 1)

    def _is_cur(self, info, op):
        pl = op_place(op)
        if pl is None:
            return False
        if pl["p"]:
            return is_scanner_field(pl, "cur") or (pl["p"] == ["*"] and info.get(pl["l"], ("",))[0] == "rc")
        return info.get(pl["l"], ("",))[0] == "c"

    def _int_of(self, info, op):
        c = op_const(op)
        if c is not None:
            return mir.const_int(c)
        pl = op_place(op)
        if pl is not None and not pl["p"]:
            v = info.get(pl["l"])
            if v is not None and v[0] == "i":
                return v[1]
        return None

    @staticmethod
    def _cmp_mask(op, c):
        m = 0
        for x in range(256):
            r = {"Eq": x == c, "Ne": x != c, "Lt": x < c, "Le": x <= c, "Gt": x > c, "Ge": x >= c}[op]
            if r:
                m |= 1 << x
        return m

    # -- switch
    def switch(self, body, t, cur, eof, p, tok, info):
        out = []
        targets = [(int(v), tb) for v, tb in t["targets"]]
        other = t["otherwise"]
        pl = op_place(t["op"])
        fi = lambda: info.frozen()
        pc = self._clamp(p)
        if pl is not None:
            v = info.get(pl["l"]) if not pl["p"] else None
            if v is not None and v[0] == "i":
                for val, tb in targets:
                    if val == v[1]:
                        return [(tb, (cur, eof, pc, tok, fi()))]
                return [(other, (cur, eof, pc, tok, fi()))]
            if v is not None and v[0] == "m" and t.get("ty") == "bool":
                m = v[1]
                for val, tb in targets:
                    c2 = cur & (m if val else ALL & ~m)
                    if c2:
                        out.append((tb, (c2, eof, pc, tok, fi())))
                vals = {val for val, _ in targets}
                rest = 0
                if 1 not in vals:
                    rest |= cur & m
                if 0 not in vals:
                    rest |= cur & ~m & ALL
                if rest:
                    out.append((other, (rest, eof, pc, tok, fi())))
                return out
            if self._is_cur(info, t["op"]):
                seen = 0
                for val, tb in targets:
                    if 0 <= val < 256:
                        seen |= 1 << val
                        if cur >> val & 1:
                            out.append((tb, (1 << val, eof, pc, tok, fi())))
                rest = cur & ~seen & ALL
                if rest:
                    out.append((other, (rest, eof, pc, tok, fi())))
                return out
            if pl["p"] and is_scanner_field(pl, "is_eof"):
                for val, tb in targets:
                    if val == eof:
                        return [(tb, (cur, eof, pc, tok, fi()))]
                return [(other, (cur, eof, pc, tok, fi()))]
        c = op_const(t["op"])
        if c is not None and mir.const_int(c) is not None:
            for val, tb in targets:
                if val == mir.const_int(c):
                    return [(tb, (cur, eof, pc, tok, fi()))]
            return [(other, (cur, eof, pc, tok, fi()))]
        succ = []
        for _v, tb in targets:
            if tb not in succ:
                succ.append(tb)
        if other not in succ:
            succ.append(other)
        return [(tb, (cur, eof, pc, tok, fi())) for tb in succ]

    # -- calls
    def call(self, body, b, t, cur, eof, p, tok, info):
        if "t" not in t:
            return []
        nxt = t["t"]
        dest = t["dest"]
        c = callee_of(t)
        res = (c.get("res") or c["fn"]) if c else None
        name = strip_generics(res) if res else None
        dl = dest["l"] if not dest["p"] else None
        if dl is not None:
            info.pop(dl, None)

        def done(cur=cur, eof=eof, p=p, tok=tok, dinfo=None, info=info):
            i2 = Info(info)
            if dl is not None and dinfo is not None:
                i2[dl] = dinfo
            return (nxt, (cur, eof, self._clamp(p), tok, i2.frozen()))

        if name is None:
            return [done()]
        args = t["args"]
        # ---- primitives and models of external functions
        if name == "std::io::Read::read_exact":
            return [done(p=p + 1, dinfo=("t", 0)), done(dinfo=("t", 1))]
        if name in ("std::vec::Vec::remove", "std::vec::Vec::push", "std::vec::Vec::pop", "std::vec::Vec::clear", "std::vec::Vec::insert") and args:
            r = repr(G.describe(body, args[0]))
            if ".next" in r and "Some" in r:
                if name.endswith("::remove") or name.endswith("::pop"):
                    return [done(p=p + 1)]
                if name.endswith("::push") or name.endswith("::insert"):
                    return [done(p=p - 1)]
                return [done(p=PMIN)]
            return [done()]
        if name == "<std::result::Result as std::ops::Try>::branch" or name == "<std::option::Option as std::ops::Try>::branch":
            pl = op_place(args[0])
            v = info.get(pl["l"]) if pl is not None and not pl["p"] else None
            if v is not None and v[0] == "t":
                if name.startswith("<std::result"):
                    return [done(dinfo=("t", v[1]))]  # Ok(0)->Continue(0), Err(1)->Break(1)
                return [done(dinfo=("t", 0 if v[1] == 1 else 1))]  # Some(1)->Continue(0), None(0)->Break(1)
            return [done()]
        if name.endswith("as std::ops::FromResidual>::from_residual"):
            dt = t.get("dest_ty", "")
            if dt.startswith("std::result::Result"):
                return [done(dinfo=("t", 1))]
            if dt.startswith("std::option::Option"):
                return [done(dinfo=("t", 0))]
            return [done()]
        if name in ("std::option::Option::is_none", "std::option::Option::is_some") and args:
            pl = op_place(args[0])
            if pl is not None and not pl["p"] and info.get(pl["l"], ("",))[0] == "rt" and tok in (0, 1):
                v = (tok == 0) if name.endswith("is_none") else (tok == 1)
                return [done(dinfo=("i", 1 if v else 0))]
            return [done()]
        if name == "std::io::Error::kind":
            return [done(dinfo=("ek", 0))]
        if name == "<std::io::ErrorKind as std::cmp::PartialEq>::eq" and len(args) == 2 and self.eof_only_errors:
            from vlib import fmtargs

            def is_kind(op):
                pl = op_place(op)
                return pl is not None and not pl["p"] and info.get(pl["l"], ("",))[0] == "ek"

            def is_eof_const(op):
                r = fmtargs.chase(body, op)
                return r is not None and r[0] == "agg" and r[1].get("variant") == "UnexpectedEof"

            if (is_kind(args[0]) and is_eof_const(args[1])) or (is_kind(args[1]) and is_eof_const(args[0])):
                return [done(dinfo=("i", 1))]
            return [done()]
        if name == "core::slice::<impl [T]>::contains" and len(args) == 2 and self.refers_cur(body, info, args[1]):
            bs = self.const_bytes(body, info, args[0])
            if bs is not None:
                m = mask_of(bs)
                out = []
                if cur & m:
                    out.append(done(cur=cur & m, dinfo=("i", 1)))
                if cur & ~m & ALL:
                    out.append(done(cur=cur & ~m & ALL, dinfo=("i", 0)))
                return out
            return [done()]
        if name in ("std::ops::RangeInclusive::contains", "std::ops::Range::contains", "core::ops::RangeInclusive::contains") and len(args) == 2 and self.refers_cur(body, info, args[1]):
            rg = self._const_range(body, args[0], inclusive="Inclusive" in name)
            if rg is not None:
                m = mask_range(rg[0], rg[1]) if rg[0] <= rg[1] else 0
                out = []
                if cur & m:
                    out.append(done(cur=cur & m, dinfo=("i", 1)))
                if cur & ~m & ALL:
                    out.append(done(cur=cur & ~m & ALL, dinfo=("i", 0)))
                return out
            return [done()]
        if name in U8_PREDS and args and self.refers_cur(body, info, args[0]):
            m = U8_PREDS[name]
            out = []
            if cur & m:
                out.append(done(cur=cur & m, dinfo=("i", 1)))
            if cur & ~m & ALL:
                out.append(done(cur=cur & ~m & ALL, dinfo=("i", 0)))
            return out
        if name in ("core::str::<impl str>::as_bytes", "std::string::String::as_bytes", "std::string::String::as_str", "<std::string::String as std::ops::Deref>::deref") and args:
            bs = self.const_bytes(body, info, args[0])
            return [done(dinfo=("s", bs) if bs is not None else None)]
        # ---- local callees: context-sensitive summary
        tg = None
        if res in self.prog.bodies:
            tg = res
        if tg is not None and tg in self.touch():
            cargs = []
            for i, a in enumerate(args):
                bs = self.const_bytes(body, info, a)
                if bs is not None and len(bs) <= 16:
                    cargs.append((i + 1, bs))
            summ = self.summary(tg, cur, eof, tok, tuple(cargs))
            self.trace.setdefault(tg, set()).add((cur, eof, tok))
            out = []
            callee_writes_cur = True
            for rtag, rint, rshape, c2, e2, dp, t2 in summ:
                i2 = Info(info)
                if c2 != cur or e2 != eof or dp != 0:
                    # scanner may have advanced: cached copies / predicates of cur are stale
                    self._kill_cur_facts(i2)
                dinfo = None
                if rtag is not None:
                    dinfo = ("t", rtag)
                elif rint is not None:
                    dinfo = ("i", rint)
                elif rshape is not None:
                    dinfo = ("k", rshape)
                tok2 = t2
                if dest["p"] and is_lexer_cur(dest):
                    tok2 = rshape if rshape is not None else 2
                out.append(done(cur=c2, eof=e2, p=p + dp, tok=tok2, dinfo=dinfo, info=i2))
            return out
        if tg is None and c is not None and not c.get("res"):
            # unresolved (trait-generic) call: if some candidate touches the scanner, be conservative
            cands, _ = self.prog.call_targets(body, t)
            if cands & self.touch():
                i2 = Info()
                return [(nxt, (ALL, e, PMIN, 2, i2.frozen())) for e in (0, 1)]
        return [done()]


# ====================================================================== loop rule


def header_of(body, scc):
    """entry block of an SCC: the member with a predecessor outside (first in RPO)"""
    rpo = {b: i for i, b in enumerate(body.rpo())}
    ents = [b for b in scc if any(p not in scc for p in body.pred(b))]
    if not ents:
        ents = list(scc)
    return min(ents, key=lambda b: rpo.get(b, 1 << 30))


def sub_sccs(body, scc, removed):
    """SCCs of the subgraph induced by scc - removed"""
    nodes = set(scc) - set(removed)
    index, low, onst, st, out = {}, {}, set(), [], []
    c = [0]
    for v0 in sorted(nodes):
        if v0 in index:
            continue
        work = [(v0, iter([x for x in body.succ(v0) if x in nodes]))]
        index[v0] = low[v0] = c[0]
        c[0] += 1
        st.append(v0)
        onst.add(v0)
        while work:
            node, it = work[-1]
            adv = False
            for w in it:
                if w not in index:
                    index[w] = low[w] = c[0]
                    c[0] += 1
                    st.append(w)
                    onst.add(w)
                    work.append((w, iter([x for x in body.succ(w) if x in nodes])))
                    adv = True
                    break
                elif w in onst:
                    low[node] = min(low[node], index[w])
            if not adv:
                work.pop()
                if work:
                    low[work[-1][0]] = min(low[work[-1][0]], low[node])
                if low[node] == index[node]:
                    comp = []
                    while True:
                        w = st.pop()
                        onst.discard(w)
                        comp.append(w)
                        if w == node:
                            break
                    if len(comp) > 1 or node in [x for x in body.succ(node) if x in nodes]:
                        out.append(frozenset(comp))
    return out


def measure_check(ai, body, scc, header):
    """every way around the loop strictly decreases (M, token rank).
    Returns list of offending (start state, returning state, last block)."""
    bad = []
    for eof in (0, 1):
        for tok in (0, 1):
            start = (ALL, eof, 0, tok, frozenset())
            # iterate until the summaries used inside the region are stable
            while True:
                v0 = ai.version
                n0 = len(ai.summaries)
                ai.stack.append(("region", body.id, header, eof, tok))
                try:
                    _outs, back = ai.run(body, header, start, region=scc, header=header)
                finally:
                    ai.stack.pop()
                ai.solve()
                if ai.version == v0 and len(ai.summaries) == n0:
                    break
            for st2, pred in back:
                c2, e2, p2, t2, _ = st2
                ok = p2 >= 1 or (p2 == 0 and tok == 1 and t2 == 0)
                if not ok:
                    bad.append((start, st2, pred))
    return bad


def byte_class(ai, fid):
    """exact set of byte values of Scanner.cur for which the predicate function returns true / false / unknown"""
    outs = ai.summary(fid, ALL, 0, 2, ())
    ai.solve()
    outs = ai.summary(fid, ALL, 0, 2, ())
    t = f = u = 0
    for rtag, rint, rshape, c, e, p, tk in outs:
        if rint == 1:
            t |= c
        elif rint == 0:
            f |= c
        else:
            u |= c
    return t, f, u
