"""Path conditions of small acyclic functions as truth tables.

enumerate(body, is_target) walks every path from the entry to a target block, carrying (a) the literals of the boolean
decisions taken - atoms are canonicalised condition terms - and (b) a tiny environment for bool locals assigned constants /
other conditions on the way (what `let both = a && b;` compiles to). implies(paths, spec) then checks, by enumerating all
truth assignments of the atoms, that every path's literals entail the specification. Rewrites by De Morgan, hoisting a
condition into a local, if/else <-> match and early returns all give the same table."""
import itertools
import re

from rules import guards as G
from vlib.mir import callee_name, const_int, op_const, op_place, strip_generics


def _canon(val):
    """(atom string, polarity) of a boolean Val, or (None, None)"""
    if val.kind == "unop" and val.v == "Not" and val.args:
        a, p = _canon(val.args[0])
        return a, (None if p is None else not p)
    if val.kind == "call":
        nm = val.v
        args = [repr(a) for a in val.args]
        if re.search(r"PartialEq(<[^>]*>)?>::ne$|PartialEq::ne$", nm) or nm.endswith("::ne"):
            return "eq(%s)" % ", ".join(sorted(args)), False
        if re.search(r"PartialEq(<[^>]*>)?>::eq$|PartialEq::eq$", nm) or nm.endswith("::eq"):
            return "eq(%s)" % ", ".join(sorted(args)), True
        if nm.endswith("Option::is_none"):
            return "some(%s)" % args[0], False
        if nm.endswith("Option::is_some"):
            return "some(%s)" % args[0], True
        return "%s(%s)" % (nm.split("::")[-1], ", ".join(args)), True
    if val.kind == "binop" and val.v in ("Eq", "Ne") and len(val.args) == 2:
        args = sorted(repr(a) for a in val.args)
        return "eq(%s)" % ", ".join(args), val.v == "Eq"
    if val.kind == "binop" and val.v in ("Lt", "Le", "Gt", "Ge") and len(val.args) == 2:
        a, b = repr(val.args[0]), repr(val.args[1])
        # one atom per ordered pair: less(a, b); a >= b is its negation, a > b is less(b, a), a <= b the negation of that
        if val.v == "Lt":
            return "less(%s, %s)" % (a, b), True
        if val.v == "Ge":
            return "less(%s, %s)" % (a, b), False
        if val.v == "Gt":
            return "less(%s, %s)" % (b, a), True
        return "less(%s, %s)" % (b, a), False
    if val.kind == "place":
        return "place(%s)" % val.v, True
    return None, None


def enumerate_paths(body, is_target, limit=4000):
    """[(target block, frozenset of (atom, truth))] for every entry -> target path (loops are not followed twice)"""
    out = []
    count = [0]

    def step(b, env, lits, seen):
        count[0] += 1
        if count[0] > limit or b in seen:
            return
        blk = body.blocks[b]
        env = dict(env)
        for st in blk["stmts"]:
            if st["k"] == "assign" and not st["lhs"]["p"] and st["rv"]["k"] == "use" and body.local_ty(st["lhs"]["l"]) != "bool":
                # which parameter (or field of one) a multiply-assigned local holds on this path: `let x = if c { a } else { b };`
                pl = op_place(st["rv"]["op"])
                if pl is not None:
                    src = ("val:%d" % pl["l"]) if (not pl["p"] and ("val:%d" % pl["l"]) in env) else None
                    if src is not None:
                        env["val:%d" % st["lhs"]["l"]] = env[src]
                    else:
                        root = body.root_place(pl) if hasattr(body, "root_place") else pl
                        if 0 < root["l"] <= body.arg_count:
                            env["val:%d" % st["lhs"]["l"]] = repr(G.describe(body, st["rv"]["op"]))
            if st["k"] == "assign" and not st["lhs"]["p"]:
                # the variant a local holds on this path (`let x = if c { Some(a) } else { None };` then `match x`)
                rv0 = st["rv"]
                if rv0["k"] == "agg" and rv0.get("ak") == "adt" and isinstance(rv0.get("vidx"), int):
                    env["disc:%d" % st["lhs"]["l"]] = rv0["vidx"]
                elif rv0["k"] == "use":
                    plx = op_place(rv0["op"])
                    if plx is not None and not plx["p"] and ("disc:%d" % plx["l"]) in env:
                        env["disc:%d" % st["lhs"]["l"]] = env["disc:%d" % plx["l"]]
                    else:
                        env.pop("disc:%d" % st["lhs"]["l"], None)
                else:
                    env.pop("disc:%d" % st["lhs"]["l"], None)
            if st["k"] == "assign" and not st["lhs"]["p"] and body.local_ty(st["lhs"]["l"]) == "bool":
                rv = st["rv"]
                l = st["lhs"]["l"]
                if rv["k"] == "use":
                    c = op_const(rv["op"])
                    if c is not None and const_int(c) is not None:
                        env[l] = ("const", bool(const_int(c)))
                        continue
                    pl = op_place(rv["op"])
                    if pl is not None and not pl["p"] and pl["l"] in env:
                        env[l] = env[pl["l"]]
                        continue
                    a, p = _canon(G.describe(body, rv["op"]))
                    env[l] = ("lit", a, p) if a is not None else None
                elif rv["k"] in ("binop", "unop"):
                    a, p = _canon(G.describe_place(body, {"l": l, "p": []})) if body.single_def(l) else (None, None)
                    env[l] = ("lit", a, p) if a is not None else None
                else:
                    env[l] = None
        if is_target(b):
            out.append((b, frozenset(lits), env.get(0), {int(k[4:]): v for k, v in env.items() if isinstance(k, str) and k.startswith("val:")}))
            return
        t = blk["term"]
        if t["k"] == "call" and not t["dest"]["p"] and body.local_ty(t["dest"]["l"]) == "bool":
            a, p = _canon(G.describe_place(body, t["dest"]) if body.single_def(t["dest"]["l"]) else G.Val("unknown", "?"))
            if a is None:
                nm = strip_generics(callee_name(t) or "?")
                a, p = _canon(G.Val("call", nm, [G.describe(body, x) for x in t["args"]]))
            env[t["dest"]["l"]] = ("lit", a, p) if a is not None else None
            # `x.is_some()` / `x.is_none()` on a value whose variant is known on this path
            nm0 = strip_generics(callee_name(t) or "?")
            if nm0.endswith(("Option::is_some", "Option::is_none")) and t["args"]:
                ap0 = op_place(t["args"][0])
                if ap0 is not None and not ap0["p"]:
                    src0 = ap0["l"]
                    sd0 = body.single_def(src0)
                    if sd0 and sd0[1] != "term" and sd0[2]["k"] in ("ref", "rawptr") and not sd0[2]["place"]["p"]:
                        src0 = sd0[2]["place"]["l"]
                    kd0 = env.get("disc:%d" % src0)
                    if kd0 is not None:
                        env[t["dest"]["l"]] = ("const", (kd0 == 1) == nm0.endswith("is_some"))
        if t["k"] == "call" and not t["dest"]["p"]:
            # `?` on a value whose variant is known on this path: Ok / Some continue, Err / None break
            nm = strip_generics(callee_name(t) or "?")
            dk = "disc:%d" % t["dest"]["l"]
            env.pop(dk, None)
            if nm.endswith("Try>::branch") and t["args"]:
                ap = op_place(t["args"][0])
                kd = env.get("disc:%d" % ap["l"]) if ap is not None and not ap["p"] else None
                if kd is not None:
                    if "result::Result" in nm:
                        env[dk] = kd  # Ok(0) -> Continue(0), Err(1) -> Break(1)
                    elif "option::Option" in nm:
                        env[dk] = 1 - kd  # None(0) -> Break(1), Some(1) -> Continue(0)
        if t["k"] != "switch":
            for y in body.succ(b):
                step(y, env, lits, seen | {b})
            return
        targets = [(int(v), tb) for v, tb in t["targets"]]
        other = t["otherwise"]
        pl = op_place(t["op"])
        known = env.get(pl["l"]) if pl is not None and not pl["p"] else None
        if t.get("ty") == "bool":
            if known and known[0] == "const":
                val = 1 if known[1] else 0
                nxt = next((tb for v, tb in targets if v == val), other)
                step(nxt, env, lits, seen | {b})
                return
            if known and known[0] == "lit":
                a, p = known[1], known[2]
            else:
                a, p = _canon(G.describe(body, t["op"]))
            for v, tb in targets + [(None, other)]:
                truth = (v != 0) if v is not None else (targets[0][0] == 0)
                if a is None:
                    step(tb, env, lits, seen | {b})
                else:
                    step(tb, env, lits | {(a, truth if p else (not truth))}, seen | {b})
            return
        # discriminant / integer switch: atoms `is(<value>, k)`; Option's discriminant is folded into some(..)
        d = G.describe(body, t["op"])
        base = repr(d.args[0]) if d.kind == "discr" and d.args else repr(d)
        is_opt = False
        if pl is not None and not pl["p"]:
            sd = body.single_def(pl["l"])
            if sd and sd[1] != "term" and sd[2]["k"] == "discr" and str(sd[2].get("adt", "")).endswith("option::Option"):
                is_opt = True
        vals = [v for v, _ in targets]
        # a discriminant whose value is known on this path
        known_d = None
        if pl is not None and not pl["p"]:
            sd2 = body.single_def(pl["l"])
            if sd2 and sd2[1] != "term" and sd2[2]["k"] == "discr" and not sd2[2]["place"]["p"]:
                known_d = env.get("disc:%d" % sd2[2]["place"]["l"])
        if known_d is not None:
            nxt = next((tb for v, tb in targets if v == known_d), other)
            step(nxt, env, lits, seen | {b})
            return
        for v, tb in targets:
            lit = ("some(%s)" % base, v == 1) if is_opt else ("is(%s,%d)" % (base, v), True)
            step(tb, env, lits | {lit}, seen | {b})
        if is_opt and len(vals) == 1:
            step(other, env, lits | {("some(%s)" % base, vals[0] != 1)}, seen | {b})
        else:
            step(other, env, lits | {("is(%s,%d)" % (base, v), False) for v in vals}, seen | {b})

    step(0, {}, frozenset(), frozenset())
    return out


def atoms_of(paths):
    return sorted({a for p in paths for a, _t in p[1]})


def bool_outcomes(paths):
    """split the paths of a bool-returning body (targets = return blocks) into (paths where it returns true, paths where false);
    a returned condition becomes one more literal"""
    pos, neg = [], []
    for pth in paths:
        b, lits, r0 = pth[0], pth[1], pth[2]
        if r0 is None:
            pos.append((b, lits, None))
            neg.append((b, lits, None))
        elif r0[0] == "const":
            (pos if r0[1] else neg).append((b, lits, None))
        else:
            a, p = r0[1], r0[2]
            pos.append((b, lits | {(a, bool(p))}, None))
            neg.append((b, lits | {(a, not p)}, None))
    return pos, neg


def entails(paths, spec, atoms=None):
    """every path's literals entail spec(assignment): returns (ok, counterexample assignment or None)"""
    atoms = atoms or atoms_of(paths)
    for pth in paths:
        lits = pth[1]
        fixed = dict(lits)
        if any((a, True) in lits and (a, False) in lits for a in fixed):
            continue  # infeasible path
        free = [a for a in atoms if a not in fixed]
        for bits in itertools.product((False, True), repeat=len(free)):
            asg = dict(fixed)
            asg.update(zip(free, bits))
            if not spec(asg):
                return False, asg
    return True, None
