"""Branch conditions that hold on entry to a block (edge dominance), and value provenance."""
from vlib.mir import callee_of, const_int, op_const, op_place, place_str, strip_generics

NEG = {"Lt": "Ge", "Le": "Gt", "Gt": "Le", "Ge": "Lt", "Eq": "Ne", "Ne": "Eq"}
SWAP = {"Lt": "Gt", "Le": "Ge", "Gt": "Lt", "Ge": "Le", "Eq": "Eq", "Ne": "Ne"}


class Val:
    """symbolic description of an operand: const int / len-of(place) / call(f,args) / place"""

    __slots__ = ("kind", "v", "args")

    def __init__(self, kind, v, args=None):
        self.kind = kind
        self.v = v
        self.args = args or []

    def __repr__(self):
        if self.kind == "const":
            return "const %s" % self.v
        if self.kind == "place":
            return self.v
        if self.kind == "call":
            return "%s(%s)" % (self.v, ", ".join(map(repr, self.args)))
        if self.kind in ("discr", "agg", "binop", "unop"):
            return "%s:%s(%s)" % (self.kind, self.v, ", ".join(map(repr, self.args)))
        return "%s:%s" % (self.kind, self.v)

    def same(self, o):
        return repr(self) == repr(o)


PASS_THROUGH = (
    "<std::vec::Vec as std::ops::Deref>::deref",
    "<std::vec::Vec as std::ops::DerefMut>::deref_mut",
    "<std::string::String as std::ops::Deref>::deref",
    "<std::boxed::Box as std::convert::AsRef>::as_ref",
    "<std::borrow::Cow as std::ops::Deref>::deref",
    "std::string::String::as_str",
    "std::string::String::as_bytes",
    "core::str::<impl str>::as_bytes",
    "std::vec::Vec::as_slice",
)


PROGRAM = None  # set by vlib.mir.Program so that closure bodies can be looked up by id


def _beta_reduce(body, t, depth):
    if PROGRAM is None or depth <= 0:
        return None
    f = t.get("func")
    pl = op_place(f) if isinstance(f, dict) else None
    hops = 0
    clo = None
    while pl is not None and hops < 8:
        hops += 1
        sd = body.single_def(pl["l"]) if not pl["p"] or pl["p"] == ["*"] else None
        if sd is None or sd[1] == "term":
            return None
        rv = sd[2]
        if rv["k"] == "agg" and rv.get("ak") == "closure":
            clo = rv.get("closure")
            break
        if rv["k"] in ("use", "cast"):
            pl = op_place(rv["op"])
        elif rv["k"] in ("ref", "rawptr"):
            pl = rv["place"]
        else:
            return None
    cb = PROGRAM.bodies.get(clo) if clo else None
    if cb is None or len(t["args"]) != cb.arg_count - 1:
        return None
    r = describe_place(cb, {"l": 0, "p": []}, 6)
    args = [describe(body, a, depth - 1) for a in t["args"]]

    def subst(v):
        if v.kind == "place":
            m = __import__("re").fullmatch(r"_(\d+)", v.v)
            if m and 2 <= int(m.group(1)) <= cb.arg_count:
                return args[int(m.group(1)) - 2]
            return None
        if v.kind == "const":
            return v
        if v.kind in ("binop", "unop"):
            sub = [subst(a) for a in v.args]
            return None if any(x is None for x in sub) else Val(v.kind, v.v, sub)
        return None

    return subst(r)



def describe(body, op, depth=30):
    """symbolic value of an operand, chasing single-def temporaries"""
    c = op_const(op)
    if c is not None:
        if "promoted" in c:
            pb = body.promoted[c["promoted"]] if c["promoted"] < len(body.promoted) else None
            if pb is not None:
                # promoted body: _0 = &<const or aggregate>
                for blk in pb.blocks:
                    for s in blk["stmts"]:
                        if s["k"] == "assign" and s["rv"]["k"] == "use":
                            cc = op_const(s["rv"]["op"])
                            if cc is not None and ("str" in cc or "bytes" in cc):
                                return Val("conststr", cc.get("str", bytes(cc["bytes"]).decode("latin1")))
                # &RANGE_CONST with a small memory-backed range of bytes (`const DIGITS: RangeInclusive<u8> = b'0'..=b'9'`)
                for blk in pb.blocks:
                    for s in blk["stmts"]:
                        if s["k"] == "assign" and s["rv"]["k"] == "use":
                            cc = op_const(s["rv"]["op"])
                            if cc is not None and "raw" in cc and "field_offsets" in cc and "Range" in str(cc.get("ty", "")) and "u8" in str(cc.get("ty", "")):
                                offs = dict((n_, o_) for n_, o_ in cc["field_offsets"])
                                if "start" in offs and "end" in offs and max(offs["start"], offs["end"]) < len(cc["raw"]):
                                    kind_ = "RangeInclusive" if "RangeInclusive" in str(cc["ty"]) else "Range"
                                    return Val("agg", kind_, [Val("const", cc["raw"][offs["start"]]), Val("const", cc["raw"][offs["end"]])])
                # a promoted constant value such as &Some(b'='): describe what the promoted body builds
                try:
                    pv = describe_place(pb, {"l": 0, "p": []}, depth - 1)
                    if pv.kind in ("agg", "const", "conststr") or (pv.kind == "call" and str(pv.v).endswith("RangeInclusive::new") and all(a.kind == "const" for a in pv.args)):
                        return pv
                except Exception:
                    pass
            return Val("promoted", str(c["promoted"]))
        if "str" in c:
            return Val("conststr", c["str"])
        if "bytes" in c:
            return Val("conststr", bytes(c["bytes"]).decode("latin1"))
        if "fn" in c:
            return Val("fn", strip_generics(c.get("res") or c["fn"]))
        i = const_int(c)
        if i is not None:
            return Val("const", i)
        return Val("constother", c.get("ty", "?"))
    pl = op_place(op)
    return describe_place(body, pl, depth)


def describe_place(body, pl, depth=30):
    if pl is None:
        return Val("unknown", "?")
    if depth <= 0:
        return Val("place", place_str(pl))
    if not pl["p"] or pl["p"] == ["*"]:
        l = pl["l"]
        if l > body.arg_count or l == 0:
            sd = body.single_def(l)
            if sd is not None:
                if sd[1] == "term":
                    t = sd[2]
                    c = callee_of(t)
                    if c is not None:
                        name = strip_generics(c.get("res") or c["fn"])
                        args = [describe(body, a, depth - 1) for a in t["args"]]
                        if name in PASS_THROUGH and args:
                            return args[0]
                        return Val("call", name, args)
                    # a call through a local: when the local is a closure (possibly coerced to a fn pointer) whose body is one
                    # arithmetic / comparison operation on its parameters, it is that operation on the arguments
                    red = _beta_reduce(body, t, depth)
                    if red is not None:
                        return red
                    return Val("call", "<indirect>")
                rv = sd[2]
                if rv["k"] == "use":
                    return describe(body, rv["op"], depth - 1)
                if rv["k"] in ("ref", "rawptr"):
                    inner = describe_place(body, rv["place"], depth - 1)
                    return inner
                if rv["k"] == "cast":
                    return describe(body, rv["op"], depth - 1)
                if rv["k"] == "binop":
                    return Val("binop", rv["op"], [describe(body, rv["a"], depth - 1), describe(body, rv["b"], depth - 1)])
                if rv["k"] == "unop":
                    if rv["op"] == "PtrMetadata":
                        return Val("call", "len", [describe(body, rv["a"], depth - 1)])
                    return Val("unop", rv["op"], [describe(body, rv["a"], depth - 1)])
                if rv["k"] == "agg":
                    return Val("agg", rv.get("variant") or rv.get("ak"), [describe(body, o, depth - 1) for o in rv["ops"]])
                if rv["k"] == "discr":
                    return Val("discr", "", [describe_place(body, rv["place"], depth - 1)])
    # result half of an overflow-checked arithmetic pair: (_t.0) with _t = AddWithOverflow(a, b)
    if len(pl["p"]) == 1 and isinstance(pl["p"][0], dict) and pl["p"][0].get("f") == 0 and (pl["l"] > body.arg_count or pl["l"] == 0):
        sd = body.single_def(pl["l"])
        if sd is not None and sd[1] != "term" and sd[2]["k"] == "binop" and sd[2]["op"].endswith("WithOverflow"):
            return Val("binop", sd[2]["op"].replace("WithOverflow", ""), [describe(body, sd[2]["a"], depth - 1), describe(body, sd[2]["b"], depth - 1)])
    # field of a freshly built tuple / struct aggregate: look through to the operand
    if len(pl["p"]) == 1 and isinstance(pl["p"][0], dict) and "f" in pl["p"][0] and (pl["l"] > body.arg_count or pl["l"] == 0):
        sd = body.single_def(pl["l"])
        if sd is not None and sd[1] != "term" and sd[2]["k"] == "agg" and sd[2].get("ak") in ("tuple", "adt", "closure"):
            idx = pl["p"][0]["f"]
            if idx < len(sd[2]["ops"]):
                return describe(body, sd[2]["ops"][idx], depth - 1)
    # a longer path that starts at a field of a freshly built tuple: continue from the operand stored in that field
    # (`let (Some(a), Some(b)) = (x.f, y.g)` reads `(_t.0 as Some).0`, which is `(x.f as Some).0`)
    if len(pl["p"]) > 1 and isinstance(pl["p"][0], dict) and "f" in pl["p"][0] and (pl["l"] > body.arg_count or pl["l"] == 0):
        sd = body.single_def(pl["l"])
        if sd is not None and sd[1] != "term" and sd[2]["k"] == "agg" and sd[2].get("ak") == "tuple":
            idx = pl["p"][0]["f"]
            if idx < len(sd[2]["ops"]):
                inner = op_place(sd[2]["ops"][idx])
                if inner is not None:
                    return describe_place(body, {"l": inner["l"], "p": list(inner["p"]) + list(pl["p"][1:])}, depth - 1)
    rp = body.root_place(pl)
    return Val("place", place_str(rp))


class Cond:
    """relation op(a, b) or boolean call; `holds` tells polarity"""

    __slots__ = ("op", "a", "b", "block")

    def __init__(self, op, a, b, block):
        self.op = op
        self.a = a
        self.b = b
        self.block = block

    def __repr__(self):
        return "%s %s %s" % (self.a, self.op, self.b)


def switch_conditions(body, bi):
    """for a switch block: {target block: [Cond,...]} describing what holds on that edge"""
    t = body.term(bi)
    if t["k"] != "switch":
        return {}
    out = {}
    v = describe(body, t["op"])
    ty = t.get("ty")
    targets = [(int(x[0]), x[1]) for x in t["targets"]]
    other = t["otherwise"]

    def add(tb, cond):
        out.setdefault(tb, []).append(cond)

    if ty == "bool":
        # value 0 -> false edge; otherwise -> true edge
        for val, tb in targets:
            for c in bool_conds(v, val != 0, bi):
                add(tb, c)
        if len(targets) == 1:
            for c in bool_conds(v, targets[0][0] == 0, bi):
                add(other, c)
    else:
        for val, tb in targets:
            add(tb, Cond("Eq", v, Val("const", val), bi))
        vals = [x for x, _ in targets]
        for x in vals:
            add(other, Cond("Ne", v, Val("const", x), bi))
    # an edge target shared by several values carries no single condition
    arrivals = {}
    for _val, tb in targets + [(None, other)]:
        arrivals[tb] = arrivals.get(tb, 0) + 1
    for tb in list(out):
        if arrivals.get(tb, 0) > 1:
            del out[tb]
    return out


def bool_conds(v, truth, bi):
    """conditions implied by boolean value `v` being `truth`"""
    if v.kind == "binop" and v.v in NEG:
        op = v.v if truth else NEG[v.v]
        return [Cond(op, v.args[0], v.args[1], bi)]
    if v.kind == "unop" and v.v == "Not":
        return bool_conds(v.args[0], not truth, bi)
    if v.kind == "call":
        return [Cond("True" if truth else "False", v, None, bi)]
    if v.kind == "binop" and v.v in ("BitAnd", "BitOr"):
        if (v.v == "BitAnd" and truth) or (v.v == "BitOr" and not truth):
            return bool_conds(v.args[0], truth, bi) + bool_conds(v.args[1], truth, bi)
    return [Cond("True" if truth else "False", v, None, bi)]


def guards_at(body, block):
    """conditions known to hold whenever `block` is entered: for every switch edge (B -> T) such that
    T has B as its only predecessor and T dominates `block`"""
    out = []
    idom = body.idom()
    if block not in idom:
        return out
    b = block
    chain = []
    while True:
        chain.append(b)
        if b == 0:
            break
        b = idom[b]
    for tb in chain:
        preds = body.pred(tb)
        if len(preds) != 1:
            continue
        p = preds[0]
        if body.term(p)["k"] != "switch":
            continue
        conds = switch_conditions(body, p).get(tb, [])
        out.extend(conds)
    return out


def blocks_between(body, a, s):
    """blocks on some path a ->* s (inclusive)"""
    fwd = body.reachable(a)
    # backward reachability from s
    back = {s}
    st = [s]
    while st:
        x = st.pop()
        for p in body.pred(x):
            if p not in back:
                back.add(p)
                st.append(p)
    return fwd & back


# ---------------------------------------------------------------------- exact byte sets of a branch condition on one byte variable
def _eval(val, var, v, preds):
    """value of symbolic `val` when the place `var` (repr) holds byte v; None if it depends on anything else"""
    if repr(val) == var:
        return v
    if val.kind == "const":
        return val.v
    if val.kind == "place":
        return None
    if val.kind == "binop":
        a = _eval(val.args[0], var, v, preds)
        b = _eval(val.args[1], var, v, preds)
        if a is None or b is None:
            return None
        op = val.v
        return {"Eq": a == b, "Ne": a != b, "Lt": a < b, "Le": a <= b, "Gt": a > b, "Ge": a >= b, "BitAnd": a & b, "BitOr": a | b, "BitXor": a ^ b,
                "Add": a + b, "Sub": a - b}.get(op)
    if val.kind == "unop" and val.v == "Not":
        a = _eval(val.args[0], var, v, preds)
        return None if a is None else (not a)
    if val.kind == "call" and val.v in preds and val.args:
        a = _eval(val.args[0], var, v, preds)
        return None if a is None else bool(preds[val.v] >> a & 1)
    if val.kind == "call" and str(val.v).split("::")[-1] == "contains" and ("RangeInclusive" in str(val.v) or "ops::Range" in str(val.v) or "range::Range" in str(val.v)) and len(val.args) == 2:
        # `(lo..=hi).contains(&x)` / `(lo..hi).contains(&x)` with constant bounds
        r, x = val.args
        xv = _eval(x, var, v, preds)
        if xv is not None and r.kind == "call" and str(r.v).endswith("RangeInclusive::new") and len(r.args) == 2:
            lo, hi = _eval(r.args[0], var, v, preds), _eval(r.args[1], var, v, preds)
            if lo is not None and hi is not None:
                return lo <= xv <= hi
        if xv is not None and r.kind == "agg" and str(r.v) in ("RangeInclusive", "Range") and len(r.args) >= 2:
            lo, hi = _eval(r.args[0], var, v, preds), _eval(r.args[1], var, v, preds)
            if lo is not None and hi is not None:
                return (lo <= xv <= hi) if str(r.v) == "RangeInclusive" else (lo <= xv < hi)
    return None


def byte_set_reaching(body, var, start, targets, preds, values=None, through_calls=False):
    """(must, may): byte values of `var` for which control from block `start` certainly / possibly reaches one of `targets`,
    following switch terminators whose condition depends only on `var` (others are explored both ways)"""
    must = may = 0
    tset = set(targets)
    if values is not None:
        must, may = set(), set()
    for v in (values if values is not None else range(256)):
        seen = set()
        st = [(start, True, ())]
        reach_all = True
        reach_any = False
        leaves = 0
        while st:
            b, exact, envt = st.pop()
            if b in tset:
                reach_any = True
                leaves += 1
                continue
            if (b, exact, envt) in seen:
                continue
            seen.add((b, exact, envt))
            # flags set on the way (`matches!(x, ..)` compiles to a bool local assigned true / false in the arms)
            env = dict(envt)
            for stt in body.blocks[b]["stmts"]:
                if stt["k"] == "assign" and not stt["lhs"]["p"] and stt["rv"]["k"] == "use":
                    cc = op_const(stt["rv"]["op"])
                    ci = const_int(cc) if cc is not None else None
                    if ci is not None:
                        env[stt["lhs"]["l"]] = ci
                    else:
                        env.pop(stt["lhs"]["l"], None)
            envt = tuple(sorted(env.items()))
            t = body.term(b)
            if t["k"] == "switch":
                plx = op_place(t["op"])
                if plx is not None and not plx["p"] and plx["l"] in env:
                    c = env[plx["l"]]
                else:
                    c = _eval(describe(body, t["op"]), var, v, preds)
                if c is None:
                    for x in set([tb for _, tb in t["targets"]] + [t["otherwise"]]):
                        st.append((x, False, envt))
                    continue
                c = int(c)
                nxt = t["otherwise"]
                for val, tb in t["targets"]:
                    if int(val) == c:
                        nxt = tb
                st.append((nxt, exact, envt))
            else:
                succ = body.succ(b)
                if not succ:
                    reach_all = False
                    leaves += 1
                # do not walk past the join: stop at blocks that leave the decision region (calls other than pure u8 predicates)
                if t["k"] == "call":
                    from vlib.mir import callee_name, strip_generics
                    nm = strip_generics(callee_name(t) or "")
                    if nm not in preds and not through_calls:
                        reach_all = False
                        leaves += 1
                        continue
                for x in succ:
                    st.append((x, exact, envt))
        if reach_any:
            if values is not None:
                may.add(v)
                if reach_all:
                    must.add(v)
            else:
                may |= 1 << v
                if reach_all:
                    must |= 1 << v
    return must, may


def calls_along_path(body, var, start, v, preds, stop, limit=80):
    """names of the calls executed from block `start` when the byte variable `var` holds v, following the branches that depend on
    `var` (and on flags set on the way) until a call in `stop` is reached; None if a branch on anything else is met"""
    from vlib.mir import callee_name, strip_generics

    out = []
    b = start
    env = {}
    n = 0
    while n < limit:
        n += 1
        for stt in body.blocks[b]["stmts"]:
            if stt["k"] == "assign" and not stt["lhs"]["p"] and stt["rv"]["k"] == "use":
                cc = op_const(stt["rv"]["op"])
                ci = const_int(cc) if cc is not None else None
                if ci is not None:
                    env[stt["lhs"]["l"]] = ci
                else:
                    env.pop(stt["lhs"]["l"], None)
        t = body.term(b)
        if t["k"] == "switch":
            plx = op_place(t["op"])
            if plx is not None and not plx["p"] and plx["l"] in env:
                c = env[plx["l"]]
            else:
                d = describe(body, t["op"])
                c = _eval(d, var, v, preds)
                if c is None and d.kind == "discr" and "Try>::branch" in repr(d):
                    c = 0  # the success edge of a `?`
            if c is None:
                return None
            c = int(c)
            b = next((tb for val, tb in t["targets"] if int(val) == c), t["otherwise"])
            continue
        if t["k"] == "call":
            nm = strip_generics(callee_name(t) or "?")
            out.append(nm)
            if nm.split("::")[-1] in stop:
                return out
        if t["k"] in ("return", "resume", "unreachable"):
            return out
        nx = body.succ(b)
        if len(nx) != 1:
            return None if not nx else out
        b = nx[0]
    return None



def expand_locals(body, text, rounds=3):
    """a description that stops at a local holding the result of a call (`_N as Continue.0`): say what the local holds"""
    import re as _re

    for _i in range(rounds):
        mm = _re.search(r"\b_(\d+)\b(?= as )", text)
        if not mm or int(mm.group(1)) <= body.arg_count:
            break
        text = text[: mm.start()] + repr(describe_place(body, {"l": int(mm.group(1)), "p": []})) + text[mm.end():]
    return text



def upper_bound(gs, val):
    """smallest inclusive upper bound of `val` established by the dominating guards `gs` (x <= K, x < K, K >= x, x == K,
    `(lo..=hi).contains(&x)`), or None"""
    best = None

    def take(k):
        nonlocal best
        if k is not None and (best is None or k < best):
            best = k

    for g in gs:
        if g.a is None:
            continue
        if g.b is not None:
            if g.op in ("Le", "Lt") and g.b.kind == "const" and g.a.same(val):
                take(g.b.v - (1 if g.op == "Lt" else 0))
            elif g.op in ("Ge", "Gt") and g.a.kind == "const" and g.b.same(val):
                take(g.a.v - (1 if g.op == "Gt" else 0))
            elif g.op == "Eq" and g.b.kind == "const" and g.a.same(val):
                take(g.b.v)
        elif g.op == "True" and g.a.kind == "call" and str(g.a.v).split("::")[-1] == "contains" and "Range" in str(g.a.v) and len(g.a.args) == 2 and g.a.args[1].same(val):
            r = g.a.args[0]
            if r.kind in ("call", "agg") and len(r.args) >= 2 and all(x.kind == "const" for x in r.args[:2]):
                take(r.args[1].v - (0 if "Inclusive" in str(r.v) else 1))
    return best
