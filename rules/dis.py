"""C20: display-name precedence and the disMacro regular expression."""
import re

from rules import guards as G
from rules.panic import rx
from vlib import mir
from vlib.mir import callee_of, op_place, strip_generics

ORDER = ["dis", "disMacro", "disKey", "name", "def", "tag", "navName", "id"]
GET_FNS = ("std::collections::BTreeMap::get", "std::collections::HashMap::get", "<haystack::val::dict::Dict as haystack::val::dict::HaystackDict>::get")


def lookups(body):
    """{block: (key, result local)} for map lookups with a constant string key"""
    out = {}
    for bi, t in body.calls():
        nm = strip_generics(mir.callee_name(t) or "")
        if nm in GET_FNS and len(t["args"]) == 2:
            k = G.describe(body, t["args"][1])
            if k.kind == "conststr" and not t["dest"]["p"]:
                out[bi] = (k.v, t["dest"]["l"])
    return out


def miss_path(body):
    """follow the path on which every constant-key lookup misses: [(key, lookup block, hit-edge target)]"""
    lk = lookups(body)
    seq = []
    b = 0
    seen = set()
    pending = None
    flags = {}
    while b not in seen:
        seen.add(b)
        t = body.term(b)
        # drop flags and other bool locals set to constants on the way
        for stt in body.blocks[b]["stmts"]:
            if stt["k"] == "assign" and not stt["lhs"]["p"] and stt["rv"]["k"] == "use":
                cc = mir.op_const(stt["rv"]["op"])
                ci = mir.const_int(cc) if cc is not None else None
                if ci is not None:
                    flags[stt["lhs"]["l"]] = ci
                else:
                    flags.pop(stt["lhs"]["l"], None)
        if b in lk:
            pending = (lk[b][0], b, lk[b][1])
        k = t["k"]
        if k == "call" and strip_generics(mir.callee_name(t) or "").endswith("Iterator>::next"):
            # `for key in ["a", "b", ..] { if let Some(v) = dict.get(key) { return .. } }`: the same sequence of lookups, spelled as a loop
            keys = _const_array_of_iterator(body, t["args"][0])
            loop = _loop_lookup(body, b, t)
            if keys and loop:
                look_block, hit_edge, exit_edge = loop
                for kk in keys:
                    seq.append((kk, look_block, hit_edge))
                b = exit_edge
                pending = None
                continue
        if k in ("goto", "call", "drop", "assert"):
            if "t" not in t:
                break
            b = t["t"]
            continue
        if k == "switch":
            plf = op_place(t["op"])
            if plf is not None and not plf["p"] and plf["l"] in flags:
                val = flags[plf["l"]]
                b = next((tb for x, tb in t["targets"] if int(x) == val), t["otherwise"])
                continue
            v = G.describe(body, t["op"])
            if pending and v.kind == "discr":
                pl = op_place(t["op"])
                sd = body.single_def(pl["l"])
                src = sd[2]["place"]["l"] if sd and sd[1] != "term" and sd[2]["k"] == "discr" else None
                if src == pending[2]:
                    vals = {int(x[0]): x[1] for x in t["targets"]}
                    none_edge = vals.get(0, t["otherwise"] if 1 in vals else None)
                    some_edge = vals.get(1, t["otherwise"] if 0 in vals else None)
                    if none_edge is None or some_edge is None:
                        return seq, "switch on lookup %r has no None/Some split" % pending[0]
                    seq.append((pending[0], pending[1], some_edge))
                    pending = None
                    b = none_edge
                    continue
            # a branch after the last display tag has been consulted (choosing the default text) ends the walk
            if not any(x in lk for x in body.reachable(b)):
                break
            return seq, "unexpected branch at bb%d on the all-miss path (%r)" % (b, v)
        break
    return seq, None


def _const_array_of_iterator(body, op):
    """constant strings of the array an `array::IntoIter` / slice iterator walks, in order (None if not a constant array)"""
    v = G.describe(body, op)
    seen = 0
    while v.kind == "call" and v.args and seen < 6:
        seen += 1
        if v.v.endswith("::into_iter") or v.v.endswith("::iter") or v.v.endswith("Deref>::deref") or v.v.endswith("::copied") or v.v.endswith("::cloned"):
            v = v.args[0]
        else:
            break
    if v.kind == "agg" and v.v in ("array", None) or (v.kind == "agg" and all(a.kind == "conststr" for a in v.args) and v.args):
        if all(a.kind == "conststr" for a in v.args):
            return [a.v for a in v.args]
    return None


def _loop_lookup(body, next_block, next_term):
    """for the loop headed by the next() call in `next_block`: (block of the map lookup keyed by the loop item, target of its
    Some edge, target of the loop's exhaustion edge), provided the lookup's None edge only leads back to the header"""
    sw = next_term.get("t")
    t = body.term(sw) if sw is not None else None
    if not t or t["k"] != "switch":
        return None
    vals = {int(x[0]): x[1] for x in t["targets"]}
    some_e = vals.get(1, t["otherwise"] if 0 in vals else None)
    none_e = vals.get(0, t["otherwise"] if 1 in vals else None)
    if some_e is None or none_e is None:
        return None
    # walk the body of the loop from the Some edge to the lookup
    b = some_e
    seen = set()
    while b not in seen:
        seen.add(b)
        tt = body.term(b)
        if tt["k"] == "call" and strip_generics(mir.callee_name(tt) or "") in GET_FNS and len(tt["args"]) == 2:
            key = repr(G.describe(body, tt["args"][1]))
            if not re.search(r"as Some\.0", key):
                return None
            dl = tt["dest"]["l"]
            s2 = body.term(tt["t"])
            if s2["k"] != "switch":
                return None
            v2 = {int(x[0]): x[1] for x in s2["targets"]}
            hit = v2.get(1, s2["otherwise"] if 0 in v2 else None)
            miss = v2.get(0, s2["otherwise"] if 1 in v2 else None)
            if hit is None or miss is None:
                return None
            # the miss edge goes straight back to the header (no other lookups, no exits)
            x = miss
            hops = 0
            while x != next_block and hops < 8:
                hops += 1
                sx = body.succ(x)
                if len(sx) != 1 or x in lookups(body):
                    return None
                x = sx[0]
            if x != next_block:
                return None
            return b, hit, none_e
        sx = body.succ(b)
        if len(sx) != 1:
            return None
        b = sx[0]
    return None



def reachable_lookups(body, start, lk):
    seen = {start}
    st = [start]
    found = []
    while st:
        b = st.pop()
        if b in lk:
            found.append(lk[b][0])
        for n in body.succ(b):
            if n not in seen:
                seen.add(n)
                st.append(n)
    return found


def check_precedence(ctx, rep):
    prog = ctx.prog
    body = prog.get("haystack::val::dict::dict_to_dis")
    if body is None:
        rep.gap("dict_to_dis", "-", "function haystack::val::dict::dict_to_dis not found")
        return 0
    seq, err = miss_path(body)
    keys = [k for k, _, _ in seq]
    if err:
        rep.gap("dict_to_dis:miss-path", body.where(), err)
    if keys == ORDER:
        rep.ok("R-PRECEDENCE", "dict_to_dis:order", body.where(), "all-miss path looks up %s in exactly the documented order" % keys)
    else:
        rep.bad("R-PRECEDENCE", "R-PRECEDENCE:dict_to_dis:order", body.where(), "display tags are consulted in the order %s, documented precedence is %s" % (keys, ORDER))
    lk = lookups(body)
    for i, (k, blk, hit) in enumerate(seq):
        later = [x for x in reachable_lookups(body, hit, lk) if x in ORDER]
        key = "dict_to_dis:hit(%s)-returns" % k
        if later:
            rep.bad("R-PRECEDENCE", "R-PRECEDENCE:" + key, body.where(hit), "after finding '%s' the function can still consult %s: a lower-precedence tag may override it" % (k, later))
        else:
            rep.ok("R-PRECEDENCE", key, body.where(hit), "every path from the hit edge returns without consulting another display tag")
    return len(seq)


def regex_literals(prog, rx_file="dis_macro.rs"):
    out = []
    for b in prog.bodies.values():
        if not b.file.endswith(rx_file):
            continue
        for bi, t in b.calls():
            if strip_generics(mir.callee_name(t) or "") == "regex::Regex::new":
                v = G.describe(b, t["args"][0])
                if v.kind == "conststr":
                    out.append((b, bi, v.v))
    return out


def capture_indices_used(prog):
    used = {}
    for b in prog.bodies.values():
        if not b.file.endswith("dis_macro.rs"):
            continue
        for bi, t in b.calls():
            if strip_generics(mir.callee_name(t) or "") == "regex::Captures::get":
                v = G.describe(b, t["args"][1])
                if v.kind == "const":
                    used.setdefault(v.v, []).append((b, bi))
    return used


TAG_LANG = "[a-z][a-zA-Z0-9_]*"


def check_regex(ctx, rep):
    prog = ctx.prog
    lits = regex_literals(prog)
    if len(lits) != 1:
        rep.gap("dis_macro:regex", "-", "expected one Regex::new(<literal>) in dis_macro.rs, found %d" % len(lits))
        return
    b, bi, pat = lits[0]
    r = rx("analyze", pat)
    where = b.where(bi)
    if not r.get("ok"):
        rep.bad("R-REGEX", "R-REGEX:parse", where, "regex literal does not parse: %s" % r.get("error"))
        return
    rep.ok("R-REGEX", "parse", where, "regex-syntax accepts the literal (%d alternatives, %d groups)" % (r["alternatives"], len(r["captures"])))
    # text without '$' is returned unchanged: every match starts with '$'
    if r["first_bytes"] == [36] and not r["matches_empty"]:
        rep.ok("R-REGEX", "first-byte", where, "DFA start state: every match begins with '$' and the empty string does not match, so text without '$' is returned borrowed/unchanged")
    else:
        rep.bad("R-REGEX", "R-REGEX:first-byte", where, "a match can start with bytes %s (or be empty): text without '$' may be rewritten" % r["first_bytes"][:10])
    caps = {c["index"]: c for c in r["captures"]}
    used = capture_indices_used(prog)
    for idx in sorted(used):
        ub, ubi = used[idx][0]
        if idx == 0 or idx in caps:
            rep.ok("R-REGEX", "capture-%d-exists" % idx, ub.where(ubi), "group %d exists" % idx)
        else:
            rep.bad("R-REGEX", "R-REGEX:capture-%d-exists" % idx, ub.where(ubi), "replacer reads capture group %d but the pattern has only %d groups" % (idx, len(caps)))
    # which groups are the tag / key groups: innermost groups (no children), in order
    inner = [c for c in r["captures"] if not any(d["parent"] == c["index"] for d in r["captures"])]
    inner_idx = [c["index"] for c in inner]
    want_used = sorted(i for i in used if i != 0)
    if want_used == inner_idx:
        rep.ok("R-REGEX", "replacer-reads-inner-groups", where, "the replacer reads exactly the innermost groups %s (tag, tag, key)" % inner_idx)
    else:
        rep.bad("R-REGEX", "R-REGEX:replacer-reads-inner-groups", where, "replacer reads groups %s but the name-carrying (innermost) groups are %s" % (want_used, inner_idx))
    # the groups handed to get_value (tag lookup) must accept every Haystack tag name
    tag_groups = tag_group_indices(prog)
    for gi in tag_groups:
        c = caps.get(gi)
        if not c:
            continue
        s = rx("subset", TAG_LANG, c["pattern"])
        if s.get("subset"):
            rep.ok("R-REGEX", "tag-language-group-%d" % gi, where, "L(%s) is included in L(group %d) (product-DFA search, %s state pairs)" % (TAG_LANG, gi, s.get("pairs")))
        else:
            rep.bad("R-REGEX", "R-REGEX:tag-language-group-%d" % gi, where, "tag name %r is a valid Haystack tag but group %d (%s) cannot match it: '$%s' is left verbatim" % (s.get("witness"), gi, c["pattern"], s.get("witness")))
        # ... and nothing else: `$tag` ends at the first character that cannot be part of a tag name
        s2 = rx("subset", c["pattern"], TAG_LANG)
        if s2.get("subset"):
            rep.ok("R-REGEX", "tag-language-group-%d:no-more" % gi, where, "L(group %d) is included in L(%s): the name ends at the first non-tag character" % (gi, TAG_LANG))
        else:
            rep.bad("R-REGEX", "R-REGEX:tag-language-group-%d:no-more" % gi, where, "group %d (%s) also matches %r, which is no tag name: a tag followed directly by such characters is looked up under the longer name and left verbatim" % (gi, c["pattern"], s2.get("witness")))
    # delimiters: alternative shapes $x, ${x}, $<x>
    outer = [c for c in r["captures"] if c["parent"] == 0]
    shapes = []
    for c in outer:
        p = c["pattern"]
        shapes.append("brace" if "\\{" in p else ("angle" if "<" in p else "bare"))
    if sorted(shapes) == ["angle", "bare", "brace"]:
        rep.ok("R-REGEX", "three-forms", where, "alternatives are the three documented forms $tag, ${tag}, $<key>")
    else:
        rep.bad("R-REGEX", "R-REGEX:three-forms", where, "alternatives %s are not the three documented macro forms" % shapes)
    return r


def lookup_sources(prog):
    """{"get_value": {capture indices}, "get_localized": {...}}: which capture groups' text reaches each of the replacer's two
    lookups, following `caps.get(i).or_else(|| caps.get(j))...` chains and `if let Some(m) = <that>` payloads"""
    body = None
    for b in prog.bodies.values():
        if b.short.endswith("as regex::Replacer>::replace_append") and b.rec["kind"] != "Closure":
            body = b
    if body is None:
        return None

    def closure_gets(val):
        out = set()
        for cid in prog.closures_of.get(body.id, []):
            cb = prog.bodies[cid]
            if cb.rec.get("alias_of", cid).split("@")[0] not in repr(val) and cid.split("@")[0] not in repr(val):
                continue
            out |= option_sources(cb, {"l": 0, "p": []}, 8)
        return out

    def option_sources(b, pl, depth):
        out = set()
        if depth <= 0 or pl is None:
            return out
        for bi, si, rv in b.defs().get(pl["l"], []):
            if si == "term":
                t = b.term(bi)
                nm = strip_generics(mir.callee_name(t) or "")
                if nm == "regex::Captures::get":
                    v = G.describe(b, t["args"][1])
                    if v.kind == "const":
                        out.add(v.v)
                elif nm.endswith(("Option::map", "Option::and_then", "Option::as_ref", "Option::copied", "Option::cloned", "Option::filter", "Option::take", "Try>::branch")) and t["args"]:
                    # the text handed on is (a function of) the text of the same groups
                    out |= option_sources(b, mir.op_place(t["args"][0]), depth - 1)
                elif nm.endswith(("Option::or_else", "Option::or")):
                    out |= option_sources(b, mir.op_place(t["args"][0]), depth - 1)
                    a1 = t["args"][1]
                    p1 = mir.op_place(a1)
                    if nm.endswith("or_else"):
                        # the closure aggregate handed over
                        for _b2, s2, rv2 in (b.defs().get(p1["l"], []) if p1 is not None else []):
                            if s2 != "term" and rv2["k"] == "agg" and rv2.get("ak") == "closure":
                                cid = rv2.get("closure")
                                for k in prog.bodies:
                                    if k == cid or prog.bodies[k].rec.get("alias_of") == cid:
                                        out |= option_sources(prog.bodies[k], {"l": 0, "p": []}, depth - 1)
                                        break
                    else:
                        out |= option_sources(b, p1, depth - 1)
            elif rv["k"] == "use":
                out |= option_sources(b, mir.op_place(rv["op"]), depth - 1)
        return out

    res = {"get_value": set(), "get_localized": set()}
    for bi, t in body.calls():
        nm = strip_generics(mir.callee_name(t) or "")
        if not nm.endswith("Fn::call") or len(t["args"]) < 2:
            continue
        recv = repr(G.describe(body, t["args"][0]))
        which = "get_value" if recv.endswith(".get_value") else ("get_localized" if recv.endswith(".get_localized") else None)
        if which is None:
            continue
        # the argument tuple holds Match::as_str(<payload of an Option local>), possibly behind references / copies
        def walk(pl, depth):
            """places reached from `pl` going back through copies and references, up to the first call or projection"""
            if pl is None or depth <= 0:
                return
            if pl["p"] and any(isinstance(e, dict) and "dc" in e for e in pl["p"]):
                yield ("payload", pl)
                return
            for b3, s3, rv3 in body.defs().get(pl["l"], []):
                if s3 == "term":
                    yield ("call", body.term(b3))
                elif rv3["k"] in ("ref", "rawptr"):
                    yield from walk(rv3["place"], depth - 1)
                elif rv3["k"] in ("use", "cast"):
                    yield from walk(mir.op_place(rv3["op"]), depth - 1)
                elif rv3["k"] == "agg":
                    for o in rv3["ops"]:
                        yield from walk(mir.op_place(o), depth - 1)

        for kind, x in walk(mir.op_place(t["args"][1]), 8):
            if kind == "payload":
                # the name itself is the payload of an Option (`if let Some(name) = captured_name(caps)`)
                res[which] |= option_sources(body, {"l": x["l"], "p": []}, 8)
                continue
            if kind != "call" or strip_generics(mir.callee_name(x) or "") != "regex::Match::as_str":
                continue
            for kind2, y in walk(mir.op_place(x["args"][0]), 8):
                if kind2 == "payload":
                    res[which] |= option_sources(body, {"l": y["l"], "p": []}, 8)
                elif kind2 == "call" and strip_generics(mir.callee_name(y) or "").endswith(("Option::unwrap", "Option::expect")):
                    res[which] |= option_sources(body, mir.op_place(y["args"][0]), 8)
    return res


def check_lookup_sources(ctx, rep, r):
    """each macro form is looked up in its own table only: the text of the `$tag` / `${tag}` groups goes to the record lookup,
    the text of the `$<key>` group to the localisation lookup - a name that happens to exist in the other table is not a hit"""
    prog = ctx.prog
    src = lookup_sources(prog)
    if src is None or r is None:
        rep.gap("dis_macro:lookup-sources", "-", "replace_append not found")
        return
    shape_of = {}
    for c in r["captures"]:
        if c["parent"] == 0:
            p = c["pattern"]
            shape_of[c["index"]] = "brace" if "\\{" in p or "\{" in p else ("angle" if "<" in p else "bare")
    inner_shape = {}
    for c in r["captures"]:
        if c["parent"] in shape_of and not any(d["parent"] == c["index"] for d in r["captures"]):
            inner_shape[c["index"]] = shape_of[c["parent"]]
    tags = {i for i, sh in inner_shape.items() if sh in ("bare", "brace")}
    keys = {i for i, sh in inner_shape.items() if sh == "angle"}
    for which, want, other in (("get_value", tags, "localisation key"), ("get_localized", keys, "tag")):
        got = src[which]
        if got == want and got:
            rep.ok("R-REGEX", "lookup-source:%s" % which, "-", "%s receives exactly the text of groups %s" % (which, sorted(got)))
        else:
            rep.bad("R-REGEX", "R-REGEX:lookup-source:%s" % which, "-", "%s receives the text of groups %s, expected exactly %s: a %s form is answered from the wrong table (or a form is never looked up)" % (which, sorted(got), sorted(want), other))


def tag_group_indices(prog):
    """capture indices whose text is passed to get_value (the tag lookup): in replace_append, the Option produced by
    caps.get(i).or_else(|| caps.get(j)) that feeds (self.get_value)(..)"""
    body = None
    for b in prog.bodies.values():
        if b.short.endswith("as regex::Replacer>::replace_append"):
            body = b
    out = []
    if body is None:
        return out
    first = None
    for bi, t in body.calls():
        nm = strip_generics(mir.callee_name(t) or "")
        if nm == "regex::Captures::get":
            v = G.describe(body, t["args"][1])
            if v.kind == "const" and first is None and v.v != 0:
                first = v.v
    if first is not None:
        out.append(first)
    # or_else closure alternatives
    for cid in prog.closures_of.get(body.id, []):
        cb = prog.bodies[cid]
        calls = [(bi, t) for bi, t in cb.calls()]
        for bi, t in calls:
            if strip_generics(mir.callee_name(t) or "") == "regex::Captures::get":
                v = G.describe(cb, t["args"][1])
                # the default_replace closure reads group 0; or_else closure reads the alternative tag group
                if v.kind == "const" and v.v not in (0,) and v.v not in out:
                    # only closures passed to Option::or_else
                    out.append(v.v)
    # keep those that are not the last (key) group: the key group is read directly in the else-if arm
    direct = []
    for bi, t in body.calls():
        if strip_generics(mir.callee_name(t) or "") == "regex::Captures::get":
            v = G.describe(body, t["args"][1])
            if v.kind == "const":
                direct.append(v.v)
    key_groups = [x for x in direct[1:] if x != 0]
    return [x for x in out if x not in key_groups]


def check_replacer_pushes(ctx, rep):
    """whatever DisReplacer appends to the output is either text derived from the looked-up value / localisation, or the
    whole match (capture group 0) verbatim: the text of an inner group or a literal is never pushed"""
    prog = ctx.prog
    body = next((b for b in prog.bodies.values() if b.short.endswith("as regex::Replacer>::replace_append")), None)
    if body is None:
        rep.gap("DisReplacer::replace_append", "-", "not found")
        return 0
    bodies = [body] + [prog.bodies[c] for c in prog.closures_of.get(body.id, [])]
    n = 0
    for x in bodies:
        k = 0
        for bi, t in x.calls():
            nm = strip_generics(mir.callee_name(t) or "")
            if nm not in ("std::string::String::push_str", "std::string::String::push", "std::string::String::insert_str", "std::string::String::extend"):
                continue
            n += 1
            v = G.describe(x, t["args"][1])
            r = repr(v)
            key = "replacer-push:%s#%d" % (x.short.split("::")[-1], k)
            k += 1
            groups = [int(g) for g in re.findall(r"regex::Captures::get\([^,]*, const (\d+)\)", r)]
            if v.kind in ("const", "conststr") or nm.endswith("::push"):
                rep.bad("T-VERBATIM", "T-VERBATIM:replacer-push:literal", x.where(bi), "the replacer appends a literal (%s): an unresolved macro is rebuilt instead of being left verbatim" % r[:40])
            elif groups and any(g != 0 for g in groups):
                rep.bad("T-VERBATIM", "T-VERBATIM:replacer-push:inner-group", x.where(bi), "the replacer appends the text of capture group %s instead of the whole match: braces / angle brackets of an unresolved macro are lost" % [g for g in groups if g != 0])
            elif groups == [0] or not groups:
                rep.ok("T-VERBATIM", key, x.where(bi), "appends %s" % ("the whole match (group 0)" if groups else "text derived from the looked-up value"))
    return n



DISPLAY_TEXT_KINDS = {"Ref": "its display name, else its id", "Str": "its text without quotes"}


def check_replacer_kinds(ctx, rep):
    """'replaced by that tag's display text': the replacer treats exactly Ref (dis, else id) and Str (raw text) specially and
    substitutes every other kind by Value::to_string(); an extra arm for another kind substitutes something else than its display text"""
    from rules import kinds as K

    prog = ctx.prog
    body = next((b for b in prog.bodies.values() if b.short.endswith("as regex::Replacer>::replace_append")), None)
    if body is None:
        rep.gap("DisReplacer::replace_append", "-", "not found")
        return 0
    vnames = {d: n for n, d in K.variants(prog, K.VAL)}
    sws = K.value_switches(body, K.VAL)
    if not sws:
        rep.gap("DisReplacer::replace_append:kind dispatch", body.where(), "no switch on the value's kind")
        return 0
    explicit = set()
    for b, t, _pl in sws:
        for val, _tb in t["targets"]:
            explicit.add(vnames.get(int(val), "?"))
    n = 1
    extra = explicit - set(DISPLAY_TEXT_KINDS)
    missing = set(DISPLAY_TEXT_KINDS) - explicit
    if extra or missing:
        rep.bad("T-VERBATIM", "T-VERBATIM:replacer-kinds", body.where(sws[0][0]), "the replacer has special cases for %s; the display text is special only for %s (extra: %s, missing: %s)" % (sorted(explicit), sorted(DISPLAY_TEXT_KINDS), sorted(extra), sorted(missing)))
    else:
        rep.ok("T-VERBATIM", "replacer-kinds", body.where(sws[0][0]), "special cases exactly for Ref and Str")
    n += 1
    names = [strip_generics(mir.callee_name(t) or "") for _, t in body.calls()]
    if any(x.endswith("ToString>::to_string") or x.endswith("ToString::to_string") for x in names):
        rep.ok("T-VERBATIM", "replacer-default-is-to_string", body.where(), "other kinds are substituted by to_string()")
    else:
        rep.bad("T-VERBATIM", "T-VERBATIM:replacer-default-is-to_string", body.where(), "no to_string() of the looked-up value: kinds other than Ref / Str are not substituted by their display text")
    return n



def check_localiser_forwarded(ctx, rep):
    """`dict_to_dis(dict, localiser, default)` hands *its* localiser on to dis_macro, so `$<key>` inside a record's disMacro is
    looked up the same way as for a disKey: the third argument of the dis_macro call is the parameter, not a stand-in closure"""
    prog = ctx.prog
    b = next((x for x in prog.bodies.values() if strip_generics(x.id).endswith("val::dict::dict_to_dis") and x.rec["kind"] != "Closure"), None)
    if b is None:
        rep.gap("dict_to_dis", "-", "not found")
        return 0
    sites = [(bi, t) for bi, t in b.calls() if strip_generics(mir.callee_name(t) or "").endswith("dis_macro::dis_macro")]
    good = bool(sites)
    for bi, t in sites:
        if len(t["args"]) < 3 or not re.fullmatch(r"&?_2\**", repr(G.describe(b, t["args"][2]))):
            good = False
    if good:
        rep.ok("R-PRECEDENCE", "dict_to_dis:localiser-forwarded", b.where(sites[0][0]), "dis_macro receives the caller's localisation function")
    else:
        rep.bad("R-PRECEDENCE", "R-PRECEDENCE:dict_to_dis:localiser-forwarded", b.where(sites[0][0]) if sites else b.where(), "dict_to_dis does not pass its localisation function to dis_macro (%s): `$<key>` in a disMacro is never localised" % ([repr(G.describe(b, t["args"][2]))[:60] for _bi, t in sites if len(t["args"]) > 2] or "no dis_macro call"))
    return 1
