"""R-LOOP: every loop reachable from an entry set has a termination certificate (DESIGN 2.2)."""
import json
import os
import re

from rules import guards as G
from rules import scanai
from vlib import mir
from vlib.mir import callee_of, strip_generics

TABLE = os.path.join(os.path.dirname(os.path.dirname(os.path.abspath(__file__))), "tables", "loop_certs.json")

FINITE_NEXT = re.compile(
    r"^(<std::(slice::Iter(Mut)?|vec::IntoIter|str::Chars|str::CharIndices|str::Bytes|str::Split|str::Lines|"
    r"collections::(btree_map|btree_set|hash_map|hash_set|vec_deque)::[A-Za-z]+|"
    r"iter::(Enumerate|Copied|Cloned|Map|Filter|FilterMap|Rev|Zip|Chain|Take|Skip|Peekable|Flatten|FlatMap)|"
    r"option::(Iter|IntoIter)|ops::Range(Inclusive)?) as std::iter::Iterator>::next|"
    r"std::iter::range::<impl std::iter::Iterator for std::ops::Range(Inclusive)?>::next|"
    r"serde::de::SeqAccess::next_element|serde::de::MapAccess::next_entry|serde::de::MapAccess::next_key|serde::de::MapAccess::next_value)$"
)


class LoopRule:
    def __init__(self, ctx, eof_only_errors=False):
        self.ctx = ctx
        self.prog = ctx.prog
        self.ai = scanai.AI(ctx.prog, eof_only_errors)
        self.local_iters = {im.get("self_adt") for im in self.prog.impls if im.get("trait") == "std::iter::Iterator" and im.get("self_adt")}
        self.table = {}
        if os.path.exists(TABLE):
            for e in json.load(open(TABLE))["entries"]:
                self.table[e["key"]] = e
        self.counts = {"L1": 0, "L2": 0, "L3": 0, "L4": 0}
        self._done = {}

    def finite_next_blocks(self, body, scc):
        out = []
        for b in scc:
            t = body.term(b)
            if t["k"] != "call":
                continue
            c = callee_of(t)
            if c is None:
                continue
            nm = strip_generics(c.get("res") or c["fn"])
            if not FINITE_NEXT.match(nm):
                continue
            full = c.get("res_full") or c.get("fn_full") or ""
            if any(li and li in full for li in self.local_iters):
                continue  # adaptor over a crate-local (input-driven) iterator
            # the producer must be one instance for the whole loop: created outside this SCC, not re-created per pass
            if not self._iterator_created_outside(body, scc, t):
                continue
            out.append(b)
        return out

    def _iterator_created_outside(self, body, scc, t):
        if not t["args"]:
            return False
        pl = mir.op_place(t["args"][0])
        if pl is None:
            return False
        l = pl["l"]
        # &mut _it  ->  _it
        for _ in range(4):
            if 0 < l <= body.arg_count:
                return True  # a parameter: created by the caller
            ds = body.defs().get(l, [])
            if len(ds) == 1 and ds[0][1] != "term" and ds[0][2]["k"] == "ref" and not ds[0][2]["place"]["p"]:
                l = ds[0][2]["place"]["l"]
                continue
            if len(ds) == 1 and ds[0][1] != "term" and ds[0][2]["k"] == "ref" and ds[0][2]["place"]["p"]:
                # a field of something (e.g. &mut self.iter): rooted at a parameter or an outer local
                l = ds[0][2]["place"]["l"]
                continue
            break
        if 0 < l <= body.arg_count:
            return True
        ds = body.defs().get(l, [])
        if not ds:
            return False
        return all(d[0] not in scc for d in ds)

    def key_of(self, body, scc):
        """stable key: function + names of the calls made in the loop header block"""
        h = scanai.header_of(body, scc)
        calls = sorted({strip_generics(mir.callee_name(body.term(b)) or "?").split("::")[-1] for b in scc if body.term(b)["k"] == "call"})
        return "%s:loop(%s)" % (body.short, ",".join(calls)[:120])

    def _header_cycle_avoiding(self, body, scc, h, removed):
        """is there a cycle through the header h inside scc that avoids all `removed` blocks?"""
        removed = set(removed)
        if h in removed:
            return False
        seen = set()
        st = [x for x in body.succ(h) if x in scc and x not in removed]
        while st:
            b = st.pop()
            if b == h:
                return True
            if b in seen:
                continue
            seen.add(b)
            for n in body.succ(b):
                if n in scc and n not in removed and (n == h or n not in seen):
                    st.append(n)
        return False

    def certify(self, body, scc, depth=0):
        """-> (certificate name, detail) or (None, reason). Loop nesting: the inner loops (SCCs of scc minus its header)
        are certified on their own; the certificate of scc itself then only has to cover the cycles through its header."""
        h = scanai.header_of(body, scc)
        inner = scanai.sub_sccs(body, scc, [h])
        rs = [self.certify(body, s, depth + 1) for s in inner]
        if not all(r[0] for r in rs):
            return None, "inner loop not certified: " + "; ".join(r[1] for r in rs if not r[0])
        tail = ("; %d inner loop(s) certified (%s)" % (len(inner), ",".join(r[0] for r in rs))) if inner else ""
        # L1 finite producer: one iterator instance, created outside this loop, stepped on every pass
        P = self.finite_next_blocks(body, scc)
        if P and not self._header_cycle_avoiding(body, scc, h, P):
            return "L1", "every cycle through bb%d steps %s, an iterator created outside the loop%s" % (h, strip_generics(mir.callee_name(body.term(P[0]))).split(" as ")[0].lstrip("<"), tail)
        # L2 scanner measure
        if body.id in self.ai.touch():
            bad = scanai.measure_check(self.ai, body, scc, h)
            if not bad:
                return "L2", "measure (bytes left + peeked + !eof, token rank) strictly decreases around every cycle through bb%d%s" % (h, tail)
            (c0, e0, p0, t0, _), (c2, e2, p2, t2, _), pred = bad[0]
            return None, (
                "a pass through the loop can return to its header (bb%d, via bb%d at %s) without consuming input: entered with eof=%s token=%s, "
                "back with progress=%d eof=%s token=%s cur=%s"
                % (h, pred, body.where(pred), bool(e0), ["empty", "some"][t0], p2, bool(e2), ["empty", "some", "?"][t2], scanai.mask_str(c2))
            )
        # L3 visited set / work list
        r = self.visited_set(body, scc, h) or self.worklist(body, scc, h)
        if r:
            return "L3", r + tail
        return None, "no finite producer on every cycle, does not touch the scanner, no visited set"

    def visited_set(self, body, scc, h):
        """every cycle through the header adds a key to a visited set that was not in it:
        (a) it passes HashSet::insert(S, x) in a block dominated by the 'false' edge of HashSet::contains(S, x) on the
            same set and the same key, or
        (b) it passes the 'true' (newly inserted) edge of a switch on the result of HashSet::insert(S, x).
        The set only grows, so over a finite key universe (a finite, possibly cyclic, ref graph) the loop stops."""
        SET_INS = ("std::collections::HashSet::insert", "std::collections::BTreeSet::insert")
        SET_HAS = ("std::collections::HashSet::contains", "std::collections::BTreeSet::contains")
        good = []
        why = None
        for ib in scc:
            it = body.term(ib)
            if it["k"] != "call" or strip_generics(mir.callee_name(it) or "") not in SET_INS:
                continue
            s_repr = repr(G.describe(body, it["args"][0]))
            a1 = G.describe(body, it["args"][1])
            x_repr = repr(a1.args[0]) if (a1.kind == "call" and a1.v.endswith("::clone") and a1.args) else repr(a1)
            for g in G.guards_at(body, ib):
                if g.op == "False" and g.a.kind == "call" and g.a.v in SET_HAS and repr(g.a.args[0]) == s_repr and repr(g.a.args[1]) == x_repr:
                    good.append(ib)
                    why = "insert(%s) under contains(..)==false on the same set and key" % x_repr
            # (b) insert result decides
            nxt = it.get("t")
            if nxt is not None and body.term(nxt)["k"] == "switch":
                v = G.describe(body, body.term(nxt)["op"])
                core = v.args[0] if (v.kind == "unop" and v.args) else v
                if core.kind == "call" and core.v in SET_INS:
                    sw = body.term(nxt)
                    # blocks on the 'already present' side must not lead back to the header
                    truthy = 0 if v.kind == "unop" else 1
                    for val, tb in sw["targets"]:
                        pass
                    vals = {int(x[0]): x[1] for x in sw["targets"]}
                    seen_edge = vals.get(0 if truthy == 1 else 1, sw["otherwise"])
                    if seen_edge not in scc or not self._reaches_within(body, seen_edge, scc, h):
                        good.append(ib)
                        why = "the 'already present' result of insert(%s) cannot lead back to the loop header" % x_repr
        if good and not self._header_cycle_avoiding(body, scc, h, good):
            return "every cycle through bb%d records a key that was not yet in the visited set: %s" % (h, why)
        return None

    def worklist(self, body, scc, h):
        """work-list traversal with a visited set: every cycle pops the work list (or is a finite inner iteration) and every
        push onto it is dominated by the 'newly inserted' edge of HashSet::insert on the visited set; so pushes are bounded
        by the number of distinct elements and every outer pass removes one entry"""
        pops, pushes = [], []
        for b in scc:
            t = body.term(b)
            if t["k"] != "call":
                continue
            nm = strip_generics(mir.callee_name(t) or "")
            if nm == "std::vec::Vec::pop":
                pops.append((b, repr(G.describe(body, t["args"][0]))))
            elif nm == "std::vec::Vec::push":
                pushes.append((b, repr(G.describe(body, t["args"][0]))))
        if not pops:
            return None
        w = pops[0][1]
        if any(x != w for _, x in pops):
            return None
        if self._header_cycle_avoiding(body, scc, h, [b for b, _ in pops]):
            return None
        n = 0
        for b, recv in pushes:
            if recv != w:
                continue
            ok = False
            for g in G.guards_at(body, b):
                if g.op == "True" and g.a.kind == "call" and g.a.v in ("std::collections::HashSet::insert", "std::collections::BTreeSet::insert"):
                    ok = True
            if not ok:
                return None
            n += 1
        return "work list %s: every cycle through the header pops it; its %d push site(s) are dominated by the 'newly inserted' edge of the visited-set insert" % (w, n)

    def _all_paths_to_header_hit(self, body, scc, start, header, hits):
        hits = set(hits)
        if start in hits:
            return True
        seen = {start}
        st = [start]
        while st:
            b = st.pop()
            for n in body.succ(b):
                if n not in scc or n in hits:
                    continue
                if n == header:
                    return False
                if n not in seen:
                    seen.add(n)
                    st.append(n)
        return True

    def _reaches_within(self, body, x, scc, target):
        seen = {x}
        st = [x]
        while st:
            y = st.pop()
            if y == target:
                return True
            for z in body.succ(y):
                if z in scc and z not in seen:
                    seen.add(z)
                    st.append(z)
        return False

    def run(self, entries, rep, label=""):
        prog = self.prog
        reach, parent = prog.reachable_from(entries)
        n = 0
        for fid in sorted(reach):
            if "units_generated" in fid:
                continue
            body = prog.bodies[fid]
            sccs = body.sccs()
            seen = {}
            for scc in sccs:
                n += 1
                key = self.key_of(body, scc)
                k2 = seen.get(key, 0)
                seen[key] = k2 + 1
                key = key + "#%d" % k2
                h = scanai.header_of(body, scc)
                ck = (fid, h)
                if ck not in self._done:
                    e = self.table.get(key)
                    if e is not None:
                        self._done[ck] = ("L4", "table: " + e["reason"])
                    else:
                        self._done[ck] = self.certify(body, scc)
                cert, detail = self._done[ck]
                if cert:
                    self.counts[cert] += 1
                    rep.ok("R-LOOP", key, body.where(h), "%s:%s" % (cert, detail))
                else:
                    path = prog.path_to(parent, fid)
                    rep.bad("R-LOOP", "R-LOOP:" + key, body.where(h), "loop without termination certificate: %s (reachable from %s)" % (detail, strip_generics(path[0])), {"path": [strip_generics(x) for x in path]})
        return n
