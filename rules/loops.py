"""R-LOOP: every loop reachable from an entry set has a termination certificate (DESIGN 2.2)."""
import json
import os
import re

from rules import guards as G
from rules import scanai
from vlib import mir
from vlib.mir import callee_of, strip_generics

TABLE = os.path.join(os.path.dirname(os.path.dirname(os.path.abspath(__file__))), "tables", "loop_certs.json")

FINITE_NEXT = re.compile(
    r"^(<std::(slice::Iter(Mut)?|vec::IntoIter|str::Chars|str::CharIndices|str::Bytes|str::Split|str::Lines|"
    r"collections::(btree_map|btree_set|hash_map|hash_set|vec_deque)::[A-Za-z]+|"
    r"iter::(Enumerate|Copied|Cloned|Map|Filter|FilterMap|Rev|Zip|Chain|Take|Skip|Peekable|Flatten|FlatMap)|"
    r"option::(Iter|IntoIter)|ops::Range(Inclusive)?) as std::iter::Iterator>::next|"
    r"std::iter::range::<impl std::iter::Iterator for std::ops::Range(Inclusive)?>::next|"
    r"serde::de::SeqAccess::next_element|serde::de::MapAccess::next_entry|serde::de::MapAccess::next_key|serde::de::MapAccess::next_value)$"
)


class LoopRule:
    def __init__(self, ctx, eof_only_errors=False):
        self.ctx = ctx
        self.prog = ctx.prog
        self.ai = scanai.AI(ctx.prog, eof_only_errors)
        self.local_iters = {im.get("self_adt") for im in self.prog.impls if im.get("trait") == "std::iter::Iterator" and im.get("self_adt")}
        self.table = {}
        if os.path.exists(TABLE):
            for e in json.load(open(TABLE))["entries"]:
                self.table[e["key"]] = e
        self.counts = {"L1": 0, "L2": 0, "L3": 0, "L4": 0}
        self._done = {}

    def finite_next_blocks(self, body, scc):
        out = []
        for b in scc:
            t = body.term(b)
            if t["k"] != "call":
                continue
            c = callee_of(t)
            if c is None:
                continue
            nm = strip_generics(c.get("res") or c["fn"])
            if not FINITE_NEXT.match(nm):
                continue
            full = c.get("res_full") or c.get("fn_full") or ""
            if any(li and li in full for li in self.local_iters):
                continue  # adaptor over a crate-local (input-driven) iterator
            out.append(b)
        return out

    def key_of(self, body, scc):
        """stable key: function + names of the calls made in the loop header block"""
        h = scanai.header_of(body, scc)
        calls = sorted({strip_generics(mir.callee_name(body.term(b)) or "?").split("::")[-1] for b in scc if body.term(b)["k"] == "call"})
        return "%s:loop(%s)" % (body.short, ",".join(calls)[:120])

    def certify(self, body, scc, depth=0):
        """-> (certificate name, detail) or (None, reason)"""
        # L1 finite producer
        P = self.finite_next_blocks(body, scc)
        if P:
            subs = scanai.sub_sccs(body, scc, P)
            if not subs:
                return "L1", "every cycle passes %s" % strip_generics(mir.callee_name(body.term(P[0])))
            rs = [self.certify(body, s, depth + 1) for s in subs]
            if all(r[0] for r in rs):
                return "L1", "every outer cycle passes %s; %d inner loops certified (%s)" % (strip_generics(mir.callee_name(body.term(P[0]))).split(" as ")[0], len(subs), ",".join(r[0] for r in rs))
            return None, "inner loop not certified: " + "; ".join(r[1] for r in rs if not r[0])
        # L2 scanner measure
        if body.id in self.ai.touch():
            h = scanai.header_of(body, scc)
            bad = scanai.measure_check(self.ai, body, scc, h)
            if not bad:
                subs = scanai.sub_sccs(body, scc, [h])
                rs = [self.certify(body, s, depth + 1) for s in subs]
                if all(r[0] for r in rs):
                    return "L2", "measure (bytes left + peeked + !eof, token rank) strictly decreases around every cycle through bb%d%s" % (h, ("; %d inner loops certified" % len(subs)) if subs else "")
                return None, "inner loop not certified: " + "; ".join(r[1] for r in rs if not r[0])
            (c0, e0, p0, t0, _), (c2, e2, p2, t2, _), pred = bad[0]
            return None, (
                "a pass through the loop can return to its header (bb%d, via bb%d at %s) without consuming input: entered with eof=%s token=%s, "
                "back with progress=%d eof=%s token=%s cur=%s"
                % (h, pred, body.where(pred), bool(e0), ["empty", "some"][t0], p2, bool(e2), ["empty", "some", "?"][t2], scanai.mask_str(c2))
            )
        # L3 visited set
        r = self.visited_set(body, scc) or self.worklist(body, scc)
        if r:
            return "L3", r
        return None, "no finite producer on every cycle, does not touch the scanner, no visited set"

    def visited_set(self, body, scc):
        """every cycle passes HashSet::insert / contains on a set of already-seen keys with an exit edge on 'seen'"""
        ins = []
        for b in scc:
            t = body.term(b)
            if t["k"] == "call":
                nm = strip_generics(mir.callee_name(t) or "")
                if nm in ("std::collections::HashSet::insert", "std::collections::HashSet::contains", "std::collections::BTreeSet::insert", "std::collections::BTreeSet::contains"):
                    ins.append((b, nm))
        for b, nm in ins:
            # the boolean result must select between staying in the loop and leaving it
            t = body.term(b)
            nxt = t.get("t")
            if nxt is None:
                continue
            # find the switch on the result
            dl = t["dest"]["l"]
            for sb in scc:
                st = body.term(sb)
                if st["k"] == "switch":
                    v = G.describe(body, st["op"])
                    if v.kind == "call" and v.v == nm or (v.kind == "unop" and v.args and v.args[0].kind == "call" and v.args[0].v == nm):
                        succ = body.succ(sb)
                        leaves = [x for x in succ if x not in scc or not self._reaches_within(body, x, scc, sb)]
                        if leaves and not scanai.sub_sccs(body, scc, [sb]):
                            return "every cycle passes the switch on %s (bb%d); the 'already seen' edge leaves the loop" % (nm.split("::")[-1], sb)
        return None

    def worklist(self, body, scc):
        """work-list traversal with a visited set: every cycle pops the work list (or is a finite inner iteration) and every
        push onto it is dominated by the 'newly inserted' edge of HashSet::insert on the visited set; so pushes are bounded
        by the number of distinct elements and every outer pass removes one entry"""
        pops, pushes = [], []
        for b in scc:
            t = body.term(b)
            if t["k"] != "call":
                continue
            nm = strip_generics(mir.callee_name(t) or "")
            if nm == "std::vec::Vec::pop":
                pops.append((b, repr(G.describe(body, t["args"][0]))))
            elif nm == "std::vec::Vec::push":
                pushes.append((b, repr(G.describe(body, t["args"][0]))))
        if not pops:
            return None
        w = pops[0][1]
        if any(x != w for _, x in pops):
            return None
        P = self.finite_next_blocks(body, scc)
        if scanai.sub_sccs(body, scc, [b for b, _ in pops] + P):
            return None
        n = 0
        for b, recv in pushes:
            if recv != w:
                continue
            ok = False
            for g in G.guards_at(body, b):
                if g.op == "True" and g.a.kind == "call" and g.a.v in ("std::collections::HashSet::insert", "std::collections::BTreeSet::insert"):
                    ok = True
            if not ok:
                return None
            n += 1
        return "work list %s: every cycle pops it or steps a finite iterator; its %d push site(s) are dominated by the 'newly inserted' edge of the visited-set insert" % (w, n)

    def _reaches_within(self, body, x, scc, target):
        seen = {x}
        st = [x]
        while st:
            y = st.pop()
            if y == target:
                return True
            for z in body.succ(y):
                if z in scc and z not in seen:
                    seen.add(z)
                    st.append(z)
        return False

    def run(self, entries, rep, label=""):
        prog = self.prog
        reach, parent = prog.reachable_from(entries)
        n = 0
        for fid in sorted(reach):
            if "units_generated" in fid:
                continue
            body = prog.bodies[fid]
            sccs = body.sccs()
            seen = {}
            for scc in sccs:
                n += 1
                key = self.key_of(body, scc)
                k2 = seen.get(key, 0)
                seen[key] = k2 + 1
                key = key + "#%d" % k2
                h = scanai.header_of(body, scc)
                ck = (fid, h)
                if ck not in self._done:
                    e = self.table.get(key)
                    if e is not None:
                        self._done[ck] = ("L4", "table: " + e["reason"])
                    else:
                        self._done[ck] = self.certify(body, scc)
                cert, detail = self._done[ck]
                if cert:
                    self.counts[cert] += 1
                    rep.ok("R-LOOP", key, body.where(h), "%s:%s" % (cert, detail))
                else:
                    path = prog.path_to(parent, fid)
                    rep.bad("R-LOOP", "R-LOOP:" + key, body.where(h), "loop without termination certificate: %s (reachable from %s)" % (detail, strip_generics(path[0])), {"path": [strip_generics(x) for x in path]})
        return n
