"""Every store to Scanner.is_eof is a constant; `false` is stored only where tables/loop_certs.json allows it."""
import json
import os

from rules import scanai
from vlib import mir

TABLE = os.path.join(os.path.dirname(os.path.dirname(os.path.abspath(__file__))), "tables", "loop_certs.json")


def check(ctx, rep):
    allowed = {e["function"] for e in json.load(open(TABLE)).get("eof_false_stores", [])}
    n = 0
    for b in ctx.prog.bodies.values():
        if "units_generated" in b.id:
            continue
        for bi, blk in enumerate(b.blocks):
            for st in blk["stmts"]:
                if st["k"] == "assign" and st["lhs"]["p"] and scanai.is_scanner_field(st["lhs"], "is_eof"):
                    n += 1
                    c = mir.op_const(st["rv"].get("op")) if st["rv"]["k"] == "use" else None
                    key = "eof-store:%s" % b.short
                    if c is None or "bool" not in c:
                        rep.bad("R-LOOP", "R-LOOP:" + key + ":nonconst", b.where(line=st.get("line")), "non-constant store to Scanner.is_eof: the EOF flag is no longer a monotone measure component")
                    elif c["bool"] is False and b.short not in allowed:
                        rep.bad("R-LOOP", "R-LOOP:" + key + ":false", b.where(line=st.get("line")), "Scanner.is_eof is reset to false outside the audited site: end of input may never be observed again")
                    else:
                        rep.ok("R-LOOP", key + (":true" if c["bool"] else ":false"), b.where(line=st.get("line")), "constant store" + (" (audited reset, L4 table)" if not c["bool"] else ""))
                    if c is not None and c.get("bool") is True:
                        n += 1
                        _eof_only(rep, b, bi, "eof-store:%s:only-on-unexpected-eof" % b.short, st.get("line"))
            # aggregate construction of Scanner
            for st in blk["stmts"]:
                if st["k"] == "assign" and st["rv"]["k"] == "agg" and st["rv"].get("adt") == scanai.SCANNER:
                    n += 1
                    flds = st["rv"].get("fields", [])
                    if "is_eof" in flds:
                        cc = mir.op_const(st["rv"]["ops"][flds.index("is_eof")])
                        if cc is not None and cc.get("bool") is True:
                            n += 1
                            _eof_only(rep, b, bi, "eof-store:%s:built-at-eof:only-on-unexpected-eof" % b.short, st.get("line"))
    return n



def _eof_only(rep, b, bi, key, line):
    """the end-of-input flag is raised only when the reader said so: the store of `true` is dominated by the test
    `err.kind() == ErrorKind::UnexpectedEof` - any other error (a reset connection, a failing disk) is an error, and must not make
    what was received so far look like a complete document"""
    from rules import guards as G

    ok = False
    for g in G.guards_at(b, bi):
        r = repr(g)
        if "UnexpectedEof" in r and "Error::kind(" in r and ((g.op == "True" and "::eq(" in r) or (g.op == "Eq" and "discr" in r) or (g.op == "False" and "::ne(" in r)):
            ok = True
    if ok:
        rep.ok("R-LOOP", key, b.where(line=line), "raised only under err.kind() == UnexpectedEof")
    else:
        rep.bad("R-LOOP", "R-LOOP:" + key, b.where(line=line), "Scanner.is_eof is set to true without the error having been found to be UnexpectedEof: any I/O error then reads as the end of the text, and a truncated transfer decodes as a complete (shorter) value")
