"""C01 Zinc encode -> decode returns the original value: the structural clauses."""
from rules import escapes, fields


def check(ctx):
    rep = ctx.rep
    from rules import zincspec as _zs
    nna = _zs.check_number_no_arith(ctx, rep)
    rep.floor("functions of the Zinc number decoder", nna, 5)
    from rules import tz as _tzz
    nz = _tzz.check_zone_names(ctx, rep)
    rep.floor("zone-name table obligations (T-ZONES)", nz, 2)
    from rules import tz as _tzs
    nsf = _tzs.check_strftime(ctx, rep)
    _tzs.check_date_text(ctx, rep)
    rep.floor("time-of-day text writers", nsf, 3)
    from rules import tz as _tzr
    nr = _tzr.check_component_rebuild(ctx, rep)
    rep.floor("timestamps rebuilt from components", nr, 1)
    nu = _tzr.check_utc_shortcut(ctx, rep)
    rep.floor("lookup-free UTC results in the Zinc reader", nu, 1)
    from rules import hayson as _hk
    _hk.check_nothing_dropped(ctx, rep, "encoding/zinc/encode.rs")
    _hk.check_text_verbatim(ctx, rep)
    from rules import units as _un1
    _nu1, _ni1 = _un1.check(ctx, rep)
    rep.floor("unit identifiers (numbers carry units)", _ni1, 900)
    npk = escapes.check_parsed_elements_kept(ctx, rep)
    rep.floor("stores of parsed elements in the Zinc collection readers", npk, 4)
    n1 = escapes.check_str(ctx, rep)
    n2 = escapes.check_uri(ctx, rep)
    n3 = escapes.check_raw_interpolations(ctx, rep)
    escapes.check_quoted_interpolations(ctx, rep)
    rep.floor("Str writer cells", n1, 8)
    rep.floor("Uri writer cells", n2, 4)
    rep.floor("quoted interpolations checked (Ref.dis, XStr.value)", n3, 2)
    n4 = escapes.check_alphabets(ctx, rep)
    rep.floor("reader character classes", n4, 4)
    n5 = escapes.check_grid_layout(ctx, rep)
    rep.floor("grid header layout obligations", n5, 5)
    from rules import tz as _tz
    _tz.check_utc_guard(ctx, rep)
    ntzr = _tz.check(ctx, rep)
    rep.floor("zone-mapping call sites (R-TZ)", ntzr, 10)
    _tz.check_offset_fields(ctx, rep)
    escapes.check_column_layout(ctx, rep)
    nw = escapes.check_write_methods(ctx, rep)
    rep.floor("io::Write calls in the Zinc writer", nw, 45)
    escapes.check_element_encoding(ctx, rep)
    nc = escapes.check_cell_presence_only(ctx, rep)
    rep.floor("grid cell write sites", nc, 1)
    n9 = escapes.check_separators(ctx, rep)
    rep.floor("separator writes inside enumerate loops", n9, 4)
    n10 = escapes.check_nesting_flag(ctx, rep)
    rep.floor("zinc_encode call sites (nesting flag)", n10, 5)
    n7 = escapes.check_number_format(ctx, rep)
    rep.floor("f64 placeholders in the Zinc writer", n7, 4)
    n8 = escapes.check_timestamp_format(ctx, rep)
    rep.floor("timestamp formatting call sites", n8, 2)
    n6 = fields.check(ctx, rep, {"haystack::encoding::zinc::encode::ToZinc", "haystack::encoding::zinc::encode::ZincEncode"})
    rep.floor("Zinc writer impls for structs with fields", n6, 13)
    rep.note("Decided: escape inverse (writer transducers vs the reader's own tables, exhaustive over all Unicode scalars by intervals), reader "
             "alphabets, grid header layout, field coverage of every writer. Not decided: f64 text round trip, timestamp zone re-resolution, "
             "row/cell layout of nested grids - these are about runtime values of two programs.")
    rep.assume("well-formed values as in the property statement (Uris without control characters, identifier alphabets for names)")
    return ("T-ESC: the Str and Uri writers' per-character behaviour is extracted from the MIR as a partition of all Unicode scalars into cells "
            "(%d + %d) with an output template each (path-sensitive interval analysis of the `for c in chars()` loop) and checked cell by cell "
            "against the reader's terminator, escape introducer and escape table, themselves extracted from the reader's MIR; strings interpolated "
            "between quotes (Ref.dis, XStr.value) must go through the Str writer; R-CURSOR: the Uri reader's \\u branch must be enterable with a "
            "successful outcome (abstract interpretation); reader byte classes (exact, by abstract interpretation) contain the well-formed "
            "alphabets; T-LAYOUT: version, meta and newline of the grid header are ordered as the reader expects on every path; R-FIELDS: each "
            "of the %d Zinc writers reads every field of its type on every non-error path." % (n1, n2, n6))


MANIFEST = {
    "technique": "static analysis: transducer extraction from writer MIR (interval analysis over all Unicode scalars) checked against reader tables from MIR; abstract interpretation for reader byte classes; CFG must-pass layout rule; all-paths field coverage",
    "level": "Decides necessary structural clauses of the Zinc round trip exhaustively: for every Unicode scalar, what the Str/Uri writer emits is "
    "decoded by the reader back to that scalar (so no string content can break a literal or change on the way); every quoted interpolation is "
    "escaped; reader alphabets cover the well-formed alphabets; the grid header line is laid out as the reader parses it; no writer can skip a "
    "field. Each of these found a real defect on the pinned tree (quotes in Ref display names / XStr values, backslash and non-BMP characters in "
    "Uris, an undecodable \\u branch, grid meta on the wrong line, columns of row-less grids lost) that the 365 tests do not exercise.",
    "note": "Partial claim (clauses): number text round trip, zone lookup and nested-grid row layout are not decided. Trusted: rustc MIR; the fmt::Arguments template decoding of this toolchain.",
}
