"""C16 Unit conversion and Number arithmetic are dimensionally sound: the dimension-algebra skeleton (partial claim)."""
from rules import unitsarith as UA


def check(ctx):
    rep = ctx.rep
    n1 = UA.check_dimension_vectors(ctx, rep)
    rep.floor("dimension components checked in UnitDimensions + / -", n1, 14)
    n2 = UA.check_convert(ctx, rep)
    rep.floor("convert_to obligations (formula, decision table)", n2, 2)
    n3 = UA.check_unit_products(ctx, rep)
    rep.floor("Unit * / obligations", n3, 7)
    n4 = UA.check_number_ops(ctx, rep)
    rep.floor("Number + - * / obligations", n4, 10)
    UA.check_unit_identity(ctx, rep)
    UA.check_approx_eq_symmetric(ctx, rep)
    n5 = UA.check_table(ctx, rep)
    rep.floor("units in the table", n5, 400)
    rep.note("Not decided: numerical accuracy (rounding of the conversion and of its inverse), approx_eq's tolerance, the name-matching fall-backs of "
             "Unit * and / when several database units share dimension and scale, and whether the database's dimension vectors are physically right.")
    rep.assume("units without a dimension record compare equal in dimension (None == None), as in the reference implementation")
    return ("The arithmetic skeleton, read from the MIR as symbolic expressions over the fields: UnitDimensions + and - are component-wise over all 7 base "
            "dimensions with the operands in order; Unit::convert_to returns (x * self.scale + self.offset - to.offset) / to.scale (compared as a "
            "rational function, so any algebraically equal rearrangement passes) and separates Ok from Err by `self.dimensions != to.dimensions`, "
            "skipped only when both units are byte units; Unit * and / look up match_units(dim1 +/- dim2, scale1 */ scale2) with self on the left and "
            "return only units that call found; match_units keeps a unit only under `dimensions == dim && approx_eq(scale)`; Number + and - combine "
            "the values with that operator, fail exactly on the path `units differ and both present` and carry an operand's unit; Number * and / "
            "combine values and units with self on the left; every one of the %d database units has a finite non-zero scale." % n5)


MANIFEST = {
    "technique": "static analysis: symbolic extraction of arithmetic expressions and guard structure from MIR (exact rational-function comparison of the conversion formula, field-wise operator tables, dominance / path conditions of the failure edges), plus evaluation of the unit table",
    "level": "Decides structural necessary conditions of dimensional soundness for all units at once: a swapped scale / offset, a copy-pasted dimension "
    "component, operands in the wrong order in a quotient, a weakened or bypassed dimension guard, a unit returned that the dimension search did "
    "not produce, an asymmetric scale comparison, a result for two unit-carrying numbers that bypasses the unit operation all change the extracted skeleton and are reported at the construct. It does not decide the numerical clauses of the property "
    "(round trip within rounding over ~200k unit pairs and magnitudes); those are outside what a static argument here can bound.",
    "note": "Partial claim (clauses); section 4 of DESIGN.md originally listed C16 as not applicable and explains what remains so. Trusted: rustc MIR; f64 arithmetic treated as real arithmetic for the formula comparison.",
}
