"""C15 Every database unit is found by each of its names and survives both codecs."""
from rules import units


def check(ctx):
    rep = ctx.rep
    from rules import escapes
    escapes.check_write_methods(ctx, rep)
    nu, ni = units.check(ctx, rep)
    from rules import zincspec as _zl
    nla = _zl.check_lookahead_on_demand(ctx, rep)
    rep.floor("propagated look-aheads in the number / date dispatcher", nla, 2)
    from rules import hayson
    noc = hayson.check_optional_members_complete(ctx, rep)
    rep.floor("optional Hayson members tied to an Option field", noc, 6)
    nrb = hayson.check_members_read_before_ok(ctx, rep)
    rep.floor("members of tagged-object readers (must-pass before Ok)", nrb, 17)
    rep.floor("units in the generated database", nu, 430)
    rep.floor("unit identifiers", ni, 900)
    rep.note("Not decided: the float magnitude part of 'a Number keeps it' (C01/C02 gaps).")
    return ("The unit database is evaluated statically from the MIR of its %d lazy_static initialisers (%d identifiers) and the UNITS literal: every "
            "(id, unit) pair points to a unit that lists that id; every id of every unit is a key; no id is duplicated or shared; every symbol "
            "(last id) lies inside the exact byte class of the Zinc reader's is_unit_char (computed by abstract interpretation of its MIR), does "
            "not start with a character the decimal scanner swallows and cannot be read as an exponent; get_unit is a single HashMap::get; both "
            "writers emit symbol() and both readers resolve with get_unit. Exhaustive over the table." % (nu, ni))


MANIFEST = {
    "technique": "static analysis: constant evaluation of the generated table from MIR + exact byte-class of the reader predicate by abstract interpretation; exhaustive table checks; loop-exit conditions of the unit reader; look-ahead guards of the number dispatcher; Hayson unit member on every path",
    "level": "Exhaustive static check of the whole database (every unit, every identifier), which the tests sample a handful of: lookup by any "
    "identifier returns its unit (table closure and uniqueness), and each unit's written symbol is re-read as one token by the Zinc number "
    "reader (symbol alphabet inside the reader's exact character class; no decimal/exponent ambiguity) and resolved by the same get_unit in Hayson.",
    "note": "Trusted: rustc MIR constants; HashMap semantics. Float magnitude round trip is not part of this check.",
}
