"""C06 Timestamps keep their instant and zone: the one statically decidable clause (R-TZ) plus panic freedom of the zone helpers."""
from rules import tz, panic


def check(ctx):
    prog, rep = ctx.prog, ctx.rep
    n = tz.check(ctx, rep)
    rep.floor("zone-mapping call sites (TimeZone::*, with_timezone)", n, 8)
    ng = tz.check_utc_guard(ctx, rep)
    rep.floor("zone-omission guard obligations", ng, 3)
    nz = tz.check_zone_names(ctx, rep)
    tz.check_zone_name_reader(ctx, rep)
    tz.check_named_zone_constructor(ctx, rep)
    from rules import zincspec as _zs6
    _zs6.check_date_lookahead(ctx, rep)
    rep.floor("zone-name table obligations (T-ZONES)", nz, 2)
    from rules import tz as _tzr
    nr = _tzr.check_component_rebuild(ctx, rep)
    rep.floor("timestamps rebuilt from components", nr, 1)
    nu = _tzr.check_utc_shortcut(ctx, rep)
    rep.floor("lookup-free UTC results in the Zinc reader", nu, 1)
    no = tz.check_offset_fields(ctx, rep)
    rep.floor("offset field obligations", no, 3)
    from rules import escapes
    nt = escapes.check_timestamp_format(ctx, rep)
    rep.floor("timestamp formatting call sites", nt, 2)
    E = [b.id for b in prog.bodies.values() if b.file.startswith("src/haystack/timezone/") or b.file.endswith("val/datetime.rs")]
    rep.floor("timezone / DateTime functions", len(E), 15)
    pr = panic.PanicRule(ctx, parsed_timestamps_only=True)
    reach, nsites = pr.run(E, rep)
    rep.assume("A7: chrono's FixedOffset Display is +HH:MM[:SS]")
    rep.note("Not decided: DST edges, zone-name resolution order, sub-second digits, equality of offsets after a round trip - these quantify over instants x the IANA database.")
    return ("R-TZ over all %d zone-mapping call sites of the crate: a local wall-clock time is converted to an instant only through FixedOffset / Utc "
            "(the definition of the instant an RFC 3339 string denotes); T-TZGUARD: the zone name is omitted only under is_utc(), which is zone identity, in both writers; T-OFFSET: the Zinc reader parses hours / minutes from exactly the digit runs of the offset pattern it scanned and picks east/west by the sign character; every path from a parsed DateTime<FixedOffset> to the stored value uses "
            "instant-preserving operations (with_timezone, from_utc_datetime). The pinned tree re-interpreted the local time in a zone guessed from "
            "the offset text (chrono_tz::Tz::from_local_datetime), which this rule reports. Plus R-PANIC over %d bodies of the timezone helpers." % (n, len(reach)))


MANIFEST = {
    "technique": "static analysis: type-resolved who-may-call rule on chrono's local->instant constructors (zone type from the resolved generic arguments) + exhaustive evaluation of the zone table against the writers' short name and the readers' lookup / length guard + must-pass rules on the zone constructors + panic-site discharge",
    "level": "Decides one necessary clause of C06 for every construction path at once: no code path builds the stored instant by re-interpreting local "
    "fields in a named zone. That clause is exactly what was broken on the pinned tree (2021-01-01T12:00:00+10:00 became 12:00Z); tests only use "
    "UTC and whole-hour single-digit offsets.",
    "note": "Partial claim (one clause). DST transitions, zone lookup and offset equality after round trips are runtime facts over the zone database and are not decided.",
}
