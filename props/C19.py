"""C19 Kinds, typed accessors and grid construction are coherent (the finite tables)."""
from rules import kinds, eqrule


def check(ctx):
    rep = ctx.rep
    nv, npred, nconv, nget = kinds.check(ctx, rep)
    rep.floor("Value kinds", nv, 18)
    rep.floor("kind predicates Value::is_*", npred, 18)
    rep.floor("TryFrom<&Value> impls", nconv, 20)
    rep.floor("typed dict getters / has_* tests", nget, 17)
    eqrule.q5(ctx, rep)
    nm = kinds.check_make_from_dicts(ctx, rep)
    from rules import hayson as _hk
    _hk.check_nothing_dropped(ctx, rep, "val/dict.rs", only=lambda b: (b.rec.get("impl") or {}).get("trait") == "haystack::val::dict::HaystackDict")
    rep.floor("make_from_dicts obligations", nm, 3)
    rep.note("make_from_dicts: decided structurally only (every key of every row reaches the name set unfiltered; one column per name; sorted by name; rows moved in) - that the result *is* the sorted union for every input is the composition of these with std's set / sort semantics.")
    return ("Exhaustive over the %d kinds: HaystackKind mirrors Value variant for variant; From<&Value> maps each variant to the like-named kind; "
            "the kind->name table, Display and TryFrom<&str> are total, injective and mutually inverse; TryFrom<u8> pairs every numeric code with its "
            "own kind; each of the %d is_<k> predicates is true for exactly variant <K>; each of the %d TryFrom<&Value> impls and %d typed dict "
            "getters succeeds for exactly the matching variant (the type system does not stop String from reading a Uri); Value::eq / Value::hash pair "
            "each variant with itself. All read from the MIR switch tables." % (nv, npred, nconv, nget))


MANIFEST = {
    "technique": "static analysis: switch-table extraction from MIR (variant -> outcome maps) and exhaustive cross-checking of the finite kind tables",
    "level": "Decides the finite part of C19 exhaustively: every one of the tables that tie a value's variant to its kind, code, name, predicate, typed "
    "conversion and typed getter is extracted from the compiled match statements and checked to be total, injective, mutually inverse and "
    "variant-exact and unconditional in its arm; the named dict shortcuts (id / ts / safe_id) hand out the stored value. A wrong arm compiles and passes any test that does not happen to exercise that kind.",
    "note": "Partial claim: make_from_dicts' sorted-union column law is not decided. Trusted: rustc MIR.",
}
