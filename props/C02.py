"""C02 Hayson encode -> decode returns the original value: the structural clauses."""
from rules import hayson, fields


def check(ctx):
    rep = ctx.rep
    from rules import tz as _tzz
    nz = _tzz.check_zone_names(ctx, rep)
    rep.floor("zone-name table obligations (T-ZONES)", nz, 2)
    from rules import tz as _tzs
    nsf = _tzs.check_strftime(ctx, rep)
    _tzs.check_date_text(ctx, rep)
    rep.floor("time-of-day text writers", nsf, 3)
    from rules import tz as _tz
    _tz.check_utc_guard(ctx, rep)
    ntzr = _tz.check(ctx, rep)
    rep.floor("zone-mapping call sites (R-TZ)", ntzr, 10)
    hayson.check_member_loop(ctx, rep)
    ntd = hayson.check_typed_deserializers(ctx, rep)
    hayson.check_text_verbatim(ctx, rep)
    nmg = hayson.check_member_guards(ctx, rep)
    hayson.check_nonfinite_spellings(ctx, rep)
    noc = hayson.check_optional_members_complete(ctx, rep)
    rep.floor("optional Hayson members tied to an Option field", noc, 6)
    nrb = hayson.check_members_read_before_ok(ctx, rep)
    rep.floor("members of tagged-object readers (must-pass before Ok)", nrb, 17)
    hayson.check_nothing_dropped(ctx, rep, "decode")
    hayson.check_nothing_dropped(ctx, rep, "encode")
    nrf = hayson.check_refusals(ctx, rep)
    rep.floor("tagged-object readers with error paths", nrf, 12)
    rep.floor("Hayson member / element write sites", nmg, 38)
    rep.floor("typed Hayson deserializers (impl Deserialize for <kind>)", ntd, 15)
    nok = hayson.check_owned_keys(ctx, rep)
    rep.floor("MapAccess / SeqAccess requests of the Hayson visitor", nok, 2)
    nic = hayson.check_int_casts(ctx, rep)
    n = hayson.check_tables(ctx, rep, with_spec=False)
    rep.floor("tagged Hayson kinds compared (writer table vs reader table)", n, 13)
    nc = hayson.check_casts(ctx, rep)
    rep.floor("float casts / serialize_f64 sites in the Hayson writer", nc, 2)
    hayson.check_float_roundtrip(ctx, rep)
    nv = hayson.check_visitor_methods(ctx, rep)
    nf = fields.check(ctx, rep, {"serde::Serialize"})
    rep.floor("Serialize impls for structs with fields", nf, 12)
    rep.note("Not decided: magnitude preservation of finite floats through serde_json's number formatting, timestamp re-zoning (see C06).")
    return ("Per kind: the member names and JSON types written by `impl Serialize` (serialize_entry constants and value types from the resolved "
            "generic arguments; which members are written on every path of the tagged object) against the members read by the matching parse_* "
            "function (getter => JSON type; None-arm Err => required); the \"_kind\" tag written equals the tag visit_map dispatches to that "
            "parse function; every required member is always written, every written member is read with a matching getter (%d kinds + column "
            "objects). R-CAST: float->int casts sit behind a range guard; serialize_f64 must not receive non-finite values. The visitor implements "
            "the %d methods serde_json calls for the JSON shapes. R-FIELDS over %d Serialize impls." % (n, nv, nf))


MANIFEST = {
    "technique": "static analysis: writer/reader member tables extracted from MIR (constants, resolved generic arguments, None-arm classification) and cross-checked; range-guard dominance for float casts; all-paths field coverage; path-condition truth tables and must-pass-through on the reader / writer CFGs (members read before Ok, optional members complete, refusal conditions, nothing dropped, typed deserializers); R-TZ",
    "level": "Decides the structural necessary conditions of the Hayson round trip for every kind at once: nothing the writer emits is dropped or read "
    "with the wrong JSON type, nothing the reader requires can be missing, tags and dispatch agree, no field of a value is skipped, and integral "
    "numbers are only written as JSON integers inside the i64 range (the pinned tree saturated 1e19 to i64::MAX); on every path an optional member is written when its field is present and read before a success is returned, the reader drops and refuses nothing by value, and timestamps are rebuilt through the offset. Tests round-trip a few sample values.",
    "note": "Partial claim (clauses). Trusted: serde_json's documented Serializer behaviour, rustc MIR.",
}
