"""C08 Filter text and filter tree correspond: spelling round trip, path rule, precedence skeleton."""
from rules import filters


def check(ctx):
    rep = ctx.rep
    from rules import zincspec as _zs
    nna = _zs.check_number_no_arith(ctx, rep)
    rep.floor("functions of the Zinc number decoder", nna, 5)
    from rules import tz as _tzz
    nz = _tzz.check_zone_names(ctx, rep)
    rep.floor("zone-name table obligations (T-ZONES)", nz, 2)
    # literals are printed by the Zinc scalar writers and read by the Zinc scalar readers: the literal-level rules of C01 apply
    from rules import escapes as _esc
    _esc.check_quoted_interpolations(ctx, rep)
    ne1 = _esc.check_str(ctx, rep)
    ne2 = _esc.check_uri(ctx, rep)
    rep.floor("Str / Uri escape transducer obligations", ne1 + ne2, 13)
    _tzz.check_utc_guard(ctx, rep)
    _tzz.check_offset_fields(ctx, rep)
    ncr = _tzz.check_component_rebuild(ctx, rep)
    rep.floor("timestamps rebuilt from components", ncr, 1)
    ntz = _tzz.check(ctx, rep)
    rep.floor("zone-mapping call sites (R-TZ)", ntz, 10)
    from rules import units as _un
    nun, nid = _un.check(ctx, rep)
    rep.floor("unit identifiers (number literals carry units)", nid, 900)
    n1 = filters.check_spellings(ctx, rep)
    n2 = filters.check_path_rule(ctx, rep)
    n3 = filters.check_skeleton(ctx, rep)
    n4 = filters.check_operators(ctx, rep)
    n5 = filters.check_display_separators(ctx, rep)
    filters.check_parens_display(ctx, rep)
    rep.floor("Display separators (Or, And, Path)", n5, 3)
    n6 = filters.check_whitespace_siblings(ctx, rep)
    rep.floor("white-space skipping sites in the filter lexer", n6, 4)
    from rules import recursion
    n7 = recursion.check_guard_balance(ctx, rep)
    rep.floor("depth counters", n7, 2)
    rep.floor("node spellings / literal readers checked", n1, 13)
    rep.floor("path must-pass instances", n2, 1)
    rep.floor("parser skeleton functions", n3, 6)
    rep.note("Literal values after re-parse: decided to the extent C01 decides them for scalars (escape transducers of Str / Uri, offset fields, zone guard, R-TZ); numbers beyond the no-arithmetic rule are not decided.")
    return ("Spelling round trip: every literal piece a node's Display emits (' or ', ' and ', 'not ', '( ' ' )', the six operators, ' *== ', '^', '?', '->') "
            "is accepted by the filter lexer's first-byte dispatch / the parser's keyword tests and leads back to the same node kind; literal values are "
            "read by the same scalar readers the Zinc writer's output is meant for. R-MUSTPASS: in parse_path every CFG path from recording a segment to "
            "reading the next identifier passes expect_and_consume('>') (the pinned tree continued a path on any lower-case token). Precedence skeleton: "
            "the call graph among the parse_* functions is exactly or -> and -> term -> {parens -> or, not, cmp, wildcard, rel} and parse() returns Ok "
            "only when no token is left.")


MANIFEST = {
    "technique": "static analysis: Display literal extraction (fmt templates from MIR) vs lexer dispatch tables; CFG must-pass-through rule; call-graph skeleton",
    "level": "Decides the finite correspondence between what filters print and what the lexer/parser accept, the path-continuation rule as a must-pass "
    "property of parse_path's control-flow graph, and the precedence structure as the exact shape of the parser's call graph. The path rule caught a "
    "real defect ('a->b and c' parsed as one path) that no existing test exercises.",
    "note": "Partial claim. Trusted: rustc MIR, fmt::Arguments template decoding.",
}
