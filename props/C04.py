"""C04 Zinc text conforms to the Project Haystack grammar: token-level tables."""
from rules import zincspec


def check(ctx):
    rep = ctx.rep
    from rules import zincspec as _zs
    nna = _zs.check_number_no_arith(ctx, rep)
    rep.floor("functions of the Zinc number decoder", nna, 5)
    from rules import tz as _tzr
    nr = _tzr.check_component_rebuild(ctx, rep)
    rep.floor("timestamps rebuilt from components", nr, 1)
    nu = _tzr.check_utc_shortcut(ctx, rep)
    rep.floor("lookup-free UTC results in the Zinc reader", nu, 1)
    n = zincspec.check(ctx, rep)
    from rules import eofstores as _eo
    neo = _eo.check(ctx, rep)
    rep.floor("stores to Scanner.is_eof", neo, 3)
    zincspec.check_exponent_reader(ctx, rep)
    zincspec.check_line_breaks_are_tokens(ctx, rep)
    zincspec.check_date_lookahead(ctx, rep)
    from rules import zincspec as _zl
    nla = _zl.check_lookahead_on_demand(ctx, rep)
    rep.floor("propagated look-aheads in the number / date dispatcher", nla, 2)
    from rules import tz as _tzg
    _tzg.check_utc_guard(ctx, rep)
    _tzg.check_offset_fields(ctx, rep)
    rep.floor("token-level table rows compared with the grammar", n, 38)
    from rules import escapes
    escapes.check_element_encoding(ctx, rep)
    escapes.check_cell_presence_only(ctx, rep, residual=False)  # N denotes the same cell as an empty one in the grammar
    nn = escapes.check_nesting_flag(ctx, rep)
    rep.floor("zinc_encode call sites (nesting flag)", nn, 5)
    ns = escapes.check_separators(ctx, rep)
    rep.floor("separator writes inside enumerate loops", ns, 4)
    ng = escapes.check_grid_layout(ctx, rep)
    rep.floor("grid header layout obligations", ng, 5)
    escapes.check_column_layout(ctx, rep)
    nw = escapes.check_write_methods(ctx, rep)
    rep.floor("io::Write calls in the Zinc writer", nw, 45)
    rep.assume("A5: spec/zinc.json is a faithful transcription of the published Zinc grammar (written offline; uncertain entries omitted)")
    rep.note("Not decided: whole-grammar equivalence of the hand-written recursive-descent parser (whitespace, trailing commas, grid layout).")
    return ("%d table rows: the Str reader's escape map contains the grammar's with the same code points; every escape the Str and Uri writers can "
            "emit (from their extracted transducers) is a grammar escape denoting the character it is emitted for; each scalar keyword (N M R NA T F "
            "NaN INF -INF) is written by the encoder for the kind the lexer maps it back to; the reader's exact byte classes for identifiers, "
            "refs, symbols, time-zone names and units contain the grammar's classes." % n)


MANIFEST = {
    "technique": "static analysis: reader/writer token tables extracted from MIR (switch tables, transducers, exact byte classes) compared with a transcribed grammar table; who-may-call and dominance rules on the scanner / lexer (EOF flag only on UnexpectedEof, line breaks are tokens, look-ahead on demand, number text converted once)",
    "level": "Decides the finite, token-level part of grammar conformance exhaustively in both directions (escape letters and code points, keywords, "
    "character classes). The pinned tree decoded \\b and \\f to the wrong code points, which no test covers; tables like these are where an "
    "independent implementation would disagree first.",
    "note": "Partial claim: the sentence-level grammar (whitespace, separators, layout) is not decided. Trusted: A5 (the transcription), rustc MIR.",
}
