"""C04 Zinc text conforms to the Project Haystack grammar: token-level tables."""
from rules import zincspec


def check(ctx):
    rep = ctx.rep
    n = zincspec.check(ctx, rep)
    rep.floor("token-level table rows compared with the grammar", n, 38)
    rep.assume("A5: spec/zinc.json is a faithful transcription of the published Zinc grammar (written offline; uncertain entries omitted)")
    rep.note("Not decided: whole-grammar equivalence of the hand-written recursive-descent parser (whitespace, trailing commas, grid layout).")
    return ("%d table rows: the Str reader's escape map contains the grammar's with the same code points; every escape the Str and Uri writers can "
            "emit (from their extracted transducers) is a grammar escape denoting the character it is emitted for; each scalar keyword (N M R NA T F "
            "NaN INF -INF) is written by the encoder for the kind the lexer maps it back to; the reader's exact byte classes for identifiers, "
            "refs, symbols, time-zone names and units contain the grammar's classes." % n)


MANIFEST = {
    "technique": "static analysis: reader/writer token tables extracted from MIR (switch tables, transducers, exact byte classes) compared with a transcribed grammar table",
    "level": "Decides the finite, token-level part of grammar conformance exhaustively in both directions (escape letters and code points, keywords, "
    "character classes). The pinned tree decoded \\b and \\f to the wrong code points, which no test covers; tables like these are where an "
    "independent implementation would disagree first.",
    "note": "Partial claim: the sentence-level grammar (whitespace, separators, layout) is not decided. Trusted: A5 (the transcription), rustc MIR.",
}
