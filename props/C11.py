"""C11 Stream decoding equals buffer decoding; iterator equals eager; re-encoding loses nothing the writer never reads."""
from rules import streams, fields


def check(ctx):
    rep = ctx.rep
    from rules import tz as _tzz
    nz = _tzz.check_zone_names(ctx, rep)
    rep.floor("zone-name table obligations (T-ZONES)", nz, 2)
    from rules import tz as _tzs
    nsf = _tzs.check_strftime(ctx, rep)
    _tzs.check_date_text(ctx, rep)
    rep.floor("time-of-day text writers", nsf, 3)
    from rules import hayson as _hc
    ncc = _hc.check_casts(ctx, rep)
    rep.floor("float casts / serialize_f64 sites in the Hayson writer", ncc, 2)
    from rules import tz as _tzr
    nr = _tzr.check_component_rebuild(ctx, rep)
    rep.floor("timestamps rebuilt from components", nr, 1)
    nu = _tzr.check_utc_shortcut(ctx, rep)
    _tzr.check_offset_fields(ctx, rep)
    nic = _hc.check_int_casts(ctx, rep)
    rep.floor("lookup-free UTC results in the Zinc reader", nu, 1)
    _hc.check_nothing_dropped(ctx, rep, "encoding/zinc/encode.rs")
    _hc.check_text_verbatim(ctx, rep)
    nmg = _hc.check_member_guards(ctx, rep)
    rep.floor("Hayson member / element write sites", nmg, 38)
    n1 = streams.check_reader_calls(ctx, rep)
    rep.floor("calls on the input reader under zinc::decode / filter", n1, 2)
    n2 = streams.check_iterator_is_eager(ctx, rep)
    rep.floor("eager-vs-lazy structure obligations", n2, 3)
    from rules import escapes
    ne1 = escapes.check_str(ctx, rep)
    ne2 = escapes.check_uri(ctx, rep)
    rep.floor("Str / Uri escape transducer obligations", ne1 + ne2, 13)
    escapes.check_cell_presence_only(ctx, rep)
    escapes.check_element_encoding(ctx, rep)
    nn = escapes.check_nesting_flag(ctx, rep)
    rep.floor("zinc_encode call sites (nesting flag)", nn, 5)
    n3 = fields.check(ctx, rep, set(fields.ENC_TRAITS))
    rep.floor("encoder impls checked for field coverage", n3, 25)
    rep.assume("std::io::Read::read_exact retries ErrorKind::Interrupted and loops over short reads (documented contract)")
    rep.note("Caveat (exceptions table): Grid.ver is normalised - a ver:\"2.0\" grid re-encodes as 3.0. Not decided: that one normalisation pass reaches a fixed point of spellings; the look-ahead bound of the lazy iterator (a path-count rule was considered and rejected as a brittle proxy).")
    return ("Chunk invisibility: under zinc::decode and the filter lexer the only calls on the input reader are Read::read_exact with a [u8; 1] buffer, "
            "located in Scanner::make and Scanner::read_byte (type-resolved who-may-call rule over %d reader calls) - necessary and, given std's "
            "contract, sufficient for 'same value however the reader splits the bytes'. Iterator == eager: parse_row's only caller is RowIterator::next and "
            "parse_grid is parse_grid_iterator + an unfiltered collect. Re-encode stability inherits R-FIELDS (%d encoder impls): anything a writer "
            "never reads would be lost on the second pass." % (n1, n3))


MANIFEST = {
    "technique": "static analysis: type-resolved who-may-call rules on std::io::Read (callee, caller, buffer type) and on the row parser; all-paths field coverage of the encoders; escape transducers and Hayson member guards for re-encode stability",
    "level": "Decides the chunking clause for all readers and all chunkings at once (the reader is only ever asked for exactly one byte through read_exact, "
    "so no decoder state depends on how many bytes a read returned; the reader it is called on is the caller's own, not a buffering wrapper that would read ahead of the row handed out), and the 'lazy iterator yields the eager rows' clause as a structural identity "
    "(one row parser, one caller). Tests decode from in-memory cursors only.",
    "note": "Partial claim: fixed point of spellings and the look-ahead bound are not decided. Trusted: std's read_exact contract; rustc MIR.",
}
