"""C12 Value equality, hashing and ordering are mutually consistent (structural consistency of the impls)."""
from rules import eqrule


def check(ctx):
    rep = ctx.rep
    nt, ni = eqrule.check(ctx, rep)
    rep.floor("types with hand-written comparison impls", nt, 8)
    rep.floor("hand-written eq/hash/partial_cmp/cmp methods", ni, 20)
    rep.assume("NaN is excluded by the property statement, so float == / < on fields are lawful")
    rep.assume("std's and chrono's own Eq/Hash/Ord impls are lawful")
    return ("R-EQ over %d types / %d hand-written methods: each method's MIR is reduced to its footprint (fields of self it reads, and through which "
            "operation); Q1 hash reads no field eq ignores and no float field compared with == is hashed through unnormalised to_bits; Q2 cmp and eq "
            "read the same fields; Q3 partial_cmp is Some(cmp) or has the same lexicographic key as cmp; Q5 every arm of Value::eq / Value::hash "
            "pairs a variant with itself. Structural consistency is necessary for the laws, and sufficient for impls built only from lawful "
            "field operations." % (nt, ni))


MANIFEST = {
    "technique": "static analysis: field-footprint extraction from MIR of hand-written Eq/Hash/PartialOrd/Ord impls and cross-checking of sibling impls",
    "level": "Cross-checks the four comparison impls of every value type against each other on the type-checked program: equal-implies-same-hash, "
    "cmp-Equal-iff-eq and partial-agrees-with-total are decided as agreement of the field footprints and per-field operations of sibling impls "
    "(all 9 types, exhaustively), which is where these laws actually break (a field hashed but not compared, an accessor consulted by hash but not by eq, -0.0 vs to_bits, two different "
    "lexicographic keys). Tests compare a handful of value pairs.",
    "note": "Decides structural consistency, not the laws over all values: transitivity etc. follow only under the assumption that the field-level "
    "operations (std, chrono) are lawful. NaN excluded by the statement.",
}
